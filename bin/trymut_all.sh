#!/bin/bash
# trymut_all.sh "<sed-expr>" <file-in-repo> : apply a one-off mutation to a scratch copy of /repo, type-check it, run ALL quick checks, report which rules fire.
SED="$1"; FILE="$2"
T=$(mktemp -d /tmp/mv-mut-XXXX)
rsync -a --exclude target --exclude .git /repo/ $T/repo/
sed -i "$SED" $T/repo/$FILE
if diff -q /repo/$FILE $T/repo/$FILE >/dev/null; then echo "MUTATION DID NOT APPLY"; rm -rf $T; exit 2; fi
diff /repo/$FILE $T/repo/$FILE | grep '^[<>]' | head -6
( cd $T/repo && CARGO_TARGET_DIR=/verif/.work/target-mutcheck cargo check --offline 2>&1 | grep -E "^error" | head -3 )
for p in C01 C02 C03 C04 C05 C06 C07 C08 C09 C10 C11 C12 C13 C14 C15 C16 C17 C18 C19 C20; do
  MV_REPO=$T/repo VERIF_EVIDENCE_DIR=$T/ev VERIF_SELFTEST_CHILD=1 VERIF_FACTS_CACHE=$T/facts /verif/check $p --tier quick 2>&1 | grep -E "^  (src|\?)" | grep -v "K2\|E0119" | cut -c1-170 | head -2
done
rm -rf $T
