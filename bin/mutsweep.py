#!/usr/bin/env python3
"""Mechanical mutation sweep (development tool for E6; not a registered check).

  mutsweep.py gen                       -> <out>/mutants.jsonl          (one-token mutants of /repo/src, test modules excluded)
  mutsweep.py test  [-j N] [--only RE]  -> <out>/tested.jsonl           (nocompile / killed / survived w.r.t. `cargo test --lib`)
  mutsweep.py check [-j N]              -> <out>/checked.jsonl          (all 20 quick checks against every survivor)
  mutsweep.py report                    -> table of survivors by reporting rules

Every scratch copy lives under <out> (default /tmp/mutsweep) and is removed by `mutsweep.py clean`.
Static analysis is what decides the properties; this tool only measures, on mechanically generated variants that the
repository's own tests cannot tell from the original, whether the analysis reports them."""
import json, os, re, subprocess, sys, shutil, argparse, hashlib, time
from concurrent.futures import ThreadPoolExecutor
import threading, queue

V = os.path.dirname(os.path.dirname(os.path.abspath(__file__)))
REPO = os.environ.get('MV_REPO', '/repo')
OUT = os.environ.get('MUTSWEEP_OUT', '/tmp/mutsweep')
PROPS = ['C%02d' % i for i in range(1, 21)]

SKIP_FILES = {'src/voronoi/convex_cell_alternative.rs', 'src/part.rs'}


def code_lines(path):
    """(lineno, text) of non-test, non-comment code lines; stops at the file-level `#[cfg(test)]` module, skips the
    nested test-only items (`#[cfg(test)]` followed by one item) and hdf5/rug-only items."""
    src = open(os.path.join(REPO, path)).read().split('\n')
    out = []
    i = 0
    skip_depth = None
    depth = 0
    pending_skip = False
    while i < len(src):
        l = src[i]
        s = l.strip()
        if re.match(r'#\[cfg\((test|feature = "(hdf5|rug)")\)\]', s):
            if not l.startswith(' ') and 'test' in s:
                break       # file-level test module: rest of the file
            pending_skip = True
            i += 1
            continue
        opens, closes = l.count('{'), l.count('}')
        if pending_skip:
            # skip exactly one item (until braces balance again, or a `;`-terminated item)
            if skip_depth is None:
                skip_depth = 0
            skip_depth += opens - closes
            if (skip_depth == 0 and (s.endswith(';') or s.endswith('}') or s.endswith(','))):
                pending_skip = False
                skip_depth = None
            i += 1
            continue
        if s.startswith('//') or s.startswith('#[') or s.startswith('#!') or s.startswith('use ') or s.startswith('pub use ') or not s:
            i += 1
            continue
        out.append((i + 1, l))
        i += 1
    return out


OPS = [
    # (name, regex, replacement(s))
    ('add->sub', r'(?<=[\w\)\]\.]) \+ (?=[\w\(\-&\*])', [' - ']),
    ('sub->add', r'(?<=[\w\)\]\.]) - (?=[\w\(\-&\*])', [' + ']),
    ('mul->div', r'(?<=[\w\)\]\.]) \* (?=[\w\(\-&])', [' / ']),
    ('div->mul', r'(?<=[\w\)\]\.]) / (?=[\w\(\-&])', [' * ']),
    ('addassign', r' \+= ', [' -= ']),
    ('subassign', r' -= ', [' += ']),
    ('mulassign', r' \*= ', [' /= ']),
    ('lt', r'(?<=[\w\)\]\.]) < (?=[\w\(\-&\*])', [' <= ', ' > ']),
    ('le', r'(?<=[\w\)\]\.]) <= (?=[\w\(\-&\*])', [' < ', ' >= ']),
    ('gt', r'(?<=[\w\)\]\.]) > (?=[\w\(\-&\*])', [' >= ', ' < ']),
    ('ge', r'(?<=[\w\)\]\.]) >= (?=[\w\(\-&\*])', [' > ', ' <= ']),
    ('eq', r' == ', [' != ']),
    ('ne', r' != ', [' == ']),
    ('and', r' && ', [' || ']),
    ('or', r' \|\| ', [' && ']),
    ('not', r'(?<![\w\)])!(?=[\w\(])(?!\[)', ['']),
    ('neg', r'(?<=[\(=,\[ ])-(?=[a-zA-Z_\(])', ['']),
    ('axis-x', r'(?<=\w)\.x\b(?!\()', ['.y']),
    ('axis-y', r'(?<=\w)\.y\b(?!\()', ['.z']),
    ('axis-z', r'(?<=\w)\.z\b(?!\()', ['.x']),
    ('idx0', r'\[0\]', ['[1]']),
    ('idx1', r'\[1\]', ['[2]']),
    ('idx2', r'\[2\]', ['[0]']),
    ('min<->max', r'\bmin\b(?=\()', ['max']),
    ('max<->min', r'\bmax\b(?=\()', ['min']),
    ('min_by', r'\bmin_by\b', ['max_by']),
    ('max_by', r'\bmax_by\b', ['min_by']),
    ('true', r'\btrue\b', ['false']),
    ('false', r'\bfalse\b', ['true']),
    ('dimA', r'\bThreeD\b', ['TwoD']),
    ('dimB', r'\bTwoD\b', ['OneD', 'ThreeD']),
    ('dimC', r'\bOneD\b', ['TwoD']),
    ('flit', r'(?<![\w\.])(\d+)\.(\d*)(?![\w\.])', None),      # float literal: handled specially
    ('ilit', r'(?<![\w\.\[])(\d+)(?![\w\.\]])(?!\.\.)', None),   # integer literal
    ('some->none', r'\bSome\(([a-z_][\w]*)\)(?= *[,;\)\}]|$)', None),
    ('is_some', r'\bis_some\(\)', ['is_none()']),
    ('is_none', r'\bis_none\(\)', ['is_some()']),
    ('range-incl', r'\.\.=', ['..']),
    ('range-excl', r'(?<=[\w\)])\.\.(?=[\w\(])', ['..=']),
    ('unit-X', r'\bDVec3::X\b', ['DVec3::Y']),
    ('unit-Y', r'\bDVec3::Y\b', ['DVec3::Z']),
    ('unit-Z', r'\bDVec3::Z\b', ['DVec3::X']),
    ('unit-NX', r'\bDVec3::NEG_X\b', ['DVec3::X']),
    ('unit-NY', r'\bDVec3::NEG_Y\b', ['DVec3::Y']),
    ('unit-NZ', r'\bDVec3::NEG_Z\b', ['DVec3::Z']),
    ('continue', r'\bcontinue\b', ['{}']),
    ('break', r'\bbreak;', ['{}']),
    ('abs', r'\.abs\(\)', ['']),
    ('sqrt', r'\.sqrt\(\)', ['']),
    ('len_sq', r'\blength_squared\(\)', ['length()']),
    ('len', r'\blength\(\)', ['length_squared()']),
    ('dist_sq', r'\bdistance_squared\(', ['distance(']),
    ('left-right', r'\bleft\b(?=\(\)|_idx)', ['right']),
]

# second operator set (MUTSWEEP_SET=2): identifier / field swaps, dropped conjuncts, off-by-one on expressions, iteration order, argument swaps
OPS2 = [
    ('field-left', r'(?<=\.)left\b(?!\()', ['right']),
    ('field-right', r'(?<=\.)right\b(?!\()', ['left']),
    ('anchor-width', r'\banchor\b(?!\s*[:(])', ['width']),
    ('width-anchor', r'\bwidth\b(?!\s*[:(])', ['anchor']),
    ('offset-count', r'\bface_connections_offset\b', ['face_count']),
    ('count-offset', r'\bface_count\b', ['face_connections_offset']),
    ('idx-right_idx', r'(?<![\w\.])right_idx\b', ['idx']),
    ('volume-area', r'\bvolume\b(?!\s*[:(])', ['area']),
    ('drop-conj-l', r'(?<=[\( ])([\w\.\[\]\(\)\*! <>=]+?) && ', ['']),
    ('drop-disj-l', r'(?<=[\( ])([\w\.\[\]\(\)\*! <>=]+?) \|\| ', ['']),
    ('plus1', r'(?<=\[)([a-z_][\w\.]*)(?=\])', None),
    ('len-1', r'\.len\(\)(?! *[-+])', ['.len() - 1', '.len() + 1']),
    ('iter-rev', r'\.iter\(\)(?=\s*(\.|$|\)|\{))', ['.iter().rev()']),
    ('iter-skip1', r'\.iter\(\)(?=\s*(\.|$|\)|\{))', ['.iter().skip(1)']),
    ('enumerate-off', r'\.enumerate\(\)', ['.enumerate().skip(1)']),
    ('argswap', r'\(([a-z_][\w\.\[\]]*), ([a-z_][\w\.\[\]]*)(?=[,\)])', None),
    ('deref-ref-min', r'\bmin_by\b|\bmax_by\b', None),
    ('cur-next', r'\bcur\b', ['next']),
    ('next-cur', r'(?<![\.\w])next\b(?!\()', ['cur']),
    ('i-j', r'(?<![\w\.])i(?![\w\(])', ['j']),
    ('j-k', r'(?<![\w\.])j(?![\w\(])', ['k']),
    ('k-i', r'(?<![\w\.])k(?![\w\(])', ['i']),
    ('a-b', r'(?<![\w\.&])a(?![\w\(])', ['b']),
    ('b-c', r'(?<![\w\.&])b(?![\w\(])', ['c']),
    ('v0-v1', r'\bv0\b', ['v1']),
    ('v1-v2', r'\bv1\b', ['v2']),
    ('gen-v0', r'(?<![\w\.])gen\b', ['v0']),
    ('loc-centroid', r'(?<=\.)loc\b(?!\()', ['centroid']),
    ('none-some', r'\bNone\b(?= *=>)', None),
    ('copied-index', r'\bdual\[0\]', ['dual[1]']),
]
OPS3 = [
    ('cond-if', r'(?<=\bif )(?!let )(?!true\b)(?!false\b)([^{}]+?)(?= \{\s*$)', ['true', 'false']),
    ('cond-while', r'(?<=\bwhile )(?!let )([^{}]+?)(?= \{\s*$)', ['false']),
    ('continue->break', r'\bcontinue;', ['break;']),
    ('break->continue', r'\bbreak;', ['continue;']),
    ('del-continue', r'^\s*continue;\s*$', ['']),
    ('del-break', r'^\s*break;\s*$', ['']),
    ('drop-abs', r'\.abs\(\)', ['']),
    ('drop-sqrt', r'\.sqrt\(\)', ['']),
    ('drop-normalize', r'\.normalize\(\)', ['']),
    ('drop-rev', r'\.rev\(\)', ['']),
    ('drop-skip', r'\.skip\(\w+\)', ['']),
    ('drop-take', r'\.take\(\w+\)', ['']),
    ('drop-powi', r'\.powi\(2\)', ['']),
    ('drop-recip', r'\.recip\(\)', ['']),
    ('drop-floor', r'\.floor\(\)', ['.ceil()', '']),
    ('drop-ceil', r'\.ceil\(\)', ['.floor()', '']),
    ('drop-clamp-min', r'\.min\(([\w\.\(\)]+)\)', ['']),
    ('drop-clamp-max', r'\.max\(([\w\.\(\)]+)\)', ['']),
    ('elem-minmax', r'\bmin_element\b', ['max_element']),
    ('elem-maxmin', r'\bmax_element\b', ['min_element']),
    ('len-len2', r'\blength\(\)', ['length_squared()']),
    ('len2-len', r'\blength_squared\(\)', ['length()']),
    ('dist-dist2', r'\bdistance\(', ['distance_squared(']),
    ('dist2-dist', r'\bdistance_squared\(', ['distance(']),
    ('axis-x-r', r'(?<=\w)\.x\b(?!\()', ['.z']),
    ('axis-y-r', r'(?<=\w)\.y\b(?!\()', ['.x']),
    ('axis-z-r', r'(?<=\w)\.z\b(?!\()', ['.y']),
    ('idx0-r', r'\[0\]', ['[2]']),
    ('idx1-r', r'\[1\]', ['[0]']),
    ('idx2-r', r'\[2\]', ['[1]']),
    ('tuple-0', r'(?<=\w)\.0\b(?!\.)', ['.1']),
    ('tuple-1', r'(?<=\w)\.1\b(?!\.)', ['.0']),
    ('unwrap-or-default', r'\.unwrap_or\(([^()]+)\)', ['.unwrap_or_default()']),
    ('map_or-bool', r'map_or\((true|false),', None),
    ('any-all', r'\.any\(', ['.all(']),
    ('all-any', r'\.all\(', ['.any(']),
    ('first-last', r'\.first\(\)', ['.last()']),
    ('last-first', r'\.last\(\)', ['.first()']),
    ('pop-remove0', r'\.pop\(\)', ['.pop().and_then(|_| None)']),
    ('swap_remove', r'\.swap_remove\(', ['.remove(']),
    ('insert-push', r'\.min_by\b', ['.max_by']),
]
if os.environ.get('MUTSWEEP_SET') == '2':
    OPS = OPS2
if os.environ.get('MUTSWEEP_SET') == '3':
    OPS = OPS3
if os.environ.get('MUTSWEEP_SET') == '4':
    OPS = []


def gen():
    os.makedirs(OUT, exist_ok=True)
    files = sorted(os.path.join(dp, f)[len(REPO) + 1:] for dp, _dn, fn in os.walk(os.path.join(REPO, 'src')) for f in fn if f.endswith('.rs'))
    muts = []
    for path in files:
        if path in SKIP_FILES:
            continue
        for ln, text in code_lines(path):
            code = text.split('//')[0]
            if re.search(r'\b(debug_assert|assert|assert_eq|panic|expect|unreachable)\b', code) and 'expect(' not in code:
                continue
            if 'assert' in code:
                continue
            for name, rx, reps in OPS:
                for m in re.finditer(rx, code):
                    if reps is None:
                        if name == 'flit':
                            lit = m.group(0)
                            val = float(lit)
                            cands = ['0.' if val != 0 else '1.', repr(val * 2.0).rstrip('0') if val != 0 else None, repr(val / 2.0) if val != 0 else None]
                            cands = [c for c in cands if c]
                        elif name == 'ilit':
                            val = int(m.group(0))
                            cands = [str(val + 1)] + ([str(val - 1)] if val > 0 else [])
                        elif name == 'some->none':
                            cands = ['None']
                        elif name == 'map_or-bool':
                            cands = ['map_or(%s,' % ('false' if m.group(1) == 'true' else 'true')]
                        elif name == 'plus1':
                            cands = [m.group(1) + ' + 1']
                        elif name == 'argswap':
                            if m.group(1) == m.group(2):
                                continue
                            cands = ['(%s, %s' % (m.group(2), m.group(1))]
                        else:
                            continue
                        for c in cands:
                            muts.append((path, ln, name, m.start(), m.end(), c))
                    else:
                        for c in reps:
                            muts.append((path, ln, name, m.start(), m.end(), c))
            if os.environ.get('MUTSWEEP_SET') == '4':
                # "whether, not how": the statement / the rest of the loop runs only under an additional, opaque condition that is true in every test
                # run (an environment variable that is not set).  A rule that checks the arguments of an event but not the conditions it happens
                # under, or the items of a loop but not that the loop runs to its end, cannot tell these from the original.
                s4 = code.strip()
                ind = text[:len(text) - len(text.lstrip())]
                if s4.endswith(';') and not s4.startswith(('let ', 'return', 'pub ', 'fn ', 'type ', 'const ', 'static ', '}', ')', ']', 'break', 'continue', 'use ', 'impl ')) \
                        and s4.count('(') == s4.count(')') and s4.count('{') == s4.count('}') and '=>' not in s4 and '?' not in s4:
                    if re.match(r'[\w\.\[\]\*&\(\)]+( [\+\-\*/]?= |\.\w+\()', s4) or re.match(r'\w[\w:]*\(', s4):
                        muts.append((path, ln, 'guard-stmt', 0, len(text), ind + 'if std::env::var_os("MV_SWEEP").is_none() { ' + s4 + ' }'))
                if re.match(r'^\s*(for .+ in .+|while .+|loop) \{\s*$', code) and 'while let' not in code:
                    muts.append((path, ln, 'loop-early-break', 0, len(text), text.rstrip() + ' if std::env::var_os("MV_SWEEP").is_some() { break; }'))
                    muts.append((path, ln, 'loop-early-continue', 0, len(text), text.rstrip() + ' if std::env::var_os("MV_SWEEP").is_some() { continue; }'))
                continue
            # statement deletion: a whole-line call / compound assignment statement
            s = code.strip()
            if os.environ.get('MUTSWEEP_SET') not in ('2', '3') and s.endswith(';') and not s.startswith(('let ', 'return', 'pub ', 'fn ', 'type ', 'const ', 'static ', '}', ')', ']')) and s.count('(') == s.count(')') and s.count('{') == s.count('}') and '=>' not in s:
                if re.match(r'[\w\.\[\]\*&\(\)]+( [\+\-\*/]?= |\.\w+\()', s) or re.match(r'\w[\w:]*\(', s):
                    muts.append((path, ln, 'delete-stmt', 0, len(text), ''))
    seen = set()
    with open(os.path.join(OUT, 'mutants.jsonl'), 'w') as f:
        n = 0
        for path, ln, name, a, b, c in muts:
            key = (path, ln, a, b, c)
            if key in seen:
                continue
            seen.add(key)
            mid = 'm%05d' % n
            n += 1
            f.write(json.dumps({'id': mid, 'file': path, 'line': ln, 'op': name, 'a': a, 'b': b, 'new': c}) + '\n')
    print('generated', n, 'mutants over', len(files), 'files ->', os.path.join(OUT, 'mutants.jsonl'))
    from collections import Counter
    print(Counter(m[0] for m in muts).most_common())


def load(name):
    p = os.path.join(OUT, name)
    if not os.path.exists(p):
        return []
    return [json.loads(l) for l in open(p) if l.strip()]


def apply_mut(root, m):
    p = os.path.join(root, m['file'])
    lines = open(os.path.join(REPO, m['file'])).read().split('\n')
    l = lines[m['line'] - 1]
    lines[m['line'] - 1] = l[:m['a']] + m['new'] + l[m['b']:]
    open(p, 'w').write('\n'.join(lines))
    return l.strip(), lines[m['line'] - 1].strip()


def restore(root, m):
    shutil.copyfile(os.path.join(REPO, m['file']), os.path.join(root, m['file']))


def make_worker(k):
    w = os.path.join(OUT, 'w%d' % k)
    if not os.path.exists(os.path.join(w, 'repo')):
        os.makedirs(w, exist_ok=True)
        subprocess.run(['rsync', '-a', '--exclude', 'target', '--exclude', '.git', REPO + '/', w + '/repo/'], check=True)
    # make sure sources are pristine
    subprocess.run(['rsync', '-a', '--exclude', 'target', '--exclude', '.git', REPO + '/src/', w + '/repo/src/'], check=True)
    return w


BASE_OK = [35]


def cargo_check_only(w, timeout=300):
    env = dict(os.environ, CARGO_NET_OFFLINE='true', CARGO_TARGET_DIR=os.path.join(w, 'target'), CARGO_INCREMENTAL='1', RUSTFLAGS='-Awarnings')
    p = subprocess.run(['cargo', 'check', '--offline', '--lib'], cwd=os.path.join(w, 'repo'), env=env, capture_output=True, text=True, timeout=timeout)
    return ('survived', []) if p.returncode == 0 else ('nocompile', [])


def cargo_test(w, timeout=100):
    if os.environ.get('MUTSWEEP_COMPILE_ONLY'):
        return cargo_check_only(w)
    env = dict(os.environ, CARGO_NET_OFFLINE='true', CARGO_TARGET_DIR=os.path.join(w, 'target'), CARGO_INCREMENTAL='1', RUSTFLAGS='-Awarnings')
    import signal
    p = subprocess.Popen(['cargo', 'test', '--offline', '--lib', '--tests', '--no-fail-fast', '--', '--test-threads', '2'], cwd=os.path.join(w, 'repo'), env=env,
                         stdout=subprocess.PIPE, stderr=subprocess.STDOUT, text=True, start_new_session=True)
    try:
        out, _ = p.communicate(timeout=timeout)
    except subprocess.TimeoutExpired:
        try:
            os.killpg(p.pid, signal.SIGKILL)
        except ProcessLookupError:
            pass
        p.communicate()
        return 'killed', ['TIMEOUT']
    if re.search(r'^error(\[E\d+\])?:', out, re.M) and 'test result' not in out:
        return 'nocompile', re.findall(r'^error.*', out, re.M)[:1]
    failed = [t for t in re.findall(r'^test (\S+) \.\.\. FAILED', out, re.M) if not t.endswith('test_non_perturbed_z')]
    oks = len(re.findall(r'^test \S+ \.\.\. ok', out, re.M))
    if failed or oks < BASE_OK[0]:
        return 'killed', failed[:4] or ['ok=%d' % oks]
    return 'survived', []


def test(jobs, only):
    muts = load('mutants.jsonl')
    done = {r['id'] for r in load('tested.jsonl')}
    todo = [m for m in muts if m['id'] not in done and (not only or re.search(only, m['file'] + ':' + m['op']))]
    print('to test:', len(todo), 'already:', len(done), flush=True)
    q = queue.Queue()
    for m in todo:
        q.put(m)
    lock = threading.Lock()
    fout = open(os.path.join(OUT, 'tested.jsonl'), 'a')
    t0 = time.time()
    cnt = [0]

    def run(k):
        w = make_worker(k)
        st, info = cargo_test(w, timeout=900)     # warm
        if st != 'survived':
            print('worker', k, 'baseline not clean:', st, info, flush=True)
            return
        while True:
            try:
                m = q.get_nowait()
            except queue.Empty:
                return
            old, new = apply_mut(os.path.join(w, 'repo'), m)
            try:
                st, info = cargo_test(w)
            finally:
                restore(os.path.join(w, 'repo'), m)
            with lock:
                fout.write(json.dumps(dict(m, status=st, info=info, old=old, mut=new)) + '\n')
                fout.flush()
                cnt[0] += 1
                if cnt[0] % 50 == 0:
                    print('%d/%d  %.0fs' % (cnt[0], len(todo), time.time() - t0), flush=True)
    ths = [threading.Thread(target=run, args=(k,)) for k in range(jobs)]
    for t in ths:
        t.start()
    for t in ths:
        t.join()
    from collections import Counter
    print(Counter(r['status'] for r in load('tested.jsonl')))


def check(jobs, only):
    sys.path.insert(0, V)
    from analyzer import selftest
    surv = [r for r in load('tested.jsonl') if r['status'] == 'survived' and (not only or re.search(only, r['file'] + ':' + r['op']))]
    done = {r['id'] for r in load('checked.jsonl')}
    todo = [m for m in surv if m['id'] not in done]
    print('survivors to check:', len(todo), 'already:', len(done), flush=True)
    known = {k['key'] for k in json.load(open(os.path.join(V, 'known_findings.json')))['findings'] if k['status'] == 'known'}
    lock = threading.Lock()
    fout = open(os.path.join(OUT, 'checked.jsonl'), 'a')
    t0 = time.time()
    cnt = [0]

    def one(m):
        tmp = os.path.join(OUT, 'c-' + m['id'])
        dst = os.path.join(tmp, 'repo')
        os.makedirs(tmp, exist_ok=True)
        subprocess.run(['rsync', '-a', '--exclude', 'target', '--exclude', '.git', REPO + '/', dst + '/'], check=True)
        apply_mut(dst, m)
        det, inc = [], []
        try:
            ev = os.path.join(tmp, 'ev')
            os.makedirs(os.path.join(ev, 'violations'), exist_ok=True)
            for p in PROPS:
                rc, reports, out = selftest.run_child(p, dst, ev, cache=os.path.join(tmp, 'facts'))
                if rc not in (0, 1):
                    inc.append(p + '.CRASH')
                for r in reports:
                    if r.get('key') in known:
                        continue
                    (det if r.get('kind') == 'violation' else inc).append(r['rule'])
        finally:
            shutil.rmtree(tmp, ignore_errors=True)
        with lock:
            fout.write(json.dumps(dict(m, detected_by=sorted(set(det)), incomplete=sorted(set(inc) - set(det)))) + '\n')
            fout.flush()
            cnt[0] += 1
            if cnt[0] % 10 == 0:
                print('%d/%d  %.0fs' % (cnt[0], len(todo), time.time() - t0), flush=True)
    with ThreadPoolExecutor(max_workers=jobs) as ex:
        list(ex.map(one, todo))


def report(only):
    rows = load('checked.jsonl')
    tested = load('tested.jsonl')
    from collections import Counter
    print('tested:', Counter(r['status'] for r in tested))
    print('survivors checked:', len(rows), ' reported as violation:', sum(1 for r in rows if r['detected_by']),
          ' only incomplete:', sum(1 for r in rows if not r['detected_by'] and r['incomplete']), ' silent:', sum(1 for r in rows if not r['detected_by'] and not r['incomplete']))
    for r in sorted(rows, key=lambda r: (r['file'], r['line'])):
        if only and not re.search(only, r['file']):
            continue
        tag = 'VIOL' if r['detected_by'] else ('INC ' if r['incomplete'] else 'MISS')
        print('%s %s %s:%d [%s]  %s  =>  %s   %s' % (tag, r['id'], r['file'], r['line'], r['op'], r['old'][:70], r['mut'][:70], ','.join(r['detected_by'] or r['incomplete'])[:80]))


if __name__ == '__main__':
    ap = argparse.ArgumentParser()
    ap.add_argument('cmd', choices=['gen', 'test', 'check', 'report', 'clean'])
    ap.add_argument('-j', type=int, default=8)
    ap.add_argument('--only')
    a = ap.parse_args()
    if a.cmd == 'gen':
        gen()
    elif a.cmd == 'test':
        test(a.j, a.only)
    elif a.cmd == 'check':
        check(a.j, a.only)
    elif a.cmd == 'report':
        report(a.only)
    elif a.cmd == 'clean':
        for d in os.listdir(OUT):
            if d.startswith(('w', 'c-')) and os.path.isdir(os.path.join(OUT, d)):
                shutil.rmtree(os.path.join(OUT, d), ignore_errors=True)
