#!/bin/bash
# Build the E0 driver and warm the dependency artifacts of every feature configuration (offline).
set -u
V=/verif
export CARGO_NET_OFFLINE=true
mkdir -p $V/.work/facts $V/evidence/violations
( cd $V/driver && CARGO_TARGET_DIR=$V/.work/driver-target cargo build --offline 2>&1 | tail -3 ) || exit 1
[ -x $V/.work/driver-target/debug/mv-facts ] || { echo "driver build failed"; exit 1; }
CFGS="default norayon dashu malachite num_bigint dashu_norayon malachite_norayon num_bigint_norayon default_nodebug"
pids=""
for c in $CFGS; do
  ( $V/bin/extract.sh $c $V/.work/facts/warm-$c.json && rm -f $V/.work/facts/warm-$c.json && echo "warmed $c" ) &
  pids="$pids $!"
done
rc=0
for p in $pids; do wait $p || rc=1; done
exit $rc
