#!/bin/bash
# Build the E0 driver and warm the dependency artifacts of every feature configuration (offline).
set -u
V=/verif
export CARGO_NET_OFFLINE=true
mkdir -p $V/.work/facts $V/evidence/violations
( cd $V/driver && CARGO_TARGET_DIR=$V/.work/driver-target cargo build --offline 2>&1 | tail -3 ) || exit 1
[ -x $V/.work/driver-target/debug/mv-facts ] || { echo "driver build failed"; exit 1; }
CFGS="default norayon dashu malachite num_bigint dashu_norayon malachite_norayon num_bigint_norayon default_nodebug"
pids=""
for c in $CFGS; do
  ( $V/bin/extract.sh $c $V/.work/facts/warm-$c.json && rm -f $V/.work/facts/warm-$c.json && echo "warmed $c" ) &
  pids="$pids $!"
done
# warm the witness crate's dependency artifacts (E5)
( cp /repo/Cargo.lock $V/witnesses/w/Cargo.lock && cd $V/witnesses/w && CARGO_TARGET_DIR=$V/.work/target-witness CARGO_INCREMENTAL=0 cargo +nightly check --offline --bin pass_c14_custom_integrals >/dev/null 2>&1 && echo "warmed witnesses" ) &
pids="$pids $!"
rc=0
for p in $pids; do wait $p || rc=1; done
exit $rc
