"""Interactive helper: F = devfacts.load('default') extracts facts for $MV_REPO (default /repo) and keeps them in /tmp/mv-dev/facts-<cfg>.json."""
import os, sys, subprocess
V = os.path.dirname(os.path.dirname(os.path.abspath(__file__)))
sys.path.insert(0, V)
from analyzer.facts import Facts
def load(cfg='default', fresh=False):
    out = '/tmp/mv-dev/facts-%s.json' % cfg
    os.makedirs('/tmp/mv-dev', exist_ok=True)
    if fresh or not os.path.exists(out):
        p = subprocess.run([os.path.join(V, 'bin', 'extract.sh'), cfg, out], capture_output=True, text=True)
        assert p.returncode == 0, p.stderr[-2000:]
    return Facts(out)
