#!/bin/bash
# seed_verify.sh <worktree> : confirm a seeded change delivered in <worktree>/_out
#   (1) patch applies and the baseline suite still passes, (2) demo fails with the patch, (3) demo passes without.
set -u
W="$1"; O="$W/_out"
cd "$W" || exit 2
git checkout -q -- . ; rm -f tests/seed_demo.rs
[ -f "$O/patch.diff" ] || { echo "no patch.diff"; exit 2; }
DEMO=$(ls "$O"/seed_demo.rs 2>/dev/null | head -1)
FEAT=""
if [ -n "$DEMO" ]; then F=$(head -1 "$DEMO" | sed -n 's|^// features: *\([A-Za-z0-9_,]*\).*|\1|p'); [ -n "$F" ] && FEAT="--no-default-features --features $F"; fi
run_demo() {
  if [ -f "$O/demo.diff" ]; then git apply "$O/demo.diff" || return 99; timeout 600 cargo test --offline --lib seed_demo >"$O/.demo.log" 2>&1; rc=$?; git apply -R "$O/demo.diff"; return $rc
  elif [ -n "$DEMO" ]; then cp "$DEMO" tests/seed_demo.rs; timeout 900 cargo test --offline $FEAT --test seed_demo >"$O/.demo.log" 2>&1; rc=$?; rm -f tests/seed_demo.rs; return $rc
  else echo "no demo"; return 98; fi
}
run_demo; R_CLEAN=$?
git apply "$O/patch.diff" || { echo "PATCH DOES NOT APPLY"; exit 2; }
timeout 900 cargo test --offline --no-fail-fast >"$O/.base.log" 2>&1
PASSED=$(grep -E '^test .* \.\.\. ok' "$O/.base.log" | grep -v seed_demo | wc -l)
FAILED=$(grep -E '^test .* \.\.\. FAILED' "$O/.base.log" | grep -v test_non_perturbed_z | wc -l)
timeout 600 cargo check --offline --no-default-features --features ibig >/dev/null 2>&1; R_NORAYON=$?
run_demo; R_PATCH=$?
git checkout -q -- . ; rm -f tests/seed_demo.rs
echo "demo_clean_rc=$R_CLEAN demo_patched_rc=$R_PATCH baseline_ok_tests=$PASSED baseline_unexpected_failures=$FAILED norayon_check_rc=$R_NORAYON"
if [ $R_CLEAN -eq 0 ] && [ $R_PATCH -ne 0 ] && [ $R_PATCH -ne 98 ] && [ $R_PATCH -ne 99 ] && [ $R_PATCH -ne 124 ] && [ $FAILED -eq 0 ] && [ $PASSED -ge 40 ]; then echo CONFIRMED; exit 0; else echo NOT-CONFIRMED; exit 1; fi
