#!/usr/bin/env python3
"""Run every quick check against every stored seeded change (scratch copies) and record, in seeded/<n>/meta.json,
which rules report it (`detected_by`, violations only) — also prints the matrix.  usage: seed_matrix.py [seed-name ...]"""
import json, os, sys
V = os.path.dirname(os.path.dirname(os.path.abspath(__file__)))
sys.path.insert(0, V)
from analyzer import selftest
PROPS = [c['property_id'] for c in json.load(open(os.path.join(V, 'MANIFEST.json')))['checks']]
names = sys.argv[1:] or sorted(os.listdir(os.path.join(V, 'seeded')))
import tempfile, shutil
basedir = tempfile.mkdtemp(prefix='mv-base-')
base = {}
for p in PROPS:
    rc, reports, out = selftest.run_child(p, '/repo', os.path.join(basedir, 'ev'))
    base[p] = {r.get('key') for r in reports}
known = {k['key'] for k in json.load(open(os.path.join(V, 'known_findings.json')))['findings'] if k['status'] == 'known'}
shutil.rmtree(basedir, ignore_errors=True)
for n in names:
    tmp, dst = selftest.make_scratch('seeded/%s/patch.diff' % n)
    if tmp is None:
        print(n, 'PATCH DOES NOT APPLY'); continue
    det, inc = [], []
    try:
        ev = os.path.join(tmp, 'ev'); os.makedirs(os.path.join(ev, 'violations'))
        for p in PROPS:
            rc, reports, out = selftest.run_child(p, dst, ev)
            for r in reports:
                if r.get('key') in base[p] or r.get('key') in known:
                    continue
                (det if r.get('kind') == 'violation' else inc).append(r['rule'])
    finally:
        shutil.rmtree(tmp, ignore_errors=True)
    det, inc = sorted(set(det)), sorted(set(inc) - set(det))
    mp = os.path.join(V, 'seeded', n, 'meta.json')
    m = json.load(open(mp))
    m['detected_by'] = det
    m['also_reported_as_analysis_incomplete_by'] = inc
    json.dump(m, open(mp, 'w'), indent=1)
    print('%-45s %s %s' % (n, det or 'MISSED', ('(incomplete: %s)' % inc) if inc else ''))
