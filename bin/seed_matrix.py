#!/usr/bin/env python3
"""Run every quick check against every stored seeded change (scratch copies) and record, in seeded/<n>/meta.json,
which rules report it (`detected_by`, violations only) — also prints the matrix.  usage: seed_matrix.py [seed-name ...]"""
import json, os, sys
V = os.path.dirname(os.path.dirname(os.path.abspath(__file__)))
sys.path.insert(0, V)
from analyzer import selftest
PROPS = [c['property_id'] for c in json.load(open(os.path.join(V, 'MANIFEST.json')))['checks']]
names = sys.argv[1:] or sorted(os.listdir(os.path.join(V, 'seeded')))
import tempfile, shutil
basedir = tempfile.mkdtemp(prefix='mv-base-')
base = {}
for p in PROPS:
    rc, reports, out = selftest.run_child(p, '/repo', os.path.join(basedir, 'ev'))
    base[p] = {r.get('key') for r in reports}
known = {k['key'] for k in json.load(open(os.path.join(V, 'known_findings.json')))['findings'] if k['status'] == 'known'}
shutil.rmtree(basedir, ignore_errors=True)
from concurrent.futures import ThreadPoolExecutor


def one_seed(n):
    tmp, dst = selftest.make_scratch('seeded/%s/patch.diff' % n)
    if tmp is None:
        return n, None, None
    det, inc = [], []
    try:
        ev = os.path.join(tmp, 'ev'); os.makedirs(os.path.join(ev, 'violations'))
        os.environ_lock = None
        for p in PROPS:
            rc, reports, out = selftest.run_child(p, dst, ev, cache=os.path.join(tmp, 'facts'))
            for r in reports:
                if r.get('key') in base[p] or r.get('key') in known:
                    continue
                (det if r.get('kind') == 'violation' else inc).append(r['rule'])
    finally:
        shutil.rmtree(tmp, ignore_errors=True)
    return n, det, inc


with ThreadPoolExecutor(max_workers=int(os.environ.get('SEED_JOBS', '6'))) as ex:
    results = list(ex.map(one_seed, names))
for n, det, inc in results:
    if det is None:
        print(n, 'PATCH DOES NOT APPLY'); continue
    det, inc = sorted(set(det)), sorted(set(inc) - set(det))
    mp = os.path.join(V, 'seeded', n, 'meta.json')
    m = json.load(open(mp))
    m['detected_by'] = det
    m['also_reported_as_analysis_incomplete_by'] = inc
    json.dump(m, open(mp, 'w'), indent=1)
    print('%-45s %s %s' % (n, det or 'MISSED', ('(incomplete: %s)' % inc) if inc else ''))
