#!/bin/bash
# usage: trymut.sh "<sed-expr>" <file-in-repo> <props...> : apply a one-off mutation to /repo, run checks, revert.
SED="$1"; FILE="$2"; shift 2
cd /repo && git diff --quiet || { echo "repo dirty"; exit 2; }
sed -i "$SED" "$FILE"
if git diff --quiet; then echo "MUTATION DID NOT APPLY"; exit 2; fi
git diff | grep '^[-+][^-+]' | head -6
for p in "$@"; do (cd /verif && ./check $p --tier quick 2>&1 | grep -E "^(VIOLATION|KNOWN|  src|  \?|C[0-9]+ tier)" | cut -c1-330 | head -8); done
git checkout -- . 
