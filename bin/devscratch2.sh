#!/bin/bash
# devscratch2.sh <patch> <prop...> : run quick checks against a scratch copy of /repo with <patch> applied (dev helper)
P="$1"; shift
T=$(mktemp -d /tmp/mv-dev-XXXX)
rsync -a --exclude target --exclude .git /repo/ $T/repo/
( cd $T/repo && patch -p1 -s < "$P" ) || { echo "patch failed"; rm -rf $T; exit 2; }
for p in "$@"; do MV_REPO=$T/repo VERIF_EVIDENCE_DIR=$T/ev VERIF_SELFTEST_CHILD=1 VERIF_FACTS_CACHE=$T/facts /verif/check $p --tier quick 2>&1 | grep -E "^(VIOLATION|KNOWN|  src|  \?|  sel|C[0-9]+ tier)" | cut -c1-420; done
rm -rf $T
