#!/usr/bin/env python3
"""Rename sweep (development tool for the false-alarm side of E6; not a registered check).

Renaming a crate-private function, type or field is a behaviour-preserving edit.  This tool renames every such item (one per variant, all
occurrences, word-boundary textual replacement in a scratch worktree of /repo), keeps the variants that still type-check (`cargo check --tests`),
and runs all quick checks on each (bin/benign_run.py): every one must be silent.  Items whose name is also a name of the public API, of std / glam
methods or of a common local are skipped (the textual replacement would change the API or not compile).

  renamesweep.py gen <outdir>     -> <outdir>/rename-*.diff
  renamesweep.py run <outdir>     -> <outdir>/run.log      (silent / ALARMS per patch)

Scratch worktree: <outdir>/wt (removed at the end of gen)."""
import json, os, re, subprocess, sys, collections

V = os.path.dirname(os.path.dirname(os.path.abspath(__file__)))
SKIP = {'count', 'iter', 'distance_squared', 'clamp', 'half_space', 'plane_idx', 'face_vertex_connections', 'from_points', 'boundary', 'safety_radius',
        'cells', 'Cell', 'face_count', 'cell_face_connections', 'clipping_plane', 'face_connections_offset', 'loc', 'idx', 'len', 'start', 'next', 'width',
        'anchor', 'offset', 'min', 'max', 'center', 'extent', 'node', 'distance', 'shift', 'id', 'x', 'cid', 'inner', 'convex_cell', 'simple_cycle',
        'normal', 'area', 'centroid', 'volume', 'left', 'right', 'integral', 'faces', 'vertices', 'dimensionality', 'periodic', 'plane', 'd', 'dual', 'repr'}


def sh(cmd, **kw):
    return subprocess.run(cmd, shell=True, capture_output=True, text=True, **kw)


def gen(out):
    os.makedirs(out, exist_ok=True)
    facts = os.path.join(out, 'def.json')
    r = sh('%s/bin/extract.sh default %s' % (V, facts))
    d = json.load(open(facts))
    byname = collections.defaultdict(list)
    for b in d['bodies']:
        p = b['path']
        if '{closure' in p or '::tests::' in p:
            continue
        byname[re.sub(r'<.*', '', p.rsplit('::', 1)[-1])].append(b)
    names = []
    for name, bs in sorted(byname.items()):
        if any(b.get('exported') for b in bs) or any(b.get('impl_trait') for b in bs):
            continue
        if re.match(r'^[a-z_][a-z0-9_]*$', name) and len(name) >= 4:
            names.append(name)
    for a in d['adts']:
        if not a.get('exported') and 'convex_cell_alternative' not in a['path'] and a['path'].startswith(('bounding_sphere', 'geometry', 'rtree_nn', 'simple_cycle', 'space', 'voronoi')):
            names.append(a['path'].rsplit('::', 1)[-1])
        for v in a['variants'][:1]:
            for f in v['fields']:
                if f.get('vis') != 'pub' and not f['name'].isdigit():
                    names.append(f['name'])
    names = sorted({n for n in names if n not in SKIP})
    wt = os.path.join(out, 'wt')
    sh('git -C /repo worktree add --detach %s HEAD' % wt)
    kept = []
    try:
        for name in names:
            sh('git checkout -q -- .', cwd=wt)
            new = name + ('Renamed' if name[0].isupper() else '_renamed')
            for dp, _dn, fn in os.walk(wt):
                if '/target' in dp or '/.git' in dp:
                    continue
                for f in fn:
                    if f.endswith('.rs'):
                        p = os.path.join(dp, f)
                        t = open(p).read()
                        t2 = re.sub(r'\b%s\b' % re.escape(name), new, t)
                        if t2 != t:
                            open(p, 'w').write(t2)
            r = sh('CARGO_NET_OFFLINE=true cargo check --offline --tests 2>&1 | grep -c "^error"', cwd=wt)
            if int(r.stdout.strip() or 0):
                print('does not compile:', name)
                continue
            diff = sh('git diff -- src', cwd=wt).stdout
            if re.search(r'^\+\s*pub (fn|struct|enum|trait) \w*%s' % re.escape(new), diff, re.M) and not name[0].isupper():
                print('renames a pub item, skipped:', name)
                continue
            open(os.path.join(out, 'rename-%s.diff' % name), 'w').write(diff)
            kept.append(name)
    finally:
        sh('git -C /repo worktree remove --force %s; git -C /repo worktree prune' % wt)
    print(len(kept), 'variants:', kept)


def run(out):
    patches = sorted(os.path.join(out, f) for f in os.listdir(out) if f.startswith('rename-') and f.endswith('.diff'))
    r = sh('BENIGN_JOBS=%s python3 %s/bin/benign_run.py %s' % (os.environ.get('BENIGN_JOBS', '4'), V, ' '.join(patches)))
    open(os.path.join(out, 'run.log'), 'w').write(r.stdout + r.stderr)
    lines = [l for l in r.stdout.splitlines() if l.startswith('==')]
    print('%d patches, %d silent' % (len(lines), sum(1 for l in lines if l.endswith('silent'))))
    for l in r.stdout.splitlines():
        if not l.endswith('silent'):
            print(l[:300])


if __name__ == '__main__':
    {'gen': gen, 'run': run}[sys.argv[1]](sys.argv[2] if len(sys.argv) > 2 else '/tmp/rensweep')
