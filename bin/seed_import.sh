#!/bin/bash
# seed_import.sh <worktree> <name> <property> "<needs>" : after seed_verify CONFIRMED, store under /verif/seeded/<name>
set -e
W="$1"; N="$2"; P="$3"; NEEDS="$4"
D=/verif/seeded/$N
mkdir -p $D
cp $W/_out/patch.diff $D/patch.diff
for f in $W/_out/*.rs $W/_out/demo.diff $W/_out/notes.md; do [ -f "$f" ] && cp "$f" $D/; done
python3 - "$D" "$P" "$NEEDS" <<'PY'
import json,sys
d,p,needs=sys.argv[1:4]
json.dump({"property":p,"needs_to_manifest":needs,
 "confirmed_by":"bin/seed_verify.sh in a scratch worktree: baseline suite (36 tests + 4 doc-tests) passes with the patch, demo fails with the patch, demo passes on the unchanged tree; cargo check --no-default-features --features ibig passes",
 "origin":"independent sub-agent given only the property text and a scratch worktree","detected_by":[]}, open(d+'/meta.json','w'), indent=1)
PY
echo stored $D
