#!/bin/bash
# seed_run.sh <seeded-name> <props...> : apply a stored seeded change to /repo, run the quick checks, revert.
N="$1"; shift
cd /repo && git diff --quiet || { echo "repo dirty"; exit 2; }
git apply /verif/seeded/$N/patch.diff || exit 2
for p in "$@"; do (cd /verif && ./check $p --tier quick 2>&1 | grep -E "^(VIOLATION|KNOWN|  src|  \?|C[0-9]+ tier)" | cut -c1-400 | head -12); done
git -C /repo checkout -- .
