#!/usr/bin/env python3
"""Run every quick check on scratch variants built from behaviour-preserving patches; print any report that is not a
known finding.  usage: benign_run.py <patch.diff> ..."""
import sys, json, os, shutil
V = os.path.dirname(os.path.dirname(os.path.abspath(__file__)))
sys.path.insert(0, V)
from analyzer import selftest
PROPS = [c['property_id'] for c in json.load(open(os.path.join(V, 'MANIFEST.json')))['checks']]
known = {k['key'] for k in json.load(open(os.path.join(V, 'known_findings.json')))['findings'] if k['status'] == 'known'}
for path in sys.argv[1:]:
    rel = os.path.relpath(os.path.abspath(path), V)
    tmp, dst = selftest.make_scratch(rel)
    if tmp is None:
        print('==', rel, 'PATCH DOES NOT APPLY'); continue
    ev = os.path.join(tmp, 'ev'); os.makedirs(os.path.join(ev, 'violations'))
    out = []
    for p in PROPS:
        rc, reports, o = selftest.run_child(p, dst, ev)
        for r in reports:
            if r.get('key') not in known:
                out.append('%s %s [%s] %s' % (r['rule'], r['instance'], r['kind'], str(r.get('observed'))[:160]))
    shutil.rmtree(tmp, ignore_errors=True)
    print('==', rel, 'ALARMS:' if out else 'silent', flush=True)
    for x in out:
        print('     ', x, flush=True)
