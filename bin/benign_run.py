#!/usr/bin/env python3
"""Run every quick check on scratch variants built from behaviour-preserving patches; print any report that is not a
known finding.  usage: benign_run.py <patch.diff> ...   (BENIGN_JOBS parallel scratch copies, one fact extraction per copy and configuration)"""
import sys, json, os, shutil
from concurrent.futures import ThreadPoolExecutor
V = os.path.dirname(os.path.dirname(os.path.abspath(__file__)))
sys.path.insert(0, V)
from analyzer import selftest
PROPS = [c['property_id'] for c in json.load(open(os.path.join(V, 'MANIFEST.json')))['checks']]
known = {k['key'] for k in json.load(open(os.path.join(V, 'known_findings.json')))['findings'] if k['status'] == 'known'}


def one(path):
    rel = os.path.relpath(os.path.abspath(path), V)
    tmp, dst = selftest.make_scratch(rel)
    if tmp is None:
        return rel, None
    ev = os.path.join(tmp, 'ev'); os.makedirs(os.path.join(ev, 'violations'))
    out = []
    try:
        for p in PROPS:
            rc, reports, o = selftest.run_child(p, dst, ev, cache=os.path.join(tmp, 'facts'))
            for r in reports:
                if r.get('key') not in known:
                    out.append('%s %s [%s] %s' % (r['rule'], r['instance'], r['kind'], str(r.get('observed'))[:160]))
    finally:
        shutil.rmtree(tmp, ignore_errors=True)
    return rel, out


with ThreadPoolExecutor(max_workers=int(os.environ.get('BENIGN_JOBS', '6'))) as ex:
    for rel, out in ex.map(one, sys.argv[1:]):
        if out is None:
            print('==', rel, 'PATCH DOES NOT APPLY', flush=True); continue
        print('==', rel, 'ALARMS:' if out else 'silent', flush=True)
        for x in out:
            print('     ', x, flush=True)
