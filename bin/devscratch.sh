#!/bin/bash
# usage: devscratch.sh <patch>  -> /tmp/mv-dev/repo with the patch applied (for interactive rule development only)
rm -rf /tmp/mv-dev; mkdir -p /tmp/mv-dev
rsync -a --exclude target --exclude .git --exclude _out /repo/ /tmp/mv-dev/repo/
git apply --unsafe-paths --directory=/tmp/mv-dev/repo "$1" || (cd /tmp/mv-dev/repo && patch -p1 -s -i "$(realpath $1)")
echo /tmp/mv-dev/repo
