#!/usr/bin/env python3
"""Regenerate MANIFEST.json from the rule modules' META (claimed) and NOT_APPLICABLE below."""
import json, os, sys, importlib
V = os.path.dirname(os.path.dirname(os.path.abspath(__file__)))
sys.path.insert(0, V)
ALL = ['C%02d' % i for i in range(1, 21)]
NOT_APPLICABLE = {}
PENDING = 'check not built yet in this round (DESIGN §6 describes the planned static rules); not claimed until it exists'
checks, na = [], []
for pid in ALL:
    p = os.path.join(V, 'analyzer', 'rules', pid.lower() + '.py')
    if pid in NOT_APPLICABLE:
        na.append({'property_id': pid, 'reason': NOT_APPLICABLE[pid]})
        continue
    if not os.path.exists(p):
        na.append({'property_id': pid, 'reason': PENDING})
        continue
    m = importlib.import_module('analyzer.rules.' + pid.lower()).META
    checks.append({
        'property_id': pid,
        'quick_cmd': './check %s --tier quick' % pid,
        'thorough_cmd': './check %s --tier thorough' % pid,
        'evidence_file': 'evidence/%s.json' % pid,
        'replay_cmd_template': './check %s --explain {path}' % pid,
        'engine': 'mir-facts+analyzer',
        'level_claimed': {'category': m['level'], 'text': m.get('level_text', m['explanation']), 'design_ref': 'DESIGN.md §6 ' + pid},
        'level_note': 'trusted: ' + '; '.join(m.get('trusted_base', [])) + '. assumes: ' + '; '.join(m.get('assumptions', [])),
        'technique': m.get('technique', 'static analysis: abstract interpretation of type-checked MIR (algebraic value numbering, decision tables, CFG/call-graph rules)'),
    })
man = {
    'version': 1,
    'setup_cmd': 'bin/setup.sh',
    'hooks': {'guard': 'meshless_voro_verif', 'enable': 'none needed: the checks read the MIR of the unmodified crate (no instrumentation)',
              'baseline_off_cmd': 'cd /repo && cargo test --workspace --no-fail-fast --offline', 'source_commits': [], 'add_only': True},
    'engines': [
        {'name': 'E0 mv-facts', 'path': 'driver/', 'serves_properties': [c['property_id'] for c in checks],
         'kind_free_text': 'rustc_private driver under RUSTC_WORKSPACE_WRAPPER: dumps type-checked MIR, resolved callees, closure captures, ADTs and impls of /repo as JSON per feature configuration'},
        {'name': 'E1-E4 analyzer', 'path': 'analyzer/', 'serves_properties': [c['property_id'] for c in checks],
         'kind_free_text': 'Python: CFG/dominators/call graph, decision tables, per-configuration specialisation, gated-SSA abstract interpreter with rational-function normal forms'},
        {'name': 'E5 witnesses', 'path': 'witnesses/', 'serves_properties': ['C14', 'C15'],
         'kind_free_text': 'downstream crates that must compile / must fail with a given error code (with compiling twins)'},
    ],
    'checks': checks,
    'not_applicable': na,
    'notes': 'Static analysis only; see DESIGN.md. Genuine defects found and repaired in /repo as fix: commits are listed in known_findings.json.',
}
json.dump(man, open(os.path.join(V, 'MANIFEST.json'), 'w'), indent=1)
print('claimed:', [c['property_id'] for c in checks])
