#!/bin/bash
# E0: extract MIR facts of /repo's current working tree for one feature configuration.
# usage: extract.sh <config-name> <out.json>
#   config-name: default | norayon | dashu | malachite | num_bigint | dashu_norayon | ... | default_nodebug
set -u
CFG="$1"; OUT="$(realpath -m "$2")"
V=/verif
REPO="${MV_REPO:-/repo}"
SYSROOT=$(rustc +nightly --print sysroot)
DRV=$V/.work/driver-target/debug/mv-facts
[ -x "$DRV" ] || { echo "driver not built (run setup)"; exit 2; }
FEATS=""; EXTRA=""
case "$CFG" in
  default)            FEATS="--no-default-features --features ibig,rayon";;
  norayon)            FEATS="--no-default-features --features ibig";;
  dashu)              FEATS="--no-default-features --features dashu,rayon";;
  malachite)          FEATS="--no-default-features --features malachite,rayon";;
  num_bigint)         FEATS="--no-default-features --features num_bigint,rayon";;
  dashu_norayon)      FEATS="--no-default-features --features dashu";;
  malachite_norayon)  FEATS="--no-default-features --features malachite";;
  num_bigint_norayon) FEATS="--no-default-features --features num_bigint";;
  default_nodebug)    FEATS="--no-default-features --features ibig,rayon"; EXTRA="-C debug-assertions=off";;
  *) echo "unknown config $CFG"; exit 2;;
esac
TD=$V/.work/target-$CFG${VERIF_TARGET_SUFFIX:-}
# a private copy of the warmed target directory for parallel self-test workers (E6): dependency artifacts are copied once
if [ -n "${VERIF_TARGET_SUFFIX:-}" ] && [ ! -d "$TD" ] && [ -d "$V/.work/target-$CFG" ]; then
  cp -a "$V/.work/target-$CFG" "$TD.tmp.$$" 2>/dev/null && mv "$TD.tmp.$$" "$TD" 2>/dev/null || rm -rf "$TD.tmp.$$"
fi
mkdir -p "$TD" "$(dirname "$OUT")"
# one extraction per target directory at a time (checks may be started in parallel)
exec 9>"$TD/.extract.lock"
flock 9
# force the crate itself to be recompiled through the wrapper (deps stay cached)
rm -rf "$TD"/debug/.fingerprint/meshless_voronoi-* 2>/dev/null
rm -f "$OUT"
cd "$REPO" || exit 2
LD_LIBRARY_PATH=$SYSROOT/lib \
RUSTFLAGS="-Zmir-opt-level=0 -Awarnings $EXTRA" \
RUSTC_WORKSPACE_WRAPPER=$DRV \
MV_FACTS_OUT="$OUT" MV_FACTS_CONFIG="$CFG" \
CARGO_INCREMENTAL=0 CARGO_NET_OFFLINE=true CARGO_TARGET_DIR="$TD" \
cargo +nightly check --offline --lib $FEATS >"$TD/extract.log.$$" 2>&1
RC=$?
mv -f "$TD/extract.log.$$" "$TD/extract.log"
flock -u 9
if [ $RC -ne 0 ] || [ ! -s "$OUT" ]; then
  echo "extract($CFG) failed rc=$RC; log: $TD/extract.log"; tail -20 "$TD/extract.log"; exit 3
fi
exit 0
