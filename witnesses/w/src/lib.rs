//! Downstream witnesses (E5): each binary is type-checked on its own against /repo's current tree.
//! `pass_*` must compile; `fail_*` must fail with exactly the error code and on exactly the line marked
//! `//~ Exxxx`; `twin_*` is the same program without the offending line and must compile.
