// C14.R1: a downstream crate defines its own cell and face integrals and evaluates them through every entry point.
use glam::DVec3;
use meshless_voronoi::integrals::{CellIntegral, FaceIntegral, FaceIntegrator};
use meshless_voronoi::{ConvexCell, ConvexCellMarker, Dimensionality, Voronoi, VoronoiIntegrator, WithFaces, WithoutFaces};

#[derive(Default)]
pub struct Moments { pub m0: f64, pub m1: DVec3, pub apex: DVec3 }
impl CellIntegral for Moments {
    fn init<M: ConvexCellMarker>(cell: &ConvexCell<M>) -> Self { Moments { m0: 0., m1: DVec3::ZERO, apex: cell.loc } }
    fn collect(&mut self, v0: DVec3, v1: DVec3, v2: DVec3, gen: DVec3) {
        let vol = (v1 - v0).cross(v2 - v0).dot(gen - v0) / 6.;
        self.m0 += vol;
        self.m1 += vol * 0.25 * (v0 + v1 + v2 + gen);
    }
    fn finalize(self) -> Self { self }
}

#[derive(Clone)]
pub struct SignedArea { pub a: f64, pub plane: usize, pub owner: usize }
impl FaceIntegral for SignedArea {
    fn init<M: ConvexCellMarker>(cell: &ConvexCell<M>, clipping_plane_idx: usize) -> Self { SignedArea { a: 0., plane: clipping_plane_idx, owner: cell.idx } }
    fn collect(&mut self, v0: DVec3, v1: DVec3, v2: DVec3, _gen: DVec3) { self.a += 0.5 * (v1 - v0).cross(v2 - v0).length(); }
    fn finalize(self) -> Self { self }
}

fn use_face(f: &FaceIntegrator<SignedArea>) -> (usize, Option<usize>, Option<DVec3>, f64) { (f.left(), f.right(), f.shift(), f.integral().a) }

fn main() {
    let g = vec![DVec3::splat(0.25), DVec3::splat(0.75)];
    let mask = vec![true, false];
    let vi: VoronoiIntegrator<WithoutFaces> = VoronoiIntegrator::build(&g, Some(&mask), DVec3::ZERO, DVec3::ONE, Dimensionality::ThreeD, false);
    let cells: Vec<Moments> = vi.compute_cell_integrals();
    let faces = vi.compute_face_integrals::<SignedArea>();
    let sym = vi.compute_face_integrals_sym::<SignedArea>();
    let _ = (cells.len(), faces.iter().map(use_face).count(), sym.len());
    for c in vi.cells_iter() {
        let _m: Moments = c.compute_cell_integral(());
        let _f: Vec<FaceIntegrator<SignedArea>> = c.compute_face_integrals(());
        let _s: Vec<FaceIntegrator<SignedArea>> = c.compute_face_integrals_sym((), &mask);
        let _ = (c.idx, c.loc, c.clipping_planes.len(), c.vertices.len());
    }
    let _ = vi.get_cell_at(0).map(|c| c.idx);
    let v: Voronoi = (&vi).into();
    let wf: VoronoiIntegrator<WithFaces> = vi.with_faces();
    let cells2: Vec<Moments> = wf.compute_cell_integrals();
    let faces2 = wf.compute_face_integrals::<SignedArea>();
    let _ = (v.cells().len(), cells2.len(), faces2.len());
    // the unit-data entry points are usable with plain integrals
    let unit = vec![(); g.len()];
    let _c: Vec<Moments> = wf.compute_cell_integrals_with_data(&unit);
    let _d = wf.compute_face_integrals_with_data::<(), SignedArea>(&unit);
    let _e = wf.compute_face_integrals_sym_with_data::<(), SignedArea>(&unit);
}
