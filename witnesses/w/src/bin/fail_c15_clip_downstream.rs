use glam::DVec3;
use meshless_voronoi::{Dimensionality, HalfSpace, VoronoiIntegrator};
fn main() {
    let g = vec![DVec3::splat(0.25), DVec3::splat(0.75)];
    let vi = VoronoiIntegrator::build(&g, None, DVec3::ZERO, DVec3::ONE, Dimensionality::ThreeD, false);
    let mut c = vi.get_cell_at(0).unwrap().clone();
    let hs = HalfSpace::new(DVec3::X, DVec3::splat(0.1), None, None);
    let _ = hs.normal();
    c.clip_by_plane(hs, &[], todo!()); //~ E0624
}
