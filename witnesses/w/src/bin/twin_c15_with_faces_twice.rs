use glam::DVec3;
use meshless_voronoi::{Dimensionality, VoronoiIntegrator};
fn main() {
    let g = vec![DVec3::splat(0.25), DVec3::splat(0.75)];
    let vi = VoronoiIntegrator::build(&g, None, DVec3::ZERO, DVec3::ONE, Dimensionality::ThreeD, false);
    let cell = vi.get_cell_at(0).unwrap().clone();
    let wf = cell.with_faces();
    let _again = wf.discard_faces().with_faces();
}
