use glam::DVec3;
use meshless_voronoi::{ConvexCell, Dimensionality, VoronoiIntegrator, WithFaces};
fn main() {
    let g = vec![DVec3::splat(0.25), DVec3::splat(0.75)];
    let vi = VoronoiIntegrator::build(&g, None, DVec3::ZERO, DVec3::ONE, Dimensionality::ThreeD, false);
    let c = vi.get_cell_at(0).unwrap().clone();
    let forged: ConvexCell<WithFaces> = ConvexCell { idx: c.idx, loc: c.loc, clipping_planes: c.clipping_planes.clone(), vertices: c.vertices.clone(), faces: None, face_vertex_connections: None }; //~ private-fields
    let _ = forged.face_count();
}
