// C14.R1 (data clause): a downstream integral that needs per-cell data implements the *WithData traits with Data = f64.
use glam::DVec3;
use meshless_voronoi::integrals::{CellIntegral, CellIntegralWithData, FaceIntegral, FaceIntegralWithData};
use meshless_voronoi::{ConvexCell, ConvexCellMarker, Dimensionality, VoronoiIntegrator};

pub struct Weighted { pub w: f64, pub acc: f64, pub owner: usize }
impl CellIntegral for Weighted {
    fn init<M: ConvexCellMarker>(cell: &ConvexCell<M>) -> Self { Weighted { w: 1., acc: 0., owner: cell.idx } }
    fn collect(&mut self, v0: DVec3, _v1: DVec3, _v2: DVec3, _gen: DVec3) { self.acc += self.w * v0.x; }
    fn finalize(self) -> Self { self }
}
impl CellIntegralWithData for Weighted {
    type Data = f64;
    fn init_with_data<M: ConvexCellMarker>(cell: &ConvexCell<M>, data: f64) -> Self { Weighted { w: data, acc: 0., owner: cell.idx } }
}

#[derive(Clone)]
pub struct WeightedFace { pub w: f64, pub acc: f64 }
impl FaceIntegral for WeightedFace {
    fn init<M: ConvexCellMarker>(_cell: &ConvexCell<M>, _k: usize) -> Self { WeightedFace { w: 1., acc: 0. } }
    fn collect(&mut self, v0: DVec3, _v1: DVec3, _v2: DVec3, _gen: DVec3) { self.acc += self.w * v0.x; }
    fn finalize(self) -> Self { self }
}
impl FaceIntegralWithData for WeightedFace {
    type Data = f64;
    fn init_with_data<M: ConvexCellMarker>(_cell: &ConvexCell<M>, _k: usize, data: f64) -> Self { WeightedFace { w: data, acc: 0. } }
}

fn main() {
    let g = vec![DVec3::splat(0.25), DVec3::splat(0.75)];
    let vi = VoronoiIntegrator::build(&g, None, DVec3::ZERO, DVec3::ONE, Dimensionality::ThreeD, false);
    let d = vec![2.0f64, 3.0];
    let _a: Vec<Weighted> = vi.compute_cell_integrals_with_data(&d);
    let _b = vi.compute_face_integrals_with_data::<f64, WeightedFace>(&d);
    let _c = vi.compute_face_integrals_sym_with_data::<f64, WeightedFace>(&d);
}
