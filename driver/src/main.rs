// E0 — MIR fact extractor for meshless_voronoi.
//
// Invoked through RUSTC_WORKSPACE_WRAPPER: argv = [self, <rustc>, rustc-args...].
// When the crate being compiled is `meshless_voronoi` and MV_FACTS_OUT is set,
// the type-checked program (MIR of every fn/method/closure, ADTs, impls,
// closure captures, unsafe ops) is written as one JSON document to that path.
// Nothing in /repo is executed.
#![feature(rustc_private)]
#![allow(clippy::all)]

extern crate rustc_abi;
extern crate rustc_data_structures;
extern crate rustc_driver;
extern crate rustc_hir;
extern crate rustc_interface;
extern crate rustc_middle;
extern crate rustc_session;
extern crate rustc_span;

mod json;
use json::J;

use rustc_driver::Compilation;
use rustc_hir::def::DefKind;
use rustc_hir::def_id::{DefId, LocalDefId, LOCAL_CRATE};
use rustc_middle::mir::{self, *};
use rustc_middle::ty::print::with_no_trimmed_paths;
use rustc_middle::ty::{self, GenericArgsRef, Instance, Ty, TyCtxt, TypingEnv};
use rustc_span::Span;
use std::collections::HashSet;

struct Cb;

impl rustc_driver::Callbacks for Cb {
    fn after_analysis<'tcx>(
        &mut self,
        _c: &rustc_interface::interface::Compiler,
        tcx: TyCtxt<'tcx>,
    ) -> Compilation {
        let name = tcx.crate_name(LOCAL_CRATE).to_string();
        let want = std::env::var("MV_FACTS_CRATE").unwrap_or_else(|_| "meshless_voronoi".into());
        if name == want {
            if let Ok(out) = std::env::var("MV_FACTS_OUT") {
                // skip the `--test` harness build of the same crate unless asked
                let is_test = tcx.sess.is_test_crate();
                if !is_test {
                    let doc = with_no_trimmed_paths!(dump(tcx));
                    let mut s = String::new();
                    doc.write(&mut s);
                    std::fs::write(&out, s).expect("write facts");
                }
            }
        }
        Compilation::Continue
    }
}

fn main() {
    let mut args: Vec<String> = std::env::args().collect();
    // wrapper mode: argv[1] is the path of the real rustc
    if args.len() > 1 && (args[1].ends_with("rustc") || args[1].contains("/rustc")) {
        args.remove(1);
    }
    rustc_driver::run_compiler(&args, &mut Cb);
}

// ---------------------------------------------------------------------------

fn span_info(tcx: TyCtxt<'_>, sp: Span) -> (String, usize) {
    let sm = tcx.sess.source_map();
    let sp = sp.source_callsite();
    let lo = sm.lookup_char_pos(sp.lo());
    let f = match &lo.file.name {
        rustc_span::FileName::Real(r) => {
            r.local_path().map(|p| p.display().to_string()).unwrap_or_else(|| format!("{:?}", r))
        }
        o => format!("{:?}", o),
    };
    (f, lo.line)
}

fn line_of(tcx: TyCtxt<'_>, sp: Span) -> J {
    J::Num(span_info(tcx, sp).1 as f64)
}

fn ty_s(t: Ty<'_>) -> String {
    format!("{}", t)
}

fn krate_of(tcx: TyCtxt<'_>, d: DefId) -> String {
    tcx.crate_name(d.krate).to_string()
}

fn path_of(tcx: TyCtxt<'_>, d: DefId) -> String {
    tcx.def_path_str(d)
}

fn substs_j<'tcx>(args: GenericArgsRef<'tcx>) -> J {
    J::Arr(args.iter().map(|a| J::Str(format!("{}", a))).collect())
}

fn dump<'tcx>(tcx: TyCtxt<'tcx>) -> J {
    let mut bodies = Vec::new();
    let mut keys: Vec<LocalDefId> = tcx.mir_keys(()).iter().copied().collect();
    keys.sort_by_key(|k| tcx.def_path_str(k.to_def_id()) + &format!("{:?}", k));
    for ldid in keys {
        let did = ldid.to_def_id();
        let kind = tcx.def_kind(did);
        match kind {
            DefKind::Fn | DefKind::AssocFn | DefKind::Closure => {}
            _ => continue,
        }
        bodies.push(dump_body(tcx, ldid, kind));
    }
    // ADTs
    let mut adts = Vec::new();
    let mut impls = Vec::new();
    let mut traits = Vec::new();
    for id in tcx.hir_crate_items(()).definitions() {
        let did = id.to_def_id();
        match tcx.def_kind(did) {
            DefKind::Struct | DefKind::Enum | DefKind::Union => adts.push(dump_adt(tcx, did)),
            DefKind::Impl { .. } => impls.push(dump_impl(tcx, did)),
            DefKind::Trait => {
                let mut o = J::obj();
                o.set("path", J::Str(path_of(tcx, did)));
                o.set("vis", J::Str(vis_s(tcx, did)));
                o.set("exported", J::Bool(tcx.effective_visibilities(()).is_exported(id)));
                let (f, l) = span_info(tcx, tcx.def_span(did));
                o.set("file", J::Str(f));
                o.set("line", J::Num(l as f64));
                let methods: Vec<J> = tcx
                    .associated_items(did)
                    .in_definition_order()
                    .map(|it| J::Str(it.name().to_string()))
                    .collect();
                o.set("items", J::Arr(methods));
                traits.push(o);
            }
            _ => {}
        }
    }
    let mut doc = J::obj();
    doc.set("crate", J::Str(tcx.crate_name(LOCAL_CRATE).to_string()));
    doc.set("config", J::Str(std::env::var("MV_FACTS_CONFIG").unwrap_or_default()));
    doc.set("rustc", J::Str(rustc_interface::util::rustc_version_str().unwrap_or("?").to_string()));
    doc.set(
        "debug_assertions",
        J::Bool(tcx.sess.opts.debug_assertions),
    );
    doc.set("bodies", J::Arr(bodies));
    doc.set("adts", J::Arr(adts));
    doc.set("impls", J::Arr(impls));
    doc.set("traits", J::Arr(traits));
    doc
}

fn vis_s(tcx: TyCtxt<'_>, did: DefId) -> String {
    match tcx.def_kind(did) {
        DefKind::Closure | DefKind::AnonConst | DefKind::InlineConst | DefKind::Impl { .. } => {
            return "n/a".into()
        }
        _ => {}
    }
    match tcx.visibility(did) {
        ty::Visibility::Public => "pub".into(),
        ty::Visibility::Restricted(m) => {
            if m.is_crate_root() {
                "pub(crate)".into()
            } else {
                format!("pub(in {})", tcx.def_path_str(m))
            }
        }
    }
}

fn dump_adt(tcx: TyCtxt<'_>, did: DefId) -> J {
    let adt = tcx.adt_def(did);
    let mut o = J::obj();
    o.set("path", J::Str(path_of(tcx, did)));
    o.set("vis", J::Str(vis_s(tcx, did)));
    if let Some(l) = did.as_local() {
        o.set("exported", J::Bool(tcx.effective_visibilities(()).is_exported(l)));
    }
    o.set("kind", J::Str(format!("{:?}", adt.adt_kind())));
    let (f, l) = span_info(tcx, tcx.def_span(did));
    o.set("file", J::Str(f));
    o.set("line", J::Num(l as f64));
    let mut vs = Vec::new();
    for v in adt.variants().iter() {
        let mut vo = J::obj();
        vo.set("name", J::Str(v.name.to_string()));
        let mut fs = Vec::new();
        for fd in v.fields.iter() {
            let mut fo = J::obj();
            fo.set("name", J::Str(fd.name.to_string()));
            fo.set("vis", J::Str(vis_s(tcx, fd.did)));
            let t = tcx.type_of(fd.did).instantiate_identity().skip_norm_wip();
            fo.set("ty", J::Str(ty_s(t)));
            fs.push(fo);
        }
        vo.set("fields", J::Arr(fs));
        vs.push(vo);
    }
    o.set("variants", J::Arr(vs));
    o
}

fn dump_impl(tcx: TyCtxt<'_>, did: DefId) -> J {
    let mut o = J::obj();
    let self_ty = tcx.type_of(did).instantiate_identity().skip_norm_wip();
    o.set("self", J::Str(ty_s(self_ty)));
    if let Some(tr) = tcx.impl_opt_trait_ref(did) {
        let tr = tr.instantiate_identity().skip_norm_wip();
        o.set("trait", J::Str(path_of(tcx, tr.def_id)));
        o.set("trait_ref", J::Str(format!("{}", tr)));
        o.set("trait_crate", J::Str(krate_of(tcx, tr.def_id)));
    } else {
        o.set("trait", J::Null);
    }
    let (f, l) = span_info(tcx, tcx.def_span(did));
    o.set("file", J::Str(f));
    o.set("line", J::Num(l as f64));
    o.set("derived", J::Bool(tcx.is_automatically_derived(did)));
    let mut ms = Vec::new();
    for it in tcx.associated_items(did).in_definition_order() {
        let mut m = J::obj();
        m.set("name", J::Str(it.name().to_string()));
        m.set("path", J::Str(path_of(tcx, it.def_id)));
        m.set("kind", J::Str(format!("{:?}", it.tag())));
        ms.push(m);
    }
    o.set("items", J::Arr(ms));
    o
}

fn dump_body<'tcx>(tcx: TyCtxt<'tcx>, ldid: LocalDefId, kind: DefKind) -> J {
    let did = ldid.to_def_id();
    let body: &Body<'tcx> = tcx.optimized_mir(did);
    let mut o = J::obj();
    o.set("path", J::Str(path_of(tcx, did)));
    o.set("kind", J::Str(format!("{:?}", kind)));
    o.set("vis", J::Str(vis_s(tcx, did)));
    if !matches!(kind, DefKind::Closure) {
        let ev = tcx.effective_visibilities(());
        o.set("exported", J::Bool(ev.is_exported(ldid)));
        o.set("reachable", J::Bool(ev.is_reachable(ldid)));
    }
    let (f, l) = span_info(tcx, tcx.def_span(did));
    o.set("file", J::Str(f));
    o.set("line", J::Num(l as f64));
    let (_, l2) = span_info(tcx, tcx.def_span(did).shrink_to_hi());
    o.set("end_line", J::Num(l2 as f64));
    let (_, lb) = span_info(tcx, body.span.shrink_to_hi());
    o.set("body_end_line", J::Num(lb as f64));
    o.set("arg_count", J::Num(body.arg_count as f64));
    // parent (for closures: the enclosing fn; for assoc fns: the impl)
    let parent = tcx.parent(did);
    o.set("parent", J::Str(path_of(tcx, parent)));
    if let DefKind::Closure = kind {
        let tr = tcx.typeck_root_def_id(did);
        o.set("root", J::Str(path_of(tcx, tr)));
    }
    if let DefKind::AssocFn = kind {
        let imp = tcx.parent(did);
        if let DefKind::Impl { .. } = tcx.def_kind(imp) {
            let self_ty = tcx.type_of(imp).instantiate_identity().skip_norm_wip();
            o.set("impl_self", J::Str(ty_s(self_ty)));
            if let Some(tr) = tcx.impl_opt_trait_ref(imp) {
                let tr = tr.instantiate_identity().skip_norm_wip();
                o.set("impl_trait", J::Str(path_of(tcx, tr.def_id)));
            }
        } else if let DefKind::Trait = tcx.def_kind(imp) {
            o.set("trait_default", J::Str(path_of(tcx, imp)));
        }
    }
    if !matches!(kind, DefKind::Closure) {
        let sig = tcx.fn_sig(did).instantiate_identity().skip_norm_wip();
        o.set("sig", J::Str(format!("{}", sig)));
        o.set("unsafe_fn", J::Bool(sig.safety().is_unsafe()));
        let generics = tcx.generics_of(did);
        let gs: Vec<J> = (0..generics.count())
            .map(|i| J::Str(generics.param_at(i, tcx).name.to_string()))
            .collect();
        o.set("generics", J::Arr(gs));
    }
    // locals
    let mut locals = Vec::new();
    for (_i, ld) in body.local_decls.iter_enumerated() {
        let mut lo = J::obj();
        lo.set("ty", J::Str(ty_s(ld.ty)));
        lo.set("mut", J::Bool(ld.mutability.is_mut()));
        locals.push(lo);
    }
    o.set("locals", J::Arr(locals));
    // debug names
    let mut dbg = Vec::new();
    for vdi in body.var_debug_info.iter() {
        let mut d = J::obj();
        d.set("name", J::Str(vdi.name.to_string()));
        match &vdi.value {
            VarDebugInfoContents::Place(p) => d.set("place", place_j(tcx, body, p)),
            VarDebugInfoContents::Const(c) => d.set("const", J::Str(format!("{}", c.const_))),
        }
        dbg.push(d);
    }
    o.set("debug", J::Arr(dbg));
    // closure captures
    if let DefKind::Closure = kind {
        let cty = tcx.type_of(did).instantiate_identity().skip_norm_wip();
        if let ty::Closure(_, cargs) = cty.kind() {
            let mut ups = Vec::new();
            let caps = tcx.closure_captures(ldid);
            let utys = cargs.as_closure().upvar_tys();
            for (i, ut) in utys.iter().enumerate() {
                let mut u = J::obj();
                u.set("ty", J::Str(ty_s(ut)));
                if let Some(c) = caps.get(i) {
                    u.set("name", J::Str(c.to_symbol().to_string()));
                    u.set("by_ref", J::Bool(c.is_by_ref()));
                    u.set("mutability", J::Str(format!("{:?}", c.mutability)));
                    u.set("capture_kind", J::Str(format!("{:?}", c.info.capture_kind)));
                }
                let env = TypingEnv::post_analysis(tcx, did);
                u.set("freeze", J::Bool(ut.is_freeze(tcx, env)));
                let mut seen = HashSet::new();
                let (im, why) = interior_mut(tcx, env, ut, &mut seen, 0);
                u.set("interior_mut", J::Str(im.to_string()));
                u.set("interior_why", J::Str(why));
                u.set("has_mut_ref", J::Bool(has_mut_ref(ut)));
                ups.push(u);
            }
            o.set("upvars", J::Arr(ups));
        }
    }
    // blocks
    let env = TypingEnv::post_analysis(tcx, did);
    let mut blocks = Vec::new();
    let mut unsafe_ops = Vec::new();
    for (bb, data) in body.basic_blocks.iter_enumerated() {
        let mut b = J::obj();
        b.set("id", J::Num(bb.index() as f64));
        b.set("cleanup", J::Bool(data.is_cleanup));
        let mut stmts = Vec::new();
        for st in data.statements.iter() {
            match &st.kind {
                StatementKind::Assign(bx) => {
                    let (pl, rv) = &**bx;
                    let mut s = J::obj();
                    s.set("k", J::Str("assign".into()));
                    s.set("place", place_j(tcx, body, pl));
                    s.set("rv", rvalue_j(tcx, body, rv, st.source_info.span, &mut unsafe_ops));
                    s.set("line", line_of(tcx, st.source_info.span));
                    s.set("expn", J::Bool(st.source_info.span.from_expansion()));
                    stmts.push(s);
                }
                StatementKind::SetDiscriminant { place, variant_index } => {
                    let mut s = J::obj();
                    s.set("k", J::Str("setdiscr".into()));
                    s.set("place", place_j(tcx, body, place));
                    s.set("variant", J::Num(variant_index.index() as f64));
                    s.set("line", line_of(tcx, st.source_info.span));
                    stmts.push(s);
                }
                StatementKind::Intrinsic(i) => {
                    let mut s = J::obj();
                    s.set("k", J::Str("intrinsic".into()));
                    s.set("text", J::Str(format!("{:?}", i)));
                    s.set("line", line_of(tcx, st.source_info.span));
                    stmts.push(s);
                }
                _ => {}
            }
        }
        b.set("stmts", J::Arr(stmts));
        let term = data.terminator();
        b.set("term", term_j(tcx, body, env, term, &mut unsafe_ops));
        blocks.push(b);
    }
    o.set("blocks", J::Arr(blocks));
    o.set("unsafe_ops", J::Arr(unsafe_ops));
    o
}

/// Def path of the closure a value of type `t` is (directly or behind references), or null.
fn closure_in_ty<'tcx>(tcx: TyCtxt<'tcx>, t: Ty<'tcx>) -> J {
    match t.kind() {
        ty::Closure(did, _) => J::Str(path_of(tcx, *did)),
        ty::Ref(_, inner, _) => closure_in_ty(tcx, *inner),
        _ => J::Null,
    }
}

fn has_mut_ref(t: Ty<'_>) -> bool {
    match t.kind() {
        ty::Ref(_, _, m) => m.is_mut(),
        _ => false,
    }
}

/// Deep structural search for interior mutability: "no" | "yes" | "unknown".
fn interior_mut<'tcx>(
    tcx: TyCtxt<'tcx>,
    env: TypingEnv<'tcx>,
    t: Ty<'tcx>,
    seen: &mut HashSet<Ty<'tcx>>,
    depth: usize,
) -> (&'static str, String) {
    if depth > 24 {
        return ("unknown", format!("depth limit at {}", t));
    }
    if !seen.insert(t) {
        return ("no", String::new());
    }
    let join = |acc: &mut (&'static str, String), r: (&'static str, String)| {
        if r.0 == "yes" || (r.0 == "unknown" && acc.0 == "no") {
            *acc = r;
        }
    };
    let mut acc: (&'static str, String) = ("no", String::new());
    match t.kind() {
        ty::Bool | ty::Char | ty::Int(_) | ty::Uint(_) | ty::Float(_) | ty::Str | ty::Never => {}
        ty::Adt(def, args) => {
            if def.is_unsafe_cell() {
                return ("yes", format!("{}", t));
            }
            if def.is_phantom_data() {
                return ("no", String::new());
            }
            let p = tcx.def_path_str(def.did());
            // well-known interior-mutable std types that hide the cell behind raw pointers
            let kr = krate_of(tcx, def.did());
            let is_std = kr == "core" || kr == "std" || kr == "alloc";
            if is_std
                && (p.contains("sync::atomic::")
                || p.ends_with("::Mutex")
                || p.ends_with("::RwLock")
                || p.ends_with("::Cell")
                || p.ends_with("::RefCell")
                || p.ends_with("::OnceCell")
                || p.ends_with("::OnceLock")
                || p.ends_with("::Rc")
                || p.ends_with("::Arc"))
            {
                // Arc/Rc: shared ownership; contents examined below through generic args
                if !(p.ends_with("::Rc") || p.ends_with("::Arc")) {
                    return ("yes", format!("{}", t));
                }
            }
            for v in def.variants().iter() {
                for f in v.fields.iter() {
                    let ft = f.ty(tcx, args);
                    let r = interior_mut(tcx, env, ft, seen, depth + 1);
                    join(&mut acc, r);
                    if acc.0 == "yes" {
                        return acc;
                    }
                }
            }
            // generic args (covers raw-pointer-backed containers: Vec<T>, Box<T>, ...)
            for a in args.iter() {
                if let Some(at) = a.as_type() {
                    let r = interior_mut(tcx, env, at, seen, depth + 1);
                    join(&mut acc, r);
                    if acc.0 == "yes" {
                        return acc;
                    }
                }
            }
        }
        ty::Ref(_, inner, _) | ty::RawPtr(inner, _) | ty::Slice(inner) | ty::Array(inner, _) => {
            let r = interior_mut(tcx, env, *inner, seen, depth + 1);
            join(&mut acc, r);
        }
        ty::Tuple(ts) => {
            for x in ts.iter() {
                let r = interior_mut(tcx, env, x, seen, depth + 1);
                join(&mut acc, r);
                if acc.0 == "yes" {
                    return acc;
                }
            }
        }
        ty::Closure(_, cargs) => {
            for x in cargs.as_closure().upvar_tys().iter() {
                let r = interior_mut(tcx, env, x, seen, depth + 1);
                join(&mut acc, r);
            }
        }
        ty::FnDef(..) | ty::FnPtr(..) => {}
        ty::Pat(inner, _) => {
            let r = interior_mut(tcx, env, *inner, seen, depth + 1);
            join(&mut acc, r);
        }
        ty::Alias(..) => {
            // projections such as <Generator as RTreeObject>::Envelope: normalise, then walk
            let un = rustc_middle::ty::Unnormalized::new_wip(t);
            match tcx.try_normalize_erasing_regions(env, un) {
                Ok(nt) if nt != t && !matches!(nt.kind(), ty::Alias(..)) => {
                    let r = interior_mut(tcx, env, nt, seen, depth + 1);
                    join(&mut acc, r);
                }
                _ => return ("unknown", format!("{}", t)),
            }
        }
        ty::Param(_) | ty::Dynamic(..) | ty::Foreign(_) => {
            return ("unknown", format!("{}", t));
        }
        _ => return ("unknown", format!("{}", t)),
    }
    acc
}

fn place_j<'tcx>(tcx: TyCtxt<'tcx>, body: &Body<'tcx>, p: &Place<'tcx>) -> J {
    let mut o = J::obj();
    o.set("l", J::Num(p.local.index() as f64));
    let mut proj = Vec::new();
    let mut pty = mir::PlaceTy::from_ty(body.local_decls[p.local].ty);
    for elem in p.projection.iter() {
        let mut e = J::obj();
        match elem {
            ProjectionElem::Deref => e.set("k", J::Str("deref".into())),
            ProjectionElem::Field(f, fty) => {
                e.set("k", J::Str("field".into()));
                e.set("i", J::Num(f.index() as f64));
                e.set("ty", J::Str(ty_s(fty)));
                // field name if ADT
                if let ty::Adt(def, _) = pty.ty.kind() {
                    let vidx = pty.variant_index.unwrap_or(rustc_abi::FIRST_VARIANT);
                    if def.is_enum() || def.is_struct() || def.is_union() {
                        if let Some(v) = def.variants().get(vidx) {
                            if let Some(fd) = v.fields.get(f) {
                                e.set("n", J::Str(fd.name.to_string()));
                            }
                        }
                    }
                    e.set("adt", J::Str(tcx.def_path_str(def.did())));
                } else if let ty::Closure(..) = pty.ty.kind() {
                    e.set("adt", J::Str("closure".into()));
                }
            }
            ProjectionElem::Index(l) => {
                e.set("k", J::Str("index".into()));
                e.set("l", J::Num(l.index() as f64));
            }
            ProjectionElem::ConstantIndex { offset, min_length, from_end } => {
                e.set("k", J::Str("cindex".into()));
                e.set("off", J::Num(offset as f64));
                e.set("min", J::Num(min_length as f64));
                e.set("from_end", J::Bool(from_end));
            }
            ProjectionElem::Subslice { from, to, from_end } => {
                e.set("k", J::Str("subslice".into()));
                e.set("from", J::Num(from as f64));
                e.set("to", J::Num(to as f64));
                e.set("from_end", J::Bool(from_end));
            }
            ProjectionElem::Downcast(name, v) => {
                e.set("k", J::Str("downcast".into()));
                e.set("v", J::Num(v.index() as f64));
                if let Some(n) = name {
                    e.set("n", J::Str(n.to_string()));
                } else if let ty::Adt(def, _) = pty.ty.kind() {
                    e.set("n", J::Str(def.variant(v).name.to_string()));
                }
            }
            ProjectionElem::OpaqueCast(_) => e.set("k", J::Str("opaque".into())),
            ProjectionElem::UnwrapUnsafeBinder(_) => e.set("k", J::Str("unwrap_binder".into())),
        }
        pty = pty.projection_ty(tcx, elem);
        proj.push(e);
    }
    o.set("p", J::Arr(proj));
    o
}

fn const_j<'tcx>(tcx: TyCtxt<'tcx>, body: &Body<'tcx>, c: &ConstOperand<'tcx>) -> J {
    let mut o = J::obj();
    o.set("k", J::Str("const".into()));
    let ty = c.const_.ty();
    o.set("ty", J::Str(ty_s(ty)));
    // function items
    if let ty::FnDef(did, args) = ty.kind() {
        o.set("fn", J::Str(path_of(tcx, *did)));
        o.set("fn_crate", J::Str(krate_of(tcx, *did)));
        o.set("substs", substs_j(args));
        // a function item used as a value (`map_or_else(T::default, ..)`): resolve trait methods to the impl's item
        let env = TypingEnv::post_analysis(tcx, body.source.def_id());
        if let Ok(Some(inst)) = Instance::try_resolve(tcx, env, *did, args) {
            let rd = inst.def_id();
            o.set("fn_resolved", J::Str(path_of(tcx, rd)));
            o.set("fn_resolved_crate", J::Str(krate_of(tcx, rd)));
        }
        return o;
    }
    if let ty::Closure(did, _) = ty.kind() {
        o.set("closure", J::Str(path_of(tcx, *did)));
        return o;
    }
    if let Some(sd) = c.check_static_ptr(tcx) {
        o.set("static", J::Str(path_of(tcx, sd)));
        o.set("static_mut", J::Bool(tcx.is_mutable_static(sd)));
        o.set("static_crate", J::Str(krate_of(tcx, sd)));
        let sty = tcx.type_of(sd).instantiate_identity().skip_norm_wip();
        o.set("static_ty", J::Str(ty_s(sty)));
        return o;
    }
    let env = TypingEnv::post_analysis(tcx, body.source.def_id());
    // evaluate where possible
    let val = c.const_.eval(tcx, env, c.span).ok();
    match val {
        Some(ConstValue::Scalar(mir::interpret::Scalar::Int(si))) => {
            let bits = si.to_bits_unchecked();
            o.set("bits", J::Str(format!("{:#x}", bits)));
            o.set("size", J::Num(si.size().bytes() as f64));
            match ty.kind() {
                ty::Int(_) => {
                    let sz = si.size();
                    let v = sz.sign_extend(bits);
                    o.set("int", J::Str(format!("{}", v)));
                }
                ty::Uint(_) => o.set("int", J::Str(format!("{}", bits))),
                ty::Bool => o.set("bool", J::Bool(bits != 0)),
                ty::Float(_) => o.set("float_bits", J::Str(format!("{:#x}", bits))),
                ty::Adt(def, _) if def.is_enum() => {
                    o.set("enum_bits", J::Str(format!("{}", bits)));
                }
                _ => {}
            }
        }
        Some(ConstValue::Scalar(mir::interpret::Scalar::Ptr(ptr, _))) => {
            // reference to a small promoted/static value (e.g. `&Dimensionality::ThreeD` in assert_eq!): pointee bytes
            if let ty::Ref(_, pointee, _) = ty.kind() {
                if let Ok(layout) = tcx.layout_of(env.as_query_input(*pointee)) {
                    let size = layout.size.bytes() as usize;
                    let (prov, offset) = ptr.into_raw_parts();
                    if size <= 64 && size > 0 {
                        if let mir::interpret::GlobalAlloc::Memory(alloc) = tcx.global_alloc(prov.alloc_id()) {
                            let a = alloc.inner();
                            let off = offset.bytes() as usize;
                            if a.provenance().ptrs().is_empty() && off + size <= a.len() {
                                let bytes = a.inspect_with_uninit_and_ptr_outside_interpreter(off..off + size);
                                let hex: String = bytes.iter().map(|b| format!("{:02x}", b)).collect();
                                o.set("deref_bytes", J::Str(hex));
                                o.set("deref_ty", J::Str(ty_s(*pointee)));
                                if let ty::Adt(def, _) = pointee.kind() {
                                    if def.is_enum() {
                                        o.set("deref_enum", J::Bool(true));
                                    }
                                }
                            }
                        }
                    }
                }
            }
        }
        Some(ConstValue::ZeroSized) => {
            o.set("zst", J::Bool(true));
        }
        Some(ConstValue::Indirect { alloc_id, offset }) => {
            // small plain-data constants (e.g. DVec3::X): raw bytes
            if let Ok(layout) = tcx.layout_of(env.as_query_input(ty)) {
                let size = layout.size.bytes() as usize;
                if size <= 256 {
                    let alloc = tcx.global_alloc(alloc_id).unwrap_memory();
                    let a = alloc.inner();
                    if a.provenance().ptrs().is_empty() {
                        let off = offset.bytes() as usize;
                        let bytes =
                            a.inspect_with_uninit_and_ptr_outside_interpreter(off..off + size);
                        let hex: String = bytes.iter().map(|b| format!("{:02x}", b)).collect();
                        o.set("bytes", J::Str(hex));
                    }
                }
            }
        }
        _ => {}
    }
    o.set("text", J::Str(format!("{}", c.const_)));
    // name of the const item if unevaluated
    if let Const::Unevaluated(u, _) = c.const_ {
        o.set("item", J::Str(path_of(tcx, u.def)));
        if u.promoted.is_some() {
            o.set("promoted", J::Bool(true));
        }
    }
    o
}

fn operand_j<'tcx>(tcx: TyCtxt<'tcx>, body: &Body<'tcx>, op: &Operand<'tcx>) -> J {
    match op {
        Operand::Copy(p) => {
            let mut o = J::obj();
            o.set("k", J::Str("copy".into()));
            o.set("place", place_j(tcx, body, p));
            o
        }
        Operand::Move(p) => {
            let mut o = J::obj();
            o.set("k", J::Str("move".into()));
            o.set("place", place_j(tcx, body, p));
            o
        }
        Operand::Constant(c) => const_j(tcx, body, c),
        other => {
            let mut o = J::obj();
            o.set("k", J::Str("runtime_checks".into()));
            o.set("text", J::Str(format!("{:?}", other)));
            o
        }
    }
}

fn rvalue_j<'tcx>(
    tcx: TyCtxt<'tcx>,
    body: &Body<'tcx>,
    rv: &Rvalue<'tcx>,
    sp: Span,
    unsafe_ops: &mut Vec<J>,
) -> J {
    let mut o = J::obj();
    match rv {
        Rvalue::Use(op, ..) => {
            o.set("k", J::Str("use".into()));
            o.set("x", operand_j(tcx, body, op));
        }
        Rvalue::Repeat(op, n) => {
            o.set("k", J::Str("repeat".into()));
            o.set("x", operand_j(tcx, body, op));
            o.set("n", J::Str(format!("{}", n)));
        }
        Rvalue::Ref(_, bk, p) => {
            o.set("k", J::Str("ref".into()));
            o.set("mut", J::Bool(matches!(bk, BorrowKind::Mut { .. })));
            o.set("place", place_j(tcx, body, p));
        }
        Rvalue::ThreadLocalRef(d) => {
            o.set("k", J::Str("tls".into()));
            o.set("path", J::Str(path_of(tcx, *d)));
        }
        Rvalue::RawPtr(kind, p) => {
            o.set("k", J::Str("rawptr".into()));
            o.set("kind", J::Str(format!("{:?}", kind)));
            o.set("place", place_j(tcx, body, p));
        }
        Rvalue::Cast(kind, op, ty) => {
            o.set("k", J::Str("cast".into()));
            o.set("kind", J::Str(format!("{:?}", kind)));
            o.set("x", operand_j(tcx, body, op));
            o.set("ty", J::Str(ty_s(*ty)));
            o.set("from_ty", J::Str(ty_s(op.ty(&body.local_decls, tcx))));
            if let CastKind::Transmute = kind {
                if !sp.from_expansion() {
                    let mut u = J::obj();
                    u.set("what", J::Str("transmute".into()));
                    u.set("line", line_of(tcx, sp));
                    u.set("from", J::Str(ty_s(op.ty(&body.local_decls, tcx))));
                    u.set("to", J::Str(ty_s(*ty)));
                    unsafe_ops.push(u);
                }
            }
            if matches!(kind, CastKind::PointerExposeProvenance | CastKind::PointerWithExposedProvenance)
            {
                let mut u = J::obj();
                u.set("what", J::Str("ptr_int_cast".into()));
                u.set("line", line_of(tcx, sp));
                unsafe_ops.push(u);
            }
        }
        Rvalue::BinaryOp(op, bx) => {
            o.set("k", J::Str("binop".into()));
            o.set("op", J::Str(format!("{:?}", op)));
            o.set("l", operand_j(tcx, body, &bx.0));
            o.set("r", operand_j(tcx, body, &bx.1));
            o.set("lty", J::Str(ty_s(bx.0.ty(&body.local_decls, tcx))));
        }
        Rvalue::UnaryOp(op, x) => {
            o.set("k", J::Str("unop".into()));
            o.set("op", J::Str(format!("{:?}", op)));
            o.set("x", operand_j(tcx, body, x));
            o.set("xty", J::Str(ty_s(x.ty(&body.local_decls, tcx))));
        }
        Rvalue::Discriminant(p) => {
            o.set("k", J::Str("discr".into()));
            o.set("place", place_j(tcx, body, p));
            let pt = p.ty(&body.local_decls, tcx).ty;
            o.set("ty", J::Str(ty_s(pt)));
            if let ty::Adt(def, _) = pt.kind() {
                if def.is_enum() {
                    let vs: Vec<J> = def
                        .discriminants(tcx)
                        .map(|(vi, d)| {
                            let mut v = J::obj();
                            v.set("name", J::Str(def.variant(vi).name.to_string()));
                            v.set("val", J::Str(format!("{}", d.val)));
                            v
                        })
                        .collect();
                    o.set("variants", J::Arr(vs));
                }
            }
        }
        Rvalue::Aggregate(kind, ops) => {
            o.set("k", J::Str("aggregate".into()));
            match &**kind {
                AggregateKind::Array(t) => {
                    o.set("agg", J::Str("array".into()));
                    o.set("ty", J::Str(ty_s(*t)));
                }
                AggregateKind::Tuple => o.set("agg", J::Str("tuple".into())),
                AggregateKind::Adt(did, vidx, args, _, active) => {
                    o.set("agg", J::Str("adt".into()));
                    o.set("adt", J::Str(path_of(tcx, *did)));
                    o.set("adt_crate", J::Str(krate_of(tcx, *did)));
                    o.set("substs", substs_j(args));
                    let def = tcx.adt_def(*did);
                    let v = def.variant(*vidx);
                    o.set("variant", J::Str(v.name.to_string()));
                    o.set("variant_idx", J::Num(vidx.index() as f64));
                    let names: Vec<J> =
                        v.fields.iter().map(|f| J::Str(f.name.to_string())).collect();
                    o.set("fields", J::Arr(names));
                    if let Some(a) = active {
                        o.set("union_field", J::Num(a.index() as f64));
                    }
                }
                AggregateKind::Closure(did, args) => {
                    o.set("agg", J::Str("closure".into()));
                    o.set("closure", J::Str(path_of(tcx, *did)));
                    let _ = args;
                }
                AggregateKind::RawPtr(t, m) => {
                    o.set("agg", J::Str("rawptr".into()));
                    o.set("ty", J::Str(ty_s(*t)));
                    o.set("mut", J::Bool(m.is_mut()));
                }
                other => {
                    o.set("agg", J::Str("other".into()));
                    o.set("text", J::Str(format!("{:?}", other)));
                }
            }
            o.set("ops", J::Arr(ops.iter().map(|x| operand_j(tcx, body, x)).collect()));
        }
        Rvalue::CopyForDeref(p) => {
            o.set("k", J::Str("use".into()));
            let mut x = J::obj();
            x.set("k", J::Str("copy".into()));
            x.set("place", place_j(tcx, body, p));
            o.set("x", x);
        }
        other => {
            o.set("k", J::Str("other".into()));
            o.set("text", J::Str(format!("{:?}", other)));
        }
    }
    o
}

fn term_j<'tcx>(
    tcx: TyCtxt<'tcx>,
    body: &Body<'tcx>,
    env: TypingEnv<'tcx>,
    term: &Terminator<'tcx>,
    unsafe_ops: &mut Vec<J>,
) -> J {
    let mut o = J::obj();
    let sp = term.source_info.span;
    o.set("line", line_of(tcx, sp));
    o.set("expn", J::Bool(sp.from_expansion()));
    if sp.from_expansion() {
        // name of the outermost macro
        let ed = sp.ctxt().outer_expn_data();
        o.set("macro", J::Str(format!("{:?}", ed.kind)));
    }
    let unwind_j = |u: &UnwindAction| -> J {
        match u {
            UnwindAction::Cleanup(bb) => J::Num(bb.index() as f64),
            _ => J::Null,
        }
    };
    match &term.kind {
        TerminatorKind::Goto { target } => {
            o.set("k", J::Str("goto".into()));
            o.set("target", J::Num(target.index() as f64));
        }
        TerminatorKind::SwitchInt { discr, targets } => {
            o.set("k", J::Str("switch".into()));
            o.set("discr", operand_j(tcx, body, discr));
            o.set("discr_ty", J::Str(ty_s(discr.ty(&body.local_decls, tcx))));
            let ts: Vec<J> = targets
                .iter()
                .map(|(v, bb)| J::Arr(vec![J::Str(format!("{}", v)), J::Num(bb.index() as f64)]))
                .collect();
            o.set("targets", J::Arr(ts));
            o.set("otherwise", J::Num(targets.otherwise().index() as f64));
        }
        TerminatorKind::UnwindResume => o.set("k", J::Str("resume".into())),
        TerminatorKind::UnwindTerminate(_) => o.set("k", J::Str("terminate".into())),
        TerminatorKind::Return => o.set("k", J::Str("return".into())),
        TerminatorKind::Unreachable => o.set("k", J::Str("unreachable".into())),
        TerminatorKind::Drop { place, target, unwind, .. } => {
            o.set("k", J::Str("drop".into()));
            o.set("place", place_j(tcx, body, place));
            o.set("target", J::Num(target.index() as f64));
            o.set("unwind", unwind_j(unwind));
        }
        TerminatorKind::Call { func, args, destination, target, unwind, fn_span, .. } => {
            o.set("k", J::Str("call".into()));
            o.set("func", operand_j(tcx, body, func));
            let fty = func.ty(&body.local_decls, tcx);
            if let ty::FnDef(did, gargs) = fty.kind() {
                o.set("callee", J::Str(path_of(tcx, *did)));
                o.set("callee_crate", J::Str(krate_of(tcx, *did)));
                o.set("substs", substs_j(gargs));
                let sig = tcx.fn_sig(*did).instantiate_identity().skip_norm_wip();
                if sig.safety().is_unsafe() && !sp.from_expansion() {
                    let mut u = J::obj();
                    u.set("what", J::Str("call_unsafe_fn".into()));
                    u.set("callee", J::Str(path_of(tcx, *did)));
                    u.set("line", line_of(tcx, sp));
                    unsafe_ops.push(u);
                }
                // trait method?  record trait and try to resolve the instance
                if let Some(tr) = tcx.trait_of_assoc(*did) {
                    o.set("trait", J::Str(path_of(tcx, tr)));
                    o.set("trait_crate", J::Str(krate_of(tcx, tr)));
                }
                if let Ok(Some(inst)) = Instance::try_resolve(tcx, env, *did, gargs) {
                    let rd = inst.def_id();
                    o.set("resolved", J::Str(path_of(tcx, rd)));
                    o.set("resolved_crate", J::Str(krate_of(tcx, rd)));
                    o.set(
                        "resolved_kind",
                        J::Str(format!("{:?}", inst.def).split('(').next().unwrap_or("").to_string()),
                    );
                    o.set("resolved_substs", substs_j(inst.args));
                    // the impl's self type, when the resolved item lives in an impl
                    if let Some(imp) = tcx.impl_of_assoc(rd) {
                        let st = tcx.type_of(imp).instantiate_identity().skip_norm_wip();
                        o.set("resolved_self", J::Str(ty_s(st)));
                    }
                    if let ty::InstanceKind::Virtual(..) = inst.def {
                        o.set("virtual", J::Bool(true));
                    }
                }
            } else {
                o.set("indirect", J::Bool(true));
                o.set("func_ty", J::Str(ty_s(fty)));
            }
            o.set(
                "args",
                J::Arr(args.iter().map(|a| operand_j(tcx, body, &a.node)).collect()),
            );
            o.set(
                "arg_tys",
                J::Arr(
                    args.iter()
                        .map(|a| J::Str(ty_s(a.node.ty(&body.local_decls, tcx))))
                        .collect(),
                ),
            );
            o.set(
                "arg_closures",
                J::Arr(
                    args.iter()
                        .map(|a| closure_in_ty(tcx, a.node.ty(&body.local_decls, tcx)))
                        .collect(),
                ),
            );
            o.set("dest", place_j(tcx, body, destination));
            o.set("target", target.map(|t| J::Num(t.index() as f64)).unwrap_or(J::Null));
            o.set("unwind", unwind_j(unwind));
            o.set("fn_line", line_of(tcx, *fn_span));
        }
        TerminatorKind::Assert { cond, expected, msg, target, unwind } => {
            o.set("k", J::Str("assert".into()));
            o.set("cond", operand_j(tcx, body, cond));
            o.set("expected", J::Bool(*expected));
            let m = format!("{:?}", msg);
            o.set("msg", J::Str(m.chars().take(60).collect()));
            o.set("target", J::Num(target.index() as f64));
            o.set("unwind", unwind_j(unwind));
        }
        TerminatorKind::FalseEdge { real_target, .. } => {
            o.set("k", J::Str("goto".into()));
            o.set("target", J::Num(real_target.index() as f64));
        }
        TerminatorKind::FalseUnwind { real_target, .. } => {
            o.set("k", J::Str("goto".into()));
            o.set("target", J::Num(real_target.index() as f64));
        }
        other => {
            o.set("k", J::Str("other".into()));
            o.set("text", J::Str(format!("{:?}", other).chars().take(80).collect()));
        }
    }
    o
}
