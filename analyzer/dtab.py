"""E2 — decision tables over gated abstract values.

A rule names a finite set of *atoms* (V, RS, SN, GT, ...) and gives a classifier mapping each leaf
condition that the abstract interpreter produced (comparison or boolean atom) to (atom name, polarity).
The guarded value / guard conjunction is then evaluated under every assignment of the atoms and
compared with the table the property requires.  Exhaustive over the atoms, no solver, no execution.
A leaf the classifier does not know makes the table undetermined (AnalysisIncomplete): fail closed."""
import itertools
from . import interp as I, nf
from .nf import RF
from .facts import AnalysisIncomplete


def b_leaves(x, acc=None):
    """Leaf conditions (cmp / atom) occurring in a B tree, an Ite, gated scalars, aggregates."""
    if acc is None:
        acc = {}
    if isinstance(x, I.B):
        if x.op in ('cmp', 'atom'):
            acc[x.key()] = x
            if x.op == 'cmp':
                b_leaves(x.args[1], acc)
                b_leaves(x.args[2], acc)
        elif x.op != 'const':
            for a in x.args:
                b_leaves(a, acc)
    elif isinstance(x, I.Ite):
        b_leaves(x.c, acc)
        b_leaves(x.a, acc)
        b_leaves(x.b, acc)
    elif isinstance(x, RF):
        for a in I.atoms_deep(x).values():
            if a.kind == 'app' and a.name == 'ite':
                b_leaves(a.args[0], acc)
    elif isinstance(x, I.St):
        for v in x.fields.values():
            b_leaves(v, acc)
    elif isinstance(x, (tuple, list)):
        for v in x:
            b_leaves(v, acc)
    elif isinstance(x, I.Ref):
        b_leaves(I.read_lv(x.lv), acc)
    return acc


def evaluate(x, val):
    """Evaluate x under the leaf valuation `val(leaf B) -> bool`."""
    if isinstance(x, I.B):
        if x.op == 'const':
            return x.args[0]
        if x.op == 'not':
            return not evaluate(x.args[0], val)
        if x.op == 'and':
            return evaluate(x.args[0], val) and evaluate(x.args[1], val)
        if x.op == 'or':
            return evaluate(x.args[0], val) or evaluate(x.args[1], val)
        if x.op == 'cmp' and any(isinstance(o, RF) and any(a.kind == 'app' and a.name == 'ite' for a in I.atoms_deep(o).values()) for o in x.args[1:3]):
            # a comparison of gated scalars (e.g. the discriminant of a conditionally built Option): resolve the gates first
            a_, b_ = evaluate(x.args[1], val), evaluate(x.args[2], val)
            y = I.b_cmp(x.args[0], a_, b_)
            if isinstance(y, I.B) and y.op == 'const':
                return y.args[0]
            if isinstance(y, bool):
                return y
            return val(y)
        return val(x)
    if isinstance(x, I.Ite):
        return evaluate(x.a if evaluate(x.c, val) else x.b, val)
    if isinstance(x, RF):
        for _ in range(64):
            its = [a for a in I.atoms_deep(x).values() if a.kind == 'app' and a.name == 'ite']
            if not its:
                return x
            a = its[0]
            c, p, q = a.args
            x = I.subst(x, {a: p if evaluate(c, val) else q})
        raise AnalysisIncomplete('gated scalar nested too deeply')
    if isinstance(x, I.St):
        return I.St(x.adt, x.variant, {k: evaluate(v, val) for k, v in x.fields.items()}, x.base)
    if isinstance(x, I.Ref):
        return evaluate(I.read_lv(x.lv), val)
    if isinstance(x, (tuple, list)):
        return [evaluate(v, val) for v in x]
    return x


def conj(guard, val):
    return all(evaluate(g, val) for g in guard)


class Table:
    """names: ordered atom names.  classify(leaf) -> (name, polarity) | ('const', bool) | None."""

    def __init__(self, names, classify, constraint=None):
        self.names = list(names)
        self.classify = classify
        self.constraint = constraint      # optional predicate on assignments (infeasible rows are skipped)

    def rows(self):
        for bits in itertools.product((False, True), repeat=len(self.names)):
            env = dict(zip(self.names, bits))
            if self.constraint is None or self.constraint(env):
                yield env

    def valuation(self, env, unknown):
        def val(leaf):
            c = self.classify(leaf)
            if c is None:
                unknown.append(leaf)
                return False
            n, pol = c
            if n == 'const':
                return pol
            return env[n] == pol
        return val

    def tabulate(self, x, guard=()):
        """-> {row tuple: value}; value of x where the guard holds, else None ('not reached')."""
        out = {}
        unknown = []
        for env in self.rows():
            val = self.valuation(env, unknown)
            key = tuple(env[n] for n in self.names)
            if not conj(guard, val):
                out[key] = None
            else:
                out[key] = evaluate(x, val)
        if unknown:
            u = {l.key(): l for l in unknown}
            raise AnalysisIncomplete('decision depends on conditions outside the rule\'s atoms: %s' % '; '.join(repr(l)[:140] for l in u.values()))
        return out

    def compare(self, x, guard, required):
        """required(env) -> expected python value (compared by repr for abstract values).
        Returns list of (env, observed, expected) mismatches."""
        tab = self.tabulate(x, guard)
        bad = []
        for env in self.rows():
            key = tuple(env[n] for n in self.names)
            obs = tab[key]
            exp = required(env)
            if not same(obs, exp):
                bad.append((env, obs, exp))
        return bad, tab


def same(a, b):
    if isinstance(a, bool) or isinstance(b, bool) or a is None or b is None:
        return a is b or a == b and type(a) == type(b)
    try:
        return I.vkey(I.frozen(a)) == I.vkey(I.frozen(b))
    except TypeError:
        return repr(a) == repr(b)


def fmt_env(env):
    return ' '.join(('' if v else '!') + k for k, v in env.items())


# --- common leaf recognisers ---------------------------------------------------------------------
def is_discr_eq(leaf, variant_val=None):
    """leaf is  discr(X) == k  -> (X atom, k) else None."""
    if leaf.op == 'cmp' and leaf.args[0] in ('==', '!='):
        a, b = leaf.args[1], leaf.args[2]
        for x, y in ((a, b), (b, a)):
            at = I.single_atom(x) if isinstance(x, RF) else None
            if at is not None and at.kind == 'app' and at.name == 'discr' and isinstance(y, RF) and y.is_const():
                return at.args[0], int(y.const_value()), leaf.args[0] == '=='
    return None


def is_some_leaf(leaf):
    """leaf is b:is_some(X) -> repr of X."""
    if leaf.op == 'atom':
        at = leaf.args[0]
        if at.kind == 'app' and at.name == 'is_some':
            return at.args[0]
    return None


def option_leaf(leaf, suffix):
    """Recognise 'the Option whose printed path ends with `suffix` is Some' in either encoding
    (is_some atom, or discriminant comparison).  -> polarity (True: leaf says Some) or None."""
    x = is_some_leaf(leaf)
    if x is not None and repr(x).endswith(suffix):
        return True
    d = is_discr_eq(leaf)
    if d is not None:
        X, k, eq = d
        if repr(X).endswith(suffix):
            return (k == 1) == eq
    return None
