"""E5 — downstream witness crates: compile-pass / compile-fail (with compiling twins), type-checked against /repo's
current working tree with `cargo +nightly check` (nothing is executed)."""
import json, os, re, shutil, subprocess
from .facts import AnalysisIncomplete

V = os.path.dirname(os.path.dirname(os.path.abspath(__file__)))
WDIR = os.path.join(V, 'witnesses', 'w')
REPO = os.environ.get('MV_REPO', '/repo')
_cache = {}


_copy = [None]


def _private_copy():
    """A per-process copy of the witness crate that depends on the tree under analysis (MV_REPO, default /repo) with that tree's
    Cargo.lock: parallel checks do not write into one another's manifest, and scratch variants (E6) are type-checked themselves."""
    if _copy[0] is not None:
        return _copy[0]
    import atexit, tempfile
    base = os.path.join(V, '.work')
    os.makedirs(base, exist_ok=True)
    d = tempfile.mkdtemp(prefix='witness-', dir=base)
    shutil.copytree(os.path.join(WDIR, 'src'), os.path.join(d, 'src'))
    with open(os.path.join(WDIR, 'Cargo.toml')) as f:
        toml = f.read()
    toml = toml.replace('path = "/repo"', 'path = "%s"' % os.path.abspath(REPO))
    with open(os.path.join(d, 'Cargo.toml'), 'w') as f:
        f.write(toml)
    shutil.copyfile(os.path.join(REPO, 'Cargo.lock'), os.path.join(d, 'Cargo.lock'))
    atexit.register(lambda: shutil.rmtree(d, ignore_errors=True))
    _copy[0] = d
    return d


def check_bin(name, subst=None):
    """-> {'ok': bool, 'errors': [{'code','message','file','line'}]}
    `subst` {identifier: identifier}: crate-private items the witness has to name (to show they cannot be reached) under the names they have in
    the tree under analysis (a private method may have been renamed — analyzer/rolemap.py)."""
    ck = (name, tuple(sorted((subst or {}).items())))
    if ck in _cache:
        return _cache[ck]
    src = os.path.join(WDIR, 'src', 'bin', name + '.rs')
    if not os.path.exists(src):
        raise AnalysisIncomplete('witness %s missing' % name, name)
    wdir = _private_copy()
    if subst:
        with open(src) as f:
            text = f.read()
        for old, new in subst.items():
            text = re.sub(r'\b%s\b' % re.escape(old), new, text)
        with open(os.path.join(wdir, 'src', 'bin', name + '.rs'), 'w') as f:
            f.write(text)
    env = dict(os.environ, CARGO_NET_OFFLINE='true', CARGO_TARGET_DIR=os.path.join(V, '.work', 'target-witness'), CARGO_INCREMENTAL='0')
    p = subprocess.run(['cargo', '+nightly', 'check', '--offline', '--bin', name, '--message-format=json'], cwd=wdir, env=env, capture_output=True, text=True)
    errors = []
    dep_errors = []
    for line in p.stdout.splitlines():
        try:
            m = json.loads(line)
        except ValueError:
            continue
        if m.get('reason') != 'compiler-message':
            continue
        msg = m['message']
        if msg.get('level') != 'error':
            continue
        prim = [s for s in msg.get('spans', []) if s.get('is_primary')]
        e = {'code': (msg.get('code') or {}).get('code'), 'message': msg.get('message', ''),
             'file': prim[0]['file_name'] if prim else None, 'line': prim[0]['line_start'] if prim else None}
        if m.get('target', {}).get('name') == name:
            errors.append(e)
        else:
            dep_errors.append(e)
    if dep_errors:
        raise AnalysisIncomplete('the library itself does not type-check for the witness build: %s' % dep_errors[0]['message'][:200], name)
    if p.returncode != 0 and not errors:
        raise AnalysisIncomplete('witness build failed without a compiler diagnostic: %s' % p.stderr[-400:], name)
    res = {'ok': p.returncode == 0, 'errors': [e for e in errors if not e['message'].startswith('could not compile') and not e['message'].startswith('aborting due')]}
    _cache[ck] = res
    return res


def markers(name):
    """Lines marked `//~ Exxxx` (or `//~ private-fields`) in a fail witness -> {line: tag}."""
    out = {}
    with open(os.path.join(WDIR, 'src', 'bin', name + '.rs')) as f:
        for i, l in enumerate(f, 1):
            m = re.search(r'//~\s*(\S+)', l)
            if m:
                out[i] = m.group(1)
    return out


def matches(tag, err):
    if tag == 'private-fields':
        return err['code'] == 'E0451' or 'private field' in err['message']
    return err['code'] == tag


def expect_pass(ctx, rule, name, what, known_tag=None):
    r = check_bin(name)
    ctx.evaluations += 1
    w = 'witnesses/w/src/bin/%s.rs' % name
    if r['ok']:
        ctx.ok(rule, 'witness:' + name, 'type-checks against the current tree', what, w)
        return True
    e = r['errors'][0] if r['errors'] else {'code': None, 'message': '?', 'line': None}
    codes = sorted({x['code'] or 'no-code' for x in r['errors']})
    ctx.bad(rule, 'witness:' + name, 'does not compile: %s at line %s: %s' % (e['code'], e['line'], e['message'][:160]), what, w, key_extra='compile-error:%s' % ','.join(codes))
    return False


def expect_fail(ctx, rule, name, what, subst=None):
    """fail_<name> must fail exactly at its marked line with the marked error; twin_<name> must compile."""
    fail, twin = 'fail_' + name, 'twin_' + name
    mk = markers(fail)
    if len(mk) != 1:
        raise AnalysisIncomplete('witness %s must mark exactly one line' % fail, fail)
    (line, tag), = mk.items()
    r = check_bin(fail, subst)
    t = check_bin(twin, subst)
    ctx.evaluations += 2
    w = 'witnesses/w/src/bin/%s.rs:%d' % (fail, line)
    if not t['ok']:
        e = t['errors'][0] if t['errors'] else {'code': None, 'message': '?', 'line': None}
        ctx.incomplete(rule, 'witness:' + name, 'the compiling twin does not compile (%s line %s: %s): the witness no longer isolates the offending line' % (e['code'], e['line'], e['message'][:120]), w)
        return False
    if r['ok']:
        ctx.bad(rule, 'witness:' + name, 'compiles', what + ' (expected %s)' % tag, w, key_extra='compiles')
        return False
    good = [e for e in r['errors'] if e['line'] == line and matches(tag, e)]
    other = [e for e in r['errors'] if e not in good]
    if good and not other:
        ctx.ok(rule, 'witness:' + name, 'rejected with %s at the marked line; twin compiles' % tag, what, w)
        return True
    e = (other or r['errors'])[0]
    ctx.incomplete(rule, 'witness:' + name, 'rejected, but not by the expected error alone: %s at line %s: %s' % (e['code'], e['line'], e['message'][:120]), w)
    return False
