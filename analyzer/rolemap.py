"""Name normalisation for renamed / moved private items.

Rules locate the public API by name (those names are part of the properties) and most internal constructs by role, but a number of
crate-private functions and types are still addressed by the path they have on the pinned tree (`Vertex::from_dual`,
`SimpleCycle::try_extend`, `SimulationBoundary::iloc`, ...).  Renaming such an item is a behaviour-preserving edit and must not raise an
alarm.  This module keeps a reference index of the pinned tree (`analyzer/ref_index.json`: per function its signature shape, the
callees it resolves to, the ADTs it builds, the fields it assigns; per ADT its field types) and, when a fact file lacks a reference
path that is NOT exported from the crate, looks for the unique new, equally non-exported item with the same role signature and rewrites
the fact file to the canonical name before any rule runs.  Exported items are never renamed back: their names are API.

The matching is conservative: same kind, same argument/return type shapes (after applying the ADT renames found first), and a callee /
aggregate / field-write profile that is closer to the reference than to any other candidate; otherwise nothing is renamed and the rule
that needs the anchor reports `analysis-incomplete` as before."""
import json, os, re

V = os.path.dirname(os.path.dirname(os.path.abspath(__file__)))
REF = os.path.join(V, 'analyzer', 'ref_index.json')

_GEN = re.compile(r'::<[^<>]*(?:<[^<>]*(?:<[^<>]*>[^<>]*)*>[^<>]*)*>')
_LT = re.compile(r"'[a-z_][a-z0-9_]*\b ?")


def strip_generics(p):
    prev = None
    while prev != p:
        prev = p
        p = _GEN.sub('', p)
    return p


def _norm_ty(t):
    t = _LT.sub('', t or '')
    t = t.replace('for<> ', '').replace('for<>', '')
    return re.sub(r'\s+', ' ', t).strip()


def _callees(b):
    out = {}
    for bl in b['blocks']:
        t = bl['term']
        if t.get('k') == 'call':
            c = t.get('resolved') or t.get('callee')
            if c:
                c = strip_generics(c)
                out[c] = out.get(c, 0) + 1
    return out


def _aggs(b):
    out = set()
    fields = set()
    for bl in b['blocks']:
        for s in bl['stmts']:
            if s.get('k') != 'assign':
                continue
            rv = s['rv']
            if rv.get('k') == 'aggregate' and rv.get('adt'):
                out.add(strip_generics(rv['adt']))
            for e in s['place'].get('p', []):
                if e.get('k') == 'field' and e.get('n'):
                    fields.add(str(e['n']))
    return sorted(out), sorted(fields)


def _sig(b):
    n = b.get('arg_count', 0)
    return [_norm_ty(l['ty']) for l in b['locals'][1:1 + n]], _norm_ty(b['locals'][0]['ty'])


def index_of(d):
    """Reference / comparison index of one fact file (dict as loaded from JSON)."""
    fns = {}
    for b in d['bodies']:
        if b.get('kind') == 'Closure' or '{closure' in b['path'] or '::tests::' in b['path'] or 'convex_cell_alternative' in b['path']:
            continue
        p = strip_generics(b['path'])
        args, ret = _sig(b)
        ag, fl = _aggs(b)
        fns[p] = {'kind': b.get('kind'), 'exported': bool(b.get('exported')), 'args': args, 'ret': ret, 'callees': _callees(b), 'aggs': ag, 'fields': fl,
                  'nblocks': len(b['blocks']), 'file': b.get('file')}
    adts = {}
    for a in d['adts']:
        if 'convex_cell_alternative' in a['path'] or '::tests::' in a['path']:
            continue
        vs = []
        for v in a.get('variants', []):
            vs.append([v.get('name'), [[f.get('name'), _norm_ty(f.get('ty')), f.get('vis')] for f in v.get('fields', [])]])
        adts[a['path']] = {'exported': bool(a.get('exported')), 'kind': a.get('kind'), 'variants': vs, 'file': a.get('file')}
    return {'fns': fns, 'adts': adts}


def _load_ref():
    if not os.path.exists(REF):
        return None
    with open(REF) as f:
        return json.load(f)


def _subst_ty(t, adt_ren):
    for old, new in adt_ren.items():
        t = re.sub(r'(?<![A-Za-z0-9_])' + re.escape(old) + r'(?![A-Za-z0-9_])', new, t)
    return t


def _adt_shape(a, adt_ren=None):
    """shape of an ADT up to names: variant count, per variant the multiset of field types"""
    out = []
    for name, fs in a['variants']:
        out.append(sorted(_subst_ty(f_[1], adt_ren or {}) for f_ in fs))
    return out


def _jacc(a, b):
    ka, kb = set(a), set(b)
    if not ka and not kb:
        return 1.0
    return len(ka & kb) / float(len(ka | kb))


def compute(d, config=None):
    """-> (adt renames {new path: canonical path}, fn renames {new stripped path: canonical stripped path})"""
    ref = _load_ref()
    if ref is None:
        return {}, {}
    cur = index_of(d)
    # --- ADTs -------------------------------------------------------------------------------------
    miss_a = [p for p, a in ref['adts'].items() if p not in cur['adts'] and not a['exported']]
    new_a = [p for p, a in cur['adts'].items() if p not in ref['adts'] and not a['exported']]
    adt_ren = {}
    for m in miss_a:
        ra = ref['adts'][m]
        cands = []
        for n in new_a:
            ca = cur['adts'][n]
            if ca['kind'] != ra['kind'] or len(ca['variants']) != len(ra['variants']):
                continue
            if _adt_shape(ca) == _adt_shape(ra):
                cands.append(n)
        # prefer the same module
        same_mod = [n for n in cands if n.rsplit('::', 1)[0] == m.rsplit('::', 1)[0]]
        pick = same_mod if len(same_mod) == 1 else (cands if len(cands) == 1 else [])
        if len(pick) == 1:
            adt_ren[pick[0]] = m
            new_a.remove(pick[0])
    # field types refer to renamed ADTs: a second pass for ADTs whose shape matches only after the first renames
    for m in [p for p in miss_a if p not in adt_ren.values()]:
        ra = ref['adts'][m]
        cands = [n for n in new_a if cur['adts'][n]['kind'] == ra['kind'] and _adt_shape(cur['adts'][n], adt_ren) == _adt_shape(ra)]
        same_mod = [n for n in cands if n.rsplit('::', 1)[0] == m.rsplit('::', 1)[0]]
        pick = same_mod if len(same_mod) == 1 else (cands if len(cands) == 1 else [])
        if len(pick) == 1:
            adt_ren[pick[0]] = m
            new_a.remove(pick[0])
    # --- functions ------------------------------------------------------------------------------------
    def canon(p):
        # path of a current item with renamed ADT segments mapped back
        for old, new in adt_ren.items():
            if p == old or p.startswith(old + '::'):
                return new + p[len(old):]
        return p
    cur_f = {canon(p): (p, f) for p, f in cur['fns'].items()}
    miss_f = [p for p, f in ref['fns'].items() if p not in cur_f and not f['exported']]
    new_f = [cp for cp, (p, f) in cur_f.items() if cp not in ref['fns'] and not f['exported']]
    fn_ren = {}
    # path prefix renames implied by ADT renames (methods of a renamed type keep their names)
    for cp, (p, f) in cur_f.items():
        if cp != p and cp in ref['fns']:
            fn_ren[p] = cp
    for _round in range(3):
        before = len(fn_ren)
        _match_fns(ref, cur_f, miss_f, new_f, adt_ren, fn_ren, canon)
        if len(fn_ren) == before:
            break
    return adt_ren, fn_ren


def _match_fns(ref, cur_f, miss_f, new_f, adt_ren, fn_ren, canon):
    done_m = set(fn_ren.values())
    done_n = set(fn_ren.keys())

    def canon_callee(k):
        k = canon(k)
        return fn_ren.get(k, k)
    pairs = []
    for m in miss_f:
        if m in done_m:
            continue
        rf = ref['fns'][m]
        for n in new_f:
            p, cf = cur_f[n]
            if p in done_n:
                continue
            if cf['kind'] != rf['kind'] and not ({cf['kind'], rf['kind']} <= {'Fn', 'AssocFn'}):
                continue
            ca = [_subst_ty(t, adt_ren) for t in cf['args']]
            cr = _subst_ty(cf['ret'], adt_ren)
            if sorted(ca) != sorted(rf['args']) or cr != rf['ret']:
                continue
            # callee profile: crate-local callees are compared after renames found so far (conservatively: by last segment too)
            cc = {canon_callee(k): v for k, v in cf['callees'].items()}
            score = 0.5 * _jacc(cc, rf['callees']) + 0.25 * _jacc(cf['aggs'], rf['aggs']) + 0.25 * _jacc(cf['fields'], rf['fields'])
            if m.rsplit('::', 1)[0] == n.rsplit('::', 1)[0]:
                score += 0.1          # same parent (a plain rename)
            if cf.get('file') == rf.get('file'):
                score += 0.05
            pairs.append((score, m, n))
    pairs.sort(reverse=True)
    used_m, used_n = set(), set()
    for score, m, n in pairs:
        if m in used_m or n in used_n:
            continue
        # unique best: no other candidate for m (or for n) within 0.1
        rivals = [s for s, m2, n2 in pairs if (m2 == m) != (n2 == n) and (m2 == m or n2 == n) and m2 not in used_m and n2 not in used_n and s > score - 0.1]
        if score >= 0.55 and not rivals:
            fn_ren[cur_f[n][0]] = m
            used_m.add(m)
            used_n.add(n)


def compute_fields(d, adt_ren):
    """Renamed non-public fields: {canonical adt path: {new field name: canonical field name}} (same type, unambiguous by type or position)."""
    ref = _load_ref()
    if ref is None:
        return {}
    out = {}
    inv = {v: k for k, v in adt_ren.items()}
    cur = {a['path']: a for a in d['adts']}
    for apath, ra in ref['adts'].items():
        ca = cur.get(inv.get(apath, apath))
        if ca is None or len(ca.get('variants', [])) != len(ra['variants']):
            continue
        for (vname, rfs), cv in zip(ra['variants'], ca['variants']):
            cfs = [[f.get('name'), _subst_ty(_norm_ty(f.get('ty')), adt_ren), f.get('vis')] for f in cv.get('fields', [])]
            rnames = [f_[0] for f_ in rfs]
            cnames = [f_[0] for f_ in cfs]
            missing = [f_ for f_ in rfs if f_[0] not in cnames]
            new = [f_ for f_ in cfs if f_[0] not in rnames]
            if not missing or len(missing) != len(new):
                continue
            for m in missing:
                if m[2] == 'pub' and ra['exported']:
                    continue            # a public field of an exported type is API
                same_ty = [n for n in new if n[1] == m[1]]
                pick = None
                if len(same_ty) == 1:
                    pick = same_ty[0]
                elif len(same_ty) > 1 and len(rfs) == len(cfs):
                    pos = rnames.index(m[0])
                    if cfs[pos] in same_ty:
                        pick = cfs[pos]
                if pick is not None:
                    out.setdefault(apath, {})[pick[0]] = m[0]
                    new.remove(pick)
    return out


def apply_fields(d, field_ren):
    def walk(x):
        if isinstance(x, list):
            for y in x:
                walk(y)
        elif isinstance(x, dict):
            if x.get('k') == 'field' and x.get('adt') in field_ren and x.get('n') in field_ren[x['adt']]:
                x['n'] = field_ren[x['adt']][x['n']]
            if x.get('k') == 'aggregate' and x.get('adt') and strip_generics(x['adt']) in field_ren and isinstance(x.get('fields'), list):
                m = field_ren[strip_generics(x['adt'])]
                x['fields'] = [m.get(n, n) for n in x['fields']]
            for v in x.values():
                walk(v)
    walk(d.get('bodies'))
    for a in d['adts']:
        m = field_ren.get(a['path'])
        if m:
            for v in a.get('variants', []):
                for f in v.get('fields', []):
                    if f.get('name') in m:
                        f['name'] = m[f['name']]
    return d


def _rewrite_string(s, seg_ren, full_ren):
    """seg_ren: list of (stripped old path, stripped new path) that differ in their last segment only or in a type segment;
    rewrite every occurrence of the old path inside `s` (paths in fact files carry generic argument lists, so the match is done on
    a generics-stripped view and applied segment-wise)."""
    if '::' not in s:
        return s
    out = s
    for old, new in full_ren:
        if old.rsplit('::', 1)[-1] not in out:
            continue
        os_, ns_ = old.split('::'), new.split('::')
        if len(os_) == len(ns_):
            # same depth: replace differing segments where the stripped string contains the old path
            if old in strip_generics(out) or old in out:      # (`m::<impl Trait for a::b::T>::f` keeps the type inside what strip_generics removes)
                # build a regex allowing generic args after any segment
                rx = r'(?<![A-Za-z0-9_])' + r'(?:::<[^()]*?>)?::'.join(re.escape(x) for x in os_) + r'(?![A-Za-z0-9_])'

                def repl(m, os_=os_, ns_=ns_):
                    txt = m.group(0)
                    for a, b in zip(os_, ns_):
                        if a != b:
                            txt = re.sub(r'(?<![A-Za-z0-9_])' + re.escape(a) + r'(?![A-Za-z0-9_])', b, txt, count=1)
                    return txt
                out = re.sub(rx, repl, out)
        else:
            if old in out:
                out = re.sub(r'(?<![A-Za-z0-9_:])' + re.escape(old) + r'(?![A-Za-z0-9_])', new, out)
    return out


def apply(d, adt_ren, fn_ren):
    """Rewrite every string of the fact structure."""
    full = sorted(list(adt_ren.items()) + list(fn_ren.items()), key=lambda kv: -len(kv[0]))
    segs = None

    def walk(x):
        if isinstance(x, str):
            return _rewrite_string(x, segs, full)
        if isinstance(x, list):
            return [walk(y) for y in x]
        if isinstance(x, dict):
            return {k: walk(v) for k, v in x.items()}
        return x
    return walk(d)


def normalise(d):
    adt_ren, fn_ren = compute(d)
    ren = {}
    if adt_ren or fn_ren:
        d = apply(d, adt_ren, fn_ren)
        ren.update(adt_ren)
        ren.update(fn_ren)
    fr = compute_fields(d, {})          # (ADT paths are canonical by now)
    if fr:
        d = apply_fields(d, fr)
        for a, m in fr.items():
            for new, old in m.items():
                ren['%s.%s' % (a, new)] = '%s.%s' % (a, old)
    return d, ren


if __name__ == '__main__':
    # regenerate the reference index from fact files of the pinned tree:  python3 -m analyzer.rolemap <facts.json> [...]
    import sys
    merged = {'fns': {}, 'adts': {}}
    for p in sys.argv[1:]:
        with open(p) as f:
            idx = index_of(json.load(f))
        for k in ('fns', 'adts'):
            for name, v in idx[k].items():
                merged[k].setdefault(name, v)
    with open(REF, 'w') as f:
        json.dump(merged, f, indent=0, sort_keys=True)
    print('reference index: %d functions, %d ADTs' % (len(merged['fns']), len(merged['adts'])))
