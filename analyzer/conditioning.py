"""Translation-conditioning analysis of straight-line geometric kernels.

For a kernel whose result is translation invariant (a volume, an area, a determinant of differences) the rounding
error stays proportional to the size of the cell only if absolute coordinates are never multiplied with one another:
every multiplicative operation must have operands whose total degree in a common translation tau of all input points
is at most 1.  The analysis substitutes p -> p + tau*u for every input point of the kernel, and computes, for every
multiplicative operation the abstract interpreter met (scalar Mul, glam mul/dot/cross/determinant/length^2/...), the
sum of the tau-degrees of its operands.  This is a property of the *operation sequence* (evaluation order), which the
algebraic normal form of the result cannot see: two algebraically identical kernels can differ in it."""
from . import interp as I, nf
from .nf import RF, as_rf
from .tables import deref

TAU = nf.sym_atom('tau')


def shifted(names):
    """Mapping input symbol -> symbol + tau*u_symbol for the given point coordinate symbols."""
    mp = {}
    for n in names:
        mp[nf.sym_atom(n)] = RF.sym(n) + RF.atom(TAU) * RF.sym('u.' + n.rsplit('.', 1)[-1])
    return mp


def poly_degree(p):
    d = 0
    for mono in p:
        e = sum(ex for aid, ex in mono if aid == TAU.id)
        d = max(d, e)
    return d


def tau_degree(v, mp):
    """Degree in tau of a scalar normal form after shifting the inputs (numerator minus denominator degree)."""
    v = as_rf(v)
    s = I.subst(v, mp)
    s = as_rf(s)
    return poly_degree(s.num) - poly_degree(s.den)


def value_degree(x, mp):
    x = deref(x)
    if isinstance(x, RF):
        return tau_degree(x, mp)
    if isinstance(x, I.St):
        ds = [value_degree(f, mp) for f in x.fields.values()]
        return max(ds) if ds else 0
    if isinstance(x, I.Ite):
        return max(value_degree(x.a, mp), value_degree(x.b, mp))
    return 0


def operation_degree(callee, operands, mp):
    """Upper bound of the tau-degree of the products formed inside one multiplicative operation."""
    ds = [value_degree(o, mp) for o in operands]
    name = callee.rsplit('::', 1)[-1]
    if name in ('length_squared', 'length', 'normalize'):
        return 2 * ds[0]
    if name in ('distance_squared', 'distance'):
        a, b = deref(operands[0]), deref(operands[1])
        try:
            from .tables import c3
            d = max(tau_degree(x - y, mp) for x, y in zip(c3(a), c3(b)))
        except Exception:
            d = max(ds)
        return 2 * d
    if name == 'determinant':
        m = deref(operands[0])
        cols = [value_degree(c, mp) for c in m.fields.values()] if isinstance(m, I.St) else ds
        return sum(cols)
    if name == 'project_onto':
        return ds[0] + 2 * ds[1] if len(ds) > 1 else ds[0]
    if name == 'powi':
        return ds[0] * 2
    return sum(ds[:2]) if len(ds) >= 2 else ds[0]


def analyse(F, body, args, point_symbols, no_inline=()):
    """Evaluate `body` on `args`; -> (result, [(degree, callee, line, body path)] for multiplicative operations of degree >= 2)."""
    ip = I.Interp(F, no_inline=no_inline)
    ip.track_products = True
    ip.unroll_limit = 8
    v, _ = ip.call_body(body, args)
    mp = shifted(point_symbols)
    out = []
    maxd = 0
    for callee, line, ops, b in ip.products:
        d = operation_degree(callee, ops, mp)
        maxd = max(maxd, d)
        if d >= 2:
            out.append((d, callee, line, b['path'] if b else None))
    return v, out, maxd, len(ip.products), ip
