#!/usr/bin/env python3
"""Pretty-printer for fact files (debugging aid): mirpp.py <facts.json> <body-path-substring>..."""
import json, sys

def P(p):
    s = '_%d' % p['l']
    for e in p['p']:
        k = e['k']
        if k == 'deref': s = '(*%s)' % s
        elif k == 'field': s += '.' + str(e.get('n', e['i']))
        elif k == 'index': s += '[_%d]' % e['l']
        elif k == 'cindex': s += '[%d]' % e['off']
        elif k == 'downcast': s += ' as ' + e.get('n', '?')
        else: s += '<' + k + '>'
    return s

def O(o):
    if o['k'] in ('copy', 'move'): return ('mv ' if o['k'] == 'move' else '') + P(o['place'])
    if o['k'] == 'const':
        for k in ('fn', 'closure', 'int', 'bool', 'float_bits', 'bytes', 'item', 'text'):
            if k in o: return 'const %s=%s:%s' % (k, o[k], o['ty'])
    return str(o)

def R(r):
    k = r['k']
    if k == 'use': return O(r['x'])
    if k == 'binop': return '%s(%s, %s)' % (r['op'], O(r['l']), O(r['r']))
    if k == 'unop': return '%s(%s)' % (r['op'], O(r['x']))
    if k == 'ref': return '&%s%s' % ('mut ' if r['mut'] else '', P(r['place']))
    if k == 'aggregate':
        head = r.get('adt', '') + '::' + r.get('variant', '') if r['agg'] == 'adt' else r.get('closure', r['agg'])
        return '%s{%s}' % (head, ', '.join(O(x) for x in r['ops']))
    if k == 'cast': return 'cast<%s>(%s) as %s' % (r['kind'], O(r['x']), r['ty'])
    if k == 'discr': return 'discr(%s)' % P(r['place'])
    if k == 'repeat': return '[%s; %s]' % (O(r['x']), r['n'])
    return str(r)

def show(b):
    print('==', b['path'], b.get('sig'), 'args', b['arg_count'], b['file'], b['line'])
    for u in b.get('upvars', []): print('   upvar', u)
    for i, l in enumerate(b['locals']): print('   _%d: %s' % (i, l['ty']))
    for bl in b['blocks']:
        print(' bb%d%s:' % (bl['id'], ' (cleanup)' if bl['cleanup'] else ''))
        for s in bl['stmts']:
            if s['k'] == 'assign': print('    %s = %s   // L%d' % (P(s['place']), R(s['rv']), s['line']))
            else: print('   ', s)
        t = bl['term']
        if t['k'] == 'call':
            print('    %s = CALL %s [%s] (%s) -> bb%s unwind %s // L%d resolved=%s' % (
                P(t['dest']), t.get('callee'), ','.join(t.get('substs', [])),
                ', '.join(O(a) for a in t['args']), t['target'], t['unwind'], t['line'], t.get('resolved')))
        elif t['k'] == 'switch':
            print('    SWITCH %s %s else bb%d' % (O(t['discr']), t['targets'], t['otherwise']))
        elif t['k'] == 'drop':
            print('    DROP %s -> bb%s unwind %s' % (P(t['place']), t['target'], t['unwind']))
        elif t['k'] == 'assert':
            print('    ASSERT %s == %s (%s) -> bb%s' % (O(t['cond']), t['expected'], t['msg'], t['target']))
        else:
            print('   ', {k: v for k, v in t.items() if k not in ('expn',)})

if __name__ == '__main__':
    d = json.load(open(sys.argv[1]))
    for b in d['bodies']:
        if any(n in b['path'] for n in sys.argv[2:]):
            show(b)
