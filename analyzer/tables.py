"""E4 library semantics tables (trusted base, DESIGN §4 / Appendix B).

Each handler gives the abstract result of a dependency function in terms of normal forms.
Sources: glam-0.27 f64/dvec3.rs, dvec4.rs, dmat3.rs, dmat4.rs; core f64; alloc Vec; core Option;
big-integer crates (exact ring operations)."""
import re
from fractions import Fraction
from . import nf
from .nf import RF, as_rf
from . import interp as I
from .facts import strip_generics


def deref(v):
    while isinstance(v, I.Ref):
        v = I.read_lv(v.lv)
    return v


def comps(v, names):
    v = deref(v)
    if isinstance(v, I.Ite):
        a = comps(v.a, names)
        b = comps(v.b, names)
        return [I.ite(v.c, x, y) for x, y in zip(a, b)]
    return [as_rf(I.get_field(v, n, 'f64')) for n in names]


def c3(v):
    return comps(v, 'xyz')


def c4(v):
    return comps(v, 'xyzw')


def V3(x, y, z):
    return I.vec3(x, y, z)


def V4(x, y, z, w):
    return I.St('glam::DVec4', 'DVec4', {'x': as_rf(x), 'y': as_rf(y), 'z': as_rf(z), 'w': as_rf(w)})


def dot3(a, b):
    return a[0] * b[0] + a[1] * b[1] + a[2] * b[2]


def cross3(a, b):
    return [a[1] * b[2] - b[1] * a[2], a[2] * b[0] - b[2] * a[0], a[0] * b[1] - b[0] * a[1]]


def det3(c0, c1, c2):
    # glam DMat3::determinant = z_axis . (x_axis x y_axis)
    return dot3(c2, cross3(c0, c1))


def det4(cols):
    # Leibniz/cofactor expansion along the first column of the matrix with the given columns
    m = [[cols[j][i] for j in range(4)] for i in range(4)]  # m[row][col]

    def minor3(rows, colsel):
        a = [[m[r][c] for c in colsel] for r in rows]
        return (a[0][0] * (a[1][1] * a[2][2] - a[1][2] * a[2][1])
                - a[0][1] * (a[1][0] * a[2][2] - a[1][2] * a[2][0])
                + a[0][2] * (a[1][0] * a[2][1] - a[1][1] * a[2][0]))
    tot = RF.const(0)
    for r in range(4):
        rows = [x for x in range(4) if x != r]
        term = m[r][0] * minor3(rows, [1, 2, 3])
        tot = tot + (term if r % 2 == 0 else -term)
    return tot


H = {}      # exact callee -> handler
RX = []     # (regex, handler)


def reg(*names):
    def d(f):
        for n in names:
            H[n] = f
        return f
    return d


def regx(pattern):
    def d(f):
        RX.append((re.compile(pattern), f))
        return f
    return d


def lookup(callee, t):
    h = H.get(callee)
    if h is not None:
        return h
    for rx, f in RX:
        if rx.search(callee):
            return f
    return None


# --- glam DVec3 ----------------------------------------------------------------------
def _vecop(fn):
    def h(ip, st, t, a, rt):
        x, y = a
        if fn is _div and nf.DIV_LOG is not None:
            try:
                for q in ([as_rf(deref(y))] if isinstance(deref(y), RF) else c3(y)):
                    nf.log_div(q, getattr(st, 'guard', ()))
            except (TypeError, KeyError, I.AnalysisIncomplete):
                pass
        isv = lambda v: not isinstance(deref(v), RF)
        if isv(x) and isv(y):
            p, q = c3(x), c3(y)
            return V3(*[fn(p[i], q[i]) for i in range(3)])
        if isv(x):
            p = c3(x)
            s = as_rf(deref(y))
            return V3(*[fn(p[i], s) for i in range(3)])
        s = as_rf(deref(x))
        q = c3(y)
        return V3(*[fn(s, q[i]) for i in range(3)])
    return h


def _div(a, b):
    if b.is_zero():
        return nf.fn_app('div0', a)
    return a / b


H['<glam::DVec3 as std::ops::Add>::add'] = _vecop(lambda a, b: a + b)
def _sub(a, b):
    nf.log_cancel(a, b, True)
    return a - b


H['<glam::DVec3 as std::ops::Sub>::sub'] = _vecop(_sub)
H['<glam::DVec3 as std::ops::Mul>::mul'] = _vecop(lambda a, b: a * b)
H['<glam::DVec3 as std::ops::Div>::div'] = _vecop(_div)
H['<glam::DVec3 as std::ops::Mul<f64>>::mul'] = _vecop(lambda a, b: a * b)
H['<glam::DVec3 as std::ops::Div<f64>>::div'] = _vecop(_div)
H['glam::f64::dvec3::<impl std::ops::Mul<glam::DVec3> for f64>::mul'] = _vecop(lambda a, b: a * b)
H['glam::f64::dvec3::<impl std::ops::Div<glam::DVec3> for f64>::div'] = _vecop(_div)
H['<glam::DVec3 as std::ops::Add<f64>>::add'] = _vecop(lambda a, b: a + b)
H['<glam::DVec3 as std::ops::Sub<f64>>::sub'] = _vecop(lambda a, b: a - b)


def _assignop(fn):
    inner = _vecop(fn)

    def h(ip, st, t, a, rt):
        ref = a[0]
        new = inner(ip, st, t, [ref, a[1]], rt)
        I.write_lv(ref.lv, new)
        return I.tup()
    return h


H['<glam::DVec3 as std::ops::AddAssign>::add_assign'] = _assignop(lambda a, b: a + b)
H['<glam::DVec3 as std::ops::SubAssign>::sub_assign'] = _assignop(lambda a, b: a - b)
H['<glam::DVec3 as std::ops::MulAssign<f64>>::mul_assign'] = _assignop(lambda a, b: a * b)
H['<glam::DVec3 as std::ops::DivAssign<f64>>::div_assign'] = _assignop(_div)
H['<glam::DVec3 as std::ops::MulAssign>::mul_assign'] = _assignop(lambda a, b: a * b)


@reg('<glam::DVec3 as std::ops::Neg>::neg')
def _neg(ip, st, t, a, rt):
    return V3(*[-x for x in c3(a[0])])


@reg('glam::DVec3::new')
def _new(ip, st, t, a, rt):
    return V3(*[as_rf(x) for x in a])


@reg('glam::DVec3::splat')
def _splat(ip, st, t, a, rt):
    return V3(a[0], a[0], a[0])


@reg('glam::DVec3::from_array')
def _from_array(ip, st, t, a, rt):
    v = deref(a[0])
    return V3(*[as_rf(I.get_index(v, RF.const(i), 'f64')) for i in range(3)])


@reg('glam::DVec3::to_array')
def _to_array(ip, st, t, a, rt):
    return I.arr(c3(a[0]))


@reg('glam::DVec3::dot')
def _dot(ip, st, t, a, rt):
    return dot3(c3(a[0]), c3(a[1]))


@reg('glam::DVec3::cross')
def _cross(ip, st, t, a, rt):
    return V3(*cross3(c3(a[0]), c3(a[1])))


@reg('glam::DVec3::length_squared')
def _len2(ip, st, t, a, rt):
    p = c3(a[0])
    return dot3(p, p)


@reg('glam::DVec3::length')
def _len(ip, st, t, a, rt):
    p = c3(a[0])
    return nf.fn_sqrt(dot3(p, p))


@reg('glam::DVec3::distance_squared')
def _dist2(ip, st, t, a, rt):
    p, q = c3(a[0]), c3(a[1])
    d = [p[i] - q[i] for i in range(3)]
    return dot3(d, d)


@reg('glam::DVec3::distance')
def _dist(ip, st, t, a, rt):
    p, q = c3(a[0]), c3(a[1])
    d = [p[i] - q[i] for i in range(3)]
    return nf.fn_sqrt(dot3(d, d))


@reg('glam::DVec3::normalize')
def _normalize(ip, st, t, a, rt):
    p = c3(a[0])
    l = nf.fn_sqrt(dot3(p, p))
    nf.log_div(l, getattr(st, 'guard', ()))
    return V3(*[x / l for x in p])


@reg('glam::DVec3::project_onto')
def _project_onto(ip, st, t, a, rt):
    p, r = c3(a[0]), c3(a[1])
    k = dot3(p, r) / dot3(r, r)
    return V3(*[x * k for x in r])


@reg('glam::DVec3::lerp')
def _lerp(ip, st, t, a, rt):
    p, q = c3(a[0]), c3(a[1])
    s = as_rf(a[2])
    return V3(*[p[i] + (q[i] - p[i]) * s for i in range(3)])


@reg('glam::DVec3::abs')
def _abs(ip, st, t, a, rt):
    return V3(*[nf.fn_abs(x) for x in c3(a[0])])


@reg('glam::DVec3::min')
def _vmin(ip, st, t, a, rt):
    p, q = c3(a[0]), c3(a[1])
    return V3(*[nf.fn_min(p[i], q[i]) for i in range(3)])


@reg('glam::DVec3::max')
def _vmax(ip, st, t, a, rt):
    p, q = c3(a[0]), c3(a[1])
    return V3(*[nf.fn_max(p[i], q[i]) for i in range(3)])


@reg('glam::DVec3::clamp')
def _vclamp(ip, st, t, a, rt):
    p, lo, hi = c3(a[0]), c3(a[1]), c3(a[2])
    return V3(*[nf.fn_min(nf.fn_max(p[i], lo[i]), hi[i]) for i in range(3)])


@reg('glam::DVec3::min_element')
def _minel(ip, st, t, a, rt):
    p = c3(a[0])
    return nf.fn_min(nf.fn_min(p[0], p[1]), p[2])


@reg('glam::DVec3::ceil')
def _ceil(ip, st, t, a, rt):
    return V3(*[nf.fn_app('ceil', x) for x in c3(a[0])])


@reg('glam::DVec3::as_uvec3')
def _as_uvec3(ip, st, t, a, rt):
    p = c3(a[0])
    return I.St('glam::UVec3', 'UVec3', {'x': nf.fn_app('trunc', p[0]), 'y': nf.fn_app('trunc', p[1]), 'z': nf.fn_app('trunc', p[2])})


@reg('glam::UVec3::as_ivec3', 'glam::IVec3::as_uvec3')
def _as_ivec3(ip, st, t, a, rt):
    """Integer-to-integer component casts (glam u32/uvec3.rs `as_ivec3`: `self.x as i32, ..`): the integer model has no width, like `as` between integers."""
    v = deref(a[0])
    to = 'IVec3' if 'as_ivec3' in (t.get('callee') or '') else 'UVec3'
    ety = 'i32' if to == 'IVec3' else 'u32'
    return I.St('glam::' + to, to, {c: as_rf(I.get_field(v, c, ety)) for c in 'xyz'})


@reg('glam::DVec3::extend')
def _extend(ip, st, t, a, rt):
    p = c3(a[0])
    return V4(p[0], p[1], p[2], as_rf(a[1]))


# glam-0.27 bool/bvec3.rs, f64/dvec3.rs:94 — component selection (moves values, computes nothing)
def _bvec3(v):
    """-> [B, B, B] of a BVec3 value, or None"""
    v = deref(v)
    if isinstance(v, I.St) and v.adt == 'glam::BVec3':
        return [v.fields[k] for k in 'xyz']
    if isinstance(v, I.Sym) and v.atom.kind == 'sym':
        nm = str(v.atom.name)
        if nm.endswith('glam::BVec3::TRUE'):
            return [I.TRUE] * 3
        if nm.endswith('glam::BVec3::FALSE'):
            return [I.FALSE] * 3
    return None


@reg('glam::BVec3::new')
def _bvec3_new(ip, st, t, a, rt):
    bs = []
    for x in a:
        x = deref(x)
        if isinstance(x, bool):
            x = I.b_const(x)
        if not isinstance(x, I.B):
            return NotImplemented
        bs.append(x)
    return I.St('glam::BVec3', 'BVec3', dict(zip('xyz', bs)))


@reg('glam::BVec3::splat')
def _bvec3_splat(ip, st, t, a, rt):
    x = deref(a[0])
    if not isinstance(x, I.B):
        return NotImplemented
    return I.St('glam::BVec3', 'BVec3', {'x': x, 'y': x, 'z': x})


@reg('glam::DVec3::select')
def _vselect(ip, st, t, a, rt):
    m = _bvec3(a[0])
    if m is None:
        return NotImplemented
    p, q = c3(a[1]), c3(a[2])
    return V3(*[I.ite(m[i], p[i], q[i]) for i in range(3)])


@reg('<glam::DVec3 as std::ops::Index<usize>>::index', '<glam::DVec3 as std::ops::IndexMut<usize>>::index_mut')
def _v3_index(ip, st, t, a, rt):
    """v[i] for a constant i: the component x / y / z (glam f64/dvec3.rs Index impl: 0, 1, 2; anything else panics)."""
    ref, idx = a[0], a[1]
    if not (isinstance(idx, RF) and idx.is_const()):
        return NotImplemented
    k = int(idx.const_value())
    if k not in (0, 1, 2):
        raise I.Diverge()
    name = 'xyz'[k]
    if isinstance(ref, I.Ref):
        return I.Ref(I.LV(ref.lv.cell, ref.lv.path + (('f', name, 'f64', k),)), 'index_mut' in (t.get('callee') or ''))
    return c3(ref)[k]


@reg('<glam::DVec3 as std::default::Default>::default')
def _vdefault(ip, st, t, a, rt):
    return V3(0, 0, 0)


def _vec4op(fn):
    def h(ip, st, t, a, rt):
        p, q = c4(a[0]), c4(a[1])
        return V4(*[fn(p[i], q[i]) for i in range(4)])
    return h


H['<glam::DVec4 as std::ops::Add>::add'] = _vec4op(lambda a, b: a + b)
H['<glam::DVec4 as std::ops::Sub>::sub'] = _vec4op(lambda a, b: a - b)
H['<glam::DVec4 as std::ops::Mul>::mul'] = _vec4op(lambda a, b: a * b)


@reg('glam::DMat3::from_cols')
def _m3(ip, st, t, a, rt):
    return I.St('glam::DMat3', 'DMat3', {'x_axis': deref(a[0]), 'y_axis': deref(a[1]), 'z_axis': deref(a[2])})


@reg('glam::DMat3::determinant')
def _m3det(ip, st, t, a, rt):
    m = deref(a[0])
    cs = [c3(I.get_field(m, n)) for n in ('x_axis', 'y_axis', 'z_axis')]
    return det3(*cs)


@reg('glam::DMat4::from_cols')
def _m4(ip, st, t, a, rt):
    return I.St('glam::DMat4', 'DMat4', {'x_axis': deref(a[0]), 'y_axis': deref(a[1]), 'z_axis': deref(a[2]), 'w_axis': deref(a[3])})


@reg('glam::DMat4::determinant')
def _m4det(ip, st, t, a, rt):
    m = deref(a[0])
    cs = [c4(I.get_field(m, n)) for n in ('x_axis', 'y_axis', 'z_axis', 'w_axis')]
    return det4(cs)


# --- f64 -------------------------------------------------------------------------------
@reg('std::f64::<impl f64>::sqrt', 'core::f64::<impl f64>::sqrt')
def _sqrt(ip, st, t, a, rt):
    return nf.fn_sqrt(a[0])


@reg('core::f64::<impl f64>::abs', 'std::f64::<impl f64>::abs')
def _fabs(ip, st, t, a, rt):
    return nf.fn_abs(a[0])


@reg('core::f64::<impl f64>::signum', 'std::f64::<impl f64>::signum')
def _signum(ip, st, t, a, rt):
    return nf.fn_signum(a[0])


@reg('core::f64::<impl f64>::min')
def _fmin(ip, st, t, a, rt):
    return nf.fn_min(a[0], a[1])


@reg('core::f64::<impl f64>::max')
def _fmax(ip, st, t, a, rt):
    return nf.fn_max(a[0], a[1])


@reg('core::f64::<impl f64>::clamp')
def _fclamp(ip, st, t, a, rt):
    return nf.fn_min(nf.fn_max(a[0], a[1]), a[2])


@reg('core::f64::<impl f64>::recip')
def _recip(ip, st, t, a, rt):
    nf.log_div(as_rf(a[0]), getattr(st, 'guard', ()))
    return RF.const(1) / as_rf(a[0])


@reg('std::f64::<impl f64>::floor')
def _floor(ip, st, t, a, rt):
    return nf.fn_app('floor', a[0])


@reg('std::f64::<impl f64>::ceil')
def _fceil(ip, st, t, a, rt):
    return nf.fn_app('ceil', a[0])


@reg('core::f64::<impl f64>::to_bits')
def _to_bits(ip, st, t, a, rt):
    return nf.fn_app('to_bits', a[0])


@reg('core::f64::<impl f64>::is_finite')
def _is_finite(ip, st, t, a, rt):
    return I.B('atom', nf.app_atom('is_finite', as_rf(a[0])))


@reg('std::f64::<impl f64>::powi')
def _powi(ip, st, t, a, rt):
    n = as_rf(a[1])
    if n.is_const() and 0 <= n.const_value() <= 8:
        return as_rf(a[0]) ** int(n.const_value())
    return nf.fn_app('powi', a[0], n)


@reg('<f64 as std::default::Default>::default', '<usize as std::default::Default>::default')
def _zero(ip, st, t, a, rt):
    return RF.const(0)


# --- clones, conversions -----------------------------------------------------------------
_DERIVED = {}


def _is_derived(ip, body):
    """A crate-local trait impl produced by `#[derive(..)]`: its span is the derive attribute (possibly spread over several lines), never a `fn` item."""
    key = (body.get('file'), body.get('line'))
    if key not in _DERIVED:
        ok = False
        try:
            import os as _os
            with open(_os.path.join(_os.environ.get('MV_REPO', '/repo'), body['file'])) as f:
                src = f.read().split('\n')
            ln = body['line']
            here = src[ln - 1]
            if not re.search(r'\bfn\b', here):
                for k in range(ln - 1, max(-1, ln - 10), -1):
                    if 'derive(' in src[k]:
                        ok = True
                        break
                    if re.search(r'\b(struct|enum|fn|impl)\b', src[k]) and k != ln - 1:
                        break
        except (OSError, KeyError, IndexError, TypeError):
            ok = False
        _DERIVED[key] = ok
    return _DERIVED[key]


@regx(r'^(<.* as std::clone::Clone>::clone|std::clone::Clone::clone|std::clone::impls::<impl std::clone::Clone for .*>::clone|std::array::<impl std::clone::Clone for \[T; N\]>::clone)$')
def _clone(ip, st, t, a, rt):
    callee = t.get('resolved') or t.get('callee')
    # crate-local Clone impls have bodies: a derived one copies field by field (interpreting it is equivalent to copying); a hand-written one is
    # code like any other and is evaluated (a Clone that drops a field is a way to lose a cell's safety radius)
    bs = ip.facts.by_path.get(callee) if callee else None
    if bs and not _is_derived(ip, bs[0]):
        return NotImplemented
    return deref(a[0])


@reg('<T as std::convert::Into<U>>::into', '<T as std::convert::From<T>>::from')
def _into(ip, st, t, a, rt):
    v = a[0]
    if isinstance(v, RF):
        return v
    # `x.into()` through core's blanket impl: the crate's own `impl From<X> for Y` (e.g. the derived Dimensionality -> usize) is the conversion
    src = deref(v)
    adt = src.adt if isinstance(src, I.St) and isinstance(src.adt, str) else None
    if adt and rt:
        want = 'impl std::convert::From<%s> for %s>::from' % (adt, str(rt).strip())
        cands = [p_ for p_ in ip.facts.by_path if p_.endswith(want)]
        if len(cands) == 1:
            return ip.call_path(cands[0], [src], rt, st, t)
    return NotImplemented


@reg('<std::vec::Vec<T, A> as std::ops::Deref>::deref', '<std::vec::Vec<T, A> as std::ops::DerefMut>::deref_mut',
     '<std::vec::Vec<T, A> as std::convert::AsRef<[T]>>::as_ref', 'std::vec::Vec::<T, A>::as_slice',
     'std::vec::Vec::<T, A>::as_mut_slice', '<std::boxed::Box<T, A> as std::ops::Deref>::deref')
def _vderef(ip, st, t, a, rt):
    return a[0]


@reg('<std::vec::Vec<T, A> as std::ops::Index<I>>::index', 'core::slice::index::<impl std::ops::Index<I> for [T]>::index',
     '<std::vec::Vec<T, A> as std::ops::IndexMut<I>>::index_mut', 'core::slice::index::<impl std::ops::IndexMut<I> for [T]>::index_mut')
def _vindex(ip, st, t, a, rt):
    ref = a[0]
    idx = a[1]
    if not isinstance(idx, RF):
        return NotImplemented    # range indexing
    ety = rt.strip()
    for pre in ('&mut ', '&'):
        if ety.startswith(pre):
            ety = ety[len(pre):]
    if isinstance(ref, I.Ref):
        lv = I.LV(ref.lv.cell, ref.lv.path + (('i', idx, ety),))
        return I.Ref(lv, 'mut' in (t.get('callee') or ''))
    v = I.get_index(ref, idx, ety)
    return v


@reg('std::vec::Vec::<T, A>::len', 'core::slice::<impl [T]>::len')
def _vlen(ip, st, t, a, rt):
    return ip.length_of(a[0])


@reg('std::vec::Vec::<T>::new')
def _vnew(ip, st, t, a, rt):
    return I.St('array', None, {})


# --- Option --------------------------------------------------------------------------------
def opt_parts(v):
    """-> ('some', payload) | ('none', None) | ('sym', Sym) | ('ite', Ite)"""
    v = deref(v)
    if isinstance(v, I.St) and v.adt == 'std::option::Option':
        return ('some', v.fields[0]) if v.variant == 'Some' else ('none', None)
    if isinstance(v, I.Ite):
        return ('ite', v)
    return ('sym', v)


def opt_is_some(v):
    k, p = opt_parts(v)
    if k == 'some':
        return I.TRUE
    if k == 'none':
        return I.FALSE
    if k == 'ite':
        return I.ite(p.c, opt_is_some(p.a), opt_is_some(p.b))
    return I.B('atom', nf.app_atom('is_some', I.frozen(p)))


def opt_inner_ty(v):
    v = deref(v)
    t = getattr(v, 'ty', None)
    if isinstance(t, str):
        t = t.strip()
        for pre in ('&mut ', '&'):
            if t.startswith(pre):
                t = t[len(pre):]
        if t.startswith('std::option::Option<') and t.endswith('>'):
            return t[len('std::option::Option<'):-1]
    return '?'


def opt_payload(v, ty='?'):
    k, p = opt_parts(v)
    if ty in (None, '?'):
        ty = opt_inner_ty(v)
    if k == 'some':
        return p
    if k == 'ite':
        # unwrapping None diverges: only the arms that are (or may be) Some contribute a payload
        ka, kb = opt_parts(p.a)[0], opt_parts(p.b)[0]
        if kb == 'none' and ka != 'none':
            return opt_payload(p.a, ty)
        if ka == 'none' and kb != 'none':
            return opt_payload(p.b, ty)
        return I.ite(p.c, opt_payload(p.a, ty), opt_payload(p.b, ty))
    if k == 'sym' and isinstance(p, I.Sym):
        return I.get_field(I.downcast(p, 'Some'), 0, ty)
    raise I.AnalysisIncomplete('payload of None')


def res_is_ok(v):
    """Result::is_ok as the discriminant test the `match` form compiles to (Ok = 0, Err = 1)."""
    v = deref(v)
    if isinstance(v, I.St) and v.adt == 'std::result::Result':
        return I.TRUE if v.variant == 'Ok' else I.FALSE
    if isinstance(v, I.Ite):
        return I.ite(v.c, res_is_ok(v.a), res_is_ok(v.b))
    if isinstance(v, I.Sym):
        return I.b_cmp('==', RF.atom(I.discr_atom(v)), RF.const(0))
    raise I.AnalysisIncomplete('Result::is_ok of %r' % (v,))


@reg('std::result::Result::<T, E>::is_ok')
def _res_is_ok(ip, st, t, a, rt):
    return res_is_ok(a[0])


@reg('std::result::Result::<T, E>::is_err')
def _res_is_err(ip, st, t, a, rt):
    return I.b_not(res_is_ok(a[0]))


@reg('std::option::Option::<T>::is_some')
def _is_some(ip, st, t, a, rt):
    return opt_is_some(a[0])


@reg('std::option::Option::<T>::is_none')
def _is_none(ip, st, t, a, rt):
    return I.b_not(opt_is_some(a[0]))


@reg('std::option::Option::<T>::expect', 'std::option::Option::<T>::unwrap', 'std::option::Option::<T>::unwrap_unchecked',
     'std::result::Result::<T, E>::expect', 'std::result::Result::<T, E>::unwrap')
def _expect(ip, st, t, a, rt):
    v = deref(a[0])
    k, p = opt_parts(v)
    if k == 'none':
        raise I.Diverge()
    if k == 'sym' and not isinstance(p, I.Sym):
        return p
    if k == 'sym':
        at = nf.app_atom('unwrap', I.frozen(p))
        return I.mk_sym(at, rt)
    return opt_payload(v, rt)


@reg('std::option::Option::<T>::as_ref', 'std::option::Option::<T>::as_mut')
def _as_ref(ip, st, t, a, rt):
    # Option<&T> from &Option<T>: the abstraction keeps the same option value
    return deref(a[0])


@reg('std::option::Option::<T>::map_or')
def _map_or(ip, st, t, a, rt):
    o, dflt, f = a
    k, p = opt_parts(o)
    if k == 'none':
        return dflt
    if k == 'some':
        return call_fn_value(ip, f, [p], rt)
    if k == 'sym':
        payload = opt_payload(o, '?')
        r = call_fn_value(ip, f, [payload], rt)
        return I.ite(opt_is_some(o), r, dflt)
    if k == 'ite':
        return I.ite(p.c, _map_or(ip, st, t, [p.a, dflt, f], rt), _map_or(ip, st, t, [p.b, dflt, f], rt))
    return NotImplemented


@reg('std::option::Option::<T>::map')
def _map(ip, st, t, a, rt):
    o, f = a
    k, p = opt_parts(o)
    if k == 'none':
        return I.NONE
    if k == 'some':
        return I.some(call_fn_value(ip, f, [p], '?'))
    if k == 'sym' and isinstance(p, I.Sym):
        payload = opt_payload(o, '?')
        r = call_fn_value(ip, f, [payload], '?')
        return I.ite(opt_is_some(o), I.some(r), I.NONE)
    if k == 'ite':
        return I.ite(p.c, _map(ip, st, t, [p.a, f], rt), _map(ip, st, t, [p.b, f], rt))
    return NotImplemented


@reg('std::option::Option::<T>::is_some_and')
def _is_some_and(ip, st, t, a, rt):
    o, f = a
    k, p = opt_parts(o)
    if k == 'none':
        return I.FALSE
    if k == 'some':
        return call_fn_value(ip, f, [p], 'bool')
    if k == 'sym':
        payload = opt_payload(o, '?')
        r = call_fn_value(ip, f, [payload], 'bool')
        if isinstance(r, I.B):
            return I.b_and(opt_is_some(o), r)
        return I.ite(opt_is_some(o), r, I.FALSE)
    if k == 'ite':
        return I.ite(p.c, _is_some_and(ip, st, t, [p.a, f], rt), _is_some_and(ip, st, t, [p.b, f], rt))
    return NotImplemented


@reg('std::option::Option::<T>::is_none_or')
def _is_none_or(ip, st, t, a, rt):
    o, f = a
    k, p = opt_parts(o)
    if k == 'none':
        return I.TRUE
    if k == 'some':
        return call_fn_value(ip, f, [p], 'bool')
    if k == 'sym':
        payload = opt_payload(o, '?')
        r = call_fn_value(ip, f, [payload], 'bool')
        if isinstance(r, I.B):
            return I.b_or(I.b_not(opt_is_some(o)), r)
    return NotImplemented


@reg('std::option::Option::<T>::map_or_else')
def _map_or_else(ip, st, t, a, rt):
    o, dflt, f = a
    k, p = opt_parts(o)
    if k == 'none':
        return call_fn_value(ip, dflt, [], rt)
    if k == 'some':
        return call_fn_value(ip, f, [p], rt)
    if k == 'sym':
        payload = opt_payload(o, '?')
        r = call_fn_value(ip, f, [payload], rt)
        d = call_fn_value(ip, dflt, [], rt)
        return I.ite(opt_is_some(o), r, d)
    if k == 'ite':
        return I.ite(p.c, _map_or_else(ip, st, t, [p.a, dflt, f], rt), _map_or_else(ip, st, t, [p.b, dflt, f], rt))
    return NotImplemented


@reg('std::option::Option::<T>::unwrap_or_else')
def _unwrap_or_else(ip, st, t, a, rt):
    o, dflt = a
    k, p = opt_parts(o)
    if k == 'none':
        return call_fn_value(ip, dflt, [], rt)
    if k == 'some':
        return p
    if k == 'sym':
        return I.ite(opt_is_some(o), opt_payload(o, rt), call_fn_value(ip, dflt, [], rt))
    if k == 'ite':
        return I.ite(p.c, _unwrap_or_else(ip, st, t, [p.a, dflt], rt), _unwrap_or_else(ip, st, t, [p.b, dflt], rt))
    return NotImplemented


@reg('std::option::Option::<T>::unwrap_or')
def _unwrap_or(ip, st, t, a, rt):
    o, dflt = a
    k, p = opt_parts(o)
    if k == 'none':
        return dflt
    if k == 'some':
        return p
    if k == 'sym':
        return I.ite(opt_is_some(o), opt_payload(o, rt), dflt)
    if k == 'ite':
        return I.ite(p.c, _unwrap_or(ip, st, t, [p.a, dflt], rt), _unwrap_or(ip, st, t, [p.b, dflt], rt))
    return NotImplemented


@reg('std::mem::replace', 'core::mem::replace')
def _mem_replace(ip, st, t, a, rt):
    if not isinstance(a[0], I.Ref):
        return NotImplemented
    old = I.read_lv(a[0].lv)
    I.write_lv(a[0].lv, a[1])
    return old


@reg('std::mem::swap', 'core::mem::swap')
def _mem_swap(ip, st, t, a, rt):
    if not (isinstance(a[0], I.Ref) and isinstance(a[1], I.Ref)):
        return NotImplemented
    x, y = I.read_lv(a[0].lv), I.read_lv(a[1].lv)
    I.write_lv(a[0].lv, y)
    I.write_lv(a[1].lv, x)
    return I.tup()


@reg('std::mem::take', 'core::mem::take')
def _mem_take(ip, st, t, a, rt):
    return NotImplemented


# --- checked integer conversions, Result -> Option, Option::filter -----------------------------------------------
RESULT = 'std::result::Result'


@regx(r'^std::convert::num::<impl std::convert::TryFrom<(i8|i16|i32|i64|isize)> for (u32|u64|usize)>::try_from$')
def _try_from_signed(ip, st, t, a, rt):
    # signed -> unsigned of at least the same width (i32 -> u32/u64/usize, i64/isize -> u64/usize): fails exactly for negatives
    m = re.search(r'TryFrom<(\w+)> for (\w+)>', t.get('resolved') or t.get('callee') or '')
    width = {'i8': 8, 'i16': 16, 'i32': 32, 'i64': 64, 'isize': 64, 'u32': 32, 'u64': 64, 'usize': 64}
    if not m or width[m.group(2)] < width[m.group(1)]:
        return NotImplemented
    x = as_rf(a[0])
    return I.ite(I.b_cmp('<=', RF.const(0), x), I.St(RESULT, 'Ok', {0: x}), I.St(RESULT, 'Err', {0: I.tup()}))


def _res_parts(v):
    v = deref(v)
    if isinstance(v, I.St) and v.adt == RESULT:
        return v.variant, v.fields.get(0)
    if isinstance(v, I.Ite):
        return 'ite', v
    return 'sym', v


@reg('std::result::Result::<T, E>::ok')
def _res_ok(ip, st, t, a, rt):
    k, p = _res_parts(a[0])
    if k == 'Ok':
        return I.some(p)
    if k == 'Err':
        return I.NONE
    if k == 'ite':
        return I.ite(p.c, _res_ok(ip, st, t, [p.a], rt), _res_ok(ip, st, t, [p.b], rt))
    return NotImplemented


@reg('std::option::Option::<T>::filter')
def _opt_filter(ip, st, t, a, rt):
    o, f = a
    k, p = opt_parts(o)
    if k == 'none':
        return I.NONE
    if k == 'some':
        c = call_fn_value(ip, f, [ip.ref_to(p)], 'bool')
        if isinstance(c, I.B):
            return I.ite(c, I.some(p), I.NONE)
        return NotImplemented
    if k == 'ite':
        return I.ite(p.c, _opt_filter(ip, st, t, [p.a, f], rt), _opt_filter(ip, st, t, [p.b, f], rt))
    if k == 'sym' and isinstance(p, I.Sym):
        payload = opt_payload(o, '?')
        c = call_fn_value(ip, f, [ip.ref_to(payload)], 'bool')
        if isinstance(c, I.B):
            return I.ite(I.b_and(opt_is_some(o), c), I.some(payload), I.NONE)
    return NotImplemented


@reg('core::bool::<impl bool>::then')
def _bool_then(ip, st, t, a, rt):
    c = a[0]
    if not isinstance(c, I.B):
        return NotImplemented
    if c.op == 'const':
        return I.some(call_fn_value(ip, a[1], [], '?')) if c.args[0] else I.NONE
    v = call_fn_value(ip, a[1], [], '?')
    return I.ite(c, I.some(v), I.NONE)


@reg('core::bool::<impl bool>::then_some')
def _bool_then_some(ip, st, t, a, rt):
    c = a[0]
    if not isinstance(c, I.B):
        return NotImplemented
    return I.ite(c, I.some(a[1]), I.NONE)


def call_fn_value(ip, f, args, rt):
    fv = deref(f)
    if isinstance(fv, I.St) and isinstance(fv.adt, str) and fv.adt.startswith('closure:'):
        return ip.call_closure(fv, f if isinstance(f, I.Ref) else None, I.tup(*args), rt)
    if isinstance(fv, I.FnItem):
        h = lookup(fv.path, None)
        if h is not None:
            r = h(ip, None, {'callee': fv.path, 'resolved': fv.path}, args, rt)
            if r is not NotImplemented:
                return r
        return ip.call_path(fv.path, args, rt, None, None)
    raise I.AnalysisIncomplete('call of non-function value %r' % (fv,))


# --- big integers (exact ring) -----------------------------------------------------------------
BIG = r'(ibig::|dashu|malachite|num_bigint|num::bigint|rug::)'


@regx(r'(From<i64> for (ibig::IBig|dashu_int::IBig|dashu::integer::IBig|malachite_nz::integer::Integer|num_bigint::BigInt)>::from$)|(<(malachite_nz::integer::Integer|num_bigint::BigInt|dashu_int::IBig|ibig::IBig) as std::convert::From<i64>>::from$)|(impl_from_.*i64)|(from_i64)')
def _big_from(ip, st, t, a, rt):
    return as_rf(a[0])


@regx(r'(Default for (ibig::IBig|dashu_int::IBig|dashu::integer::IBig|malachite_nz::integer::Integer|num_bigint::BigInt)>::default$)|(<(malachite_nz::integer::Integer|num_bigint::BigInt|dashu_int::IBig|ibig::IBig) as std::default::Default>::default$)')
def _big_default(ip, st, t, a, rt):
    return RF.const(0)


def _is_big_binop(name):
    def pred(callee):
        return re.search(BIG, callee) and re.search(name, callee)
    return pred


@regx(r'^(?=.*(ibig|dashu|malachite|num_bigint)).*(Mul<&.*> for &.*>::mul|as std::ops::Mul<&.*>>::mul)$')
def _big_mul(ip, st, t, a, rt):
    return as_rf(deref(a[0])) * as_rf(deref(a[1]))


@regx(r'^(?=.*(ibig|dashu|malachite|num_bigint)).*(AddAssign.*::add_assign)$')
def _big_add_assign(ip, st, t, a, rt):
    ref = a[0]
    I.write_lv(ref.lv, as_rf(deref(ref)) + as_rf(deref(a[1])))
    return I.tup()


@regx(r'^(?=.*(ibig|dashu|malachite|num_bigint)).*(SubAssign.*::sub_assign)$')
def _big_sub_assign(ip, st, t, a, rt):
    ref = a[0]
    I.write_lv(ref.lv, as_rf(deref(ref)) - as_rf(deref(a[1])))
    return I.tup()


@regx(r'^(?=.*malachite).*Square.*::square$')
def _big_square(ip, st, t, a, rt):
    """malachite's `Square::square` on an Integer or a reference to one: x * x (malachite-base num/arithmetic/traits.rs: "Squares a number")."""
    x = as_rf(deref(a[0]))
    return x * x


# --- a constant range of a fixed-size array, and sums over its elements (`v[..3].iter().map(f).sum()`) ------------------------------
@reg('std::array::<impl std::ops::Index<I> for [T; N]>::index')
def _array_range_index(ip, st, t, a, rt):
    arr = deref(a[0])
    rg = deref(a[1])
    if not (isinstance(arr, I.St) and arr.adt == 'array' and isinstance(rg, I.St) and isinstance(rg.adt, str)):
        return NotImplemented
    n = len(arr.fields)
    kind = rg.adt.rsplit('::', 1)[-1].split('<')[0]
    def cst(name, dflt):
        v = rg.fields.get(name)
        if v is None:
            return dflt
        if isinstance(v, RF) and v.is_const():
            return int(v.const_value())
        raise KeyError(name)
    try:
        if kind == 'RangeTo':
            lo, hi = 0, cst('end', None)
        elif kind == 'Range':
            lo, hi = cst('start', None), cst('end', None)
        elif kind == 'RangeFrom':
            lo, hi = cst('start', None), n
        elif kind == 'RangeFull':
            lo, hi = 0, n
        else:
            return NotImplemented
    except KeyError:
        return NotImplemented
    if lo is None or hi is None:
        return NotImplemented
    if not (0 <= lo <= hi <= n):
        raise I.Diverge()
    return ip.ref_to(I.arr([I.get_index(arr, RF.const(i)) for i in range(lo, hi)]))


@reg('std::iter::Iterator::sum')
def _iter_sum(ip, st, t, a, rt):
    """Sum of a statically known, short sequence: `arr.iter().sum()` / `arr.iter().map(f).sum()` (Sum for numeric types folds with `+` from zero;
    the exact ring and the reals are commutative, the order of floating additions is the slice order)."""
    v = deref(a[0])
    f = None
    if isinstance(v, I.Sym) and v.atom.kind == 'app' and v.atom.name == 'call:std::iter::Iterator::map' and len(v.atom.args) == 2:
        inner, f = v.atom.args
    else:
        inner = v
    elems = _fixed_elems(inner)
    if elems is None:
        return NotImplemented
    total = RF.const(0)
    for e in elems:
        x = call_fn_value(ip, f, [ip.ref_to(e)], rt) if f is not None else deref(e)
        if not isinstance(x, RF):
            return NotImplemented
        total = total + x
    return total


# --- equality of field-less enums of the sign interface (`sign == Ordering::Greater`): derived PartialEq compares discriminants ------------
_FIELDLESS = {'Less': -1, 'Equal': 0, 'Greater': 1, 'Minus': 0, 'NoSign': 1, 'Plus': 2}


@regx(r'^<(std::cmp::Ordering|core::cmp::Ordering|num_bigint::Sign|num_bigint::bigint::Sign) as std::cmp::PartialEq>::(eq|ne)$')
def _fieldless_eq(ip, st, t, a, rt):
    def side(v):
        v = deref(v)
        if isinstance(v, I.St) and v.variant in _FIELDLESS and not v.fields:
            return RF.const(_FIELDLESS[v.variant])
        if isinstance(v, I.Sym):
            ca = v.atom
            if ca.kind == 'sym' and str(ca.name).startswith('const:') and '=' in str(ca.name):
                return RF.const(int(str(ca.name).rsplit('=', 1)[1]))
            return RF.atom(nf.app_atom('discr', ca))
        return None
    x, y = side(a[0]), side(a[1])
    if x is None or y is None:
        return NotImplemented
    op = '==' if (t.get('callee') or '').endswith('::eq') else '!='
    return I.b_cmp(op, x, y)


# --- TypeId ---------------------------------------------------------------------------------
@reg('std::any::TypeId::of')
def _typeid(ip, st, t, a, rt):
    sub = (t.get('substs') or ['?'])[0]
    return I.Sym(nf.sym_atom('typeid:' + sub), 'std::any::TypeId')


# --- panics -----------------------------------------------------------------------------------
@regx(r'^(core::panicking::|std::rt::begin_panic|core::option::expect_failed|core::result::unwrap_failed)')
def _panic(ip, st, t, a, rt):
    raise I.Diverge()


# --- vec! expansion: Box::new_uninit + write through the raw pointer + box_assume_init_into_vec_unsafe ---
@reg('std::boxed::Box::<T>::new_uninit')
def _box_new_uninit(ip, st, t, a, rt):
    cell = ip.new_cell(None, rt, 'box')
    return I.St('Box', None, {0: I.St('Unique', None, {'pointer': I.Ref(I.LV(cell), True)})})


@reg('std::boxed::box_assume_init_into_vec_unsafe')
def _box_into_vec(ip, st, t, a, rt):
    b = deref(a[0]) if isinstance(a[0], I.Ref) else a[0]
    ptr = I.get_field(I.get_field(b, 0), 'pointer')
    v = I.read_lv(ptr.lv)
    for f in ('value', 'value', 0):
        v = I.get_field(v, f)
    return v


@reg('std::vec::from_elem')
def _from_elem(ip, st, t, a, rt):
    n = as_rf(a[1])
    if n.is_const() and n.const_value() <= 16:
        return I.arr([a[0]] * int(n.const_value()))
    return I.Sym(nf.app_atom('from_elem', I.frozen(a[0]), n), rt)


@reg('std::boxed::Box::<T>::new')
def _box_new(ip, st, t, a, rt):
    return a[0]


# --- glam DVec2 (glam-0.27 f64/dvec2.rs) -------------------------------------------------------------
def c2(v):
    return comps(v, 'xy')


def V2(x, y):
    return I.St('glam::DVec2', 'DVec2', {'x': as_rf(x), 'y': as_rf(y)})


@reg('glam::DVec3::truncate')
def _truncate(ip, st, t, a, rt):
    p = c3(a[0])
    return V2(p[0], p[1])


@reg('glam::DVec2::new')
def _v2new(ip, st, t, a, rt):
    return V2(a[0], a[1])


@reg('glam::DVec2::extend')
def _v2extend(ip, st, t, a, rt):
    p = c2(a[0])
    return V3(p[0], p[1], as_rf(a[1]))


def _vec2op(fn):
    def h(ip, st, t, a, rt):
        x, y = a
        isv = lambda v: not isinstance(deref(v), RF)
        if isv(x) and isv(y):
            p, q = c2(x), c2(y)
            return V2(*[fn(p[i], q[i]) for i in range(2)])
        if isv(x):
            p = c2(x)
            s = as_rf(deref(y))
            return V2(*[fn(p[i], s) for i in range(2)])
        s = as_rf(deref(x))
        q = c2(y)
        return V2(*[fn(s, q[i]) for i in range(2)])
    return h


H['<glam::DVec2 as std::ops::Add>::add'] = _vec2op(lambda a, b: a + b)
H['<glam::DVec2 as std::ops::Sub>::sub'] = _vec2op(lambda a, b: a - b)
H['<glam::DVec2 as std::ops::Mul>::mul'] = _vec2op(lambda a, b: a * b)
H['<glam::DVec2 as std::ops::Mul<f64>>::mul'] = _vec2op(lambda a, b: a * b)
H['<glam::DVec2 as std::ops::Div<f64>>::div'] = _vec2op(_div)
H['glam::f64::dvec2::<impl std::ops::Mul<glam::DVec2> for f64>::mul'] = _vec2op(lambda a, b: a * b)


@reg('glam::DVec2::dot')
def _v2dot(ip, st, t, a, rt):
    p, q = c2(a[0]), c2(a[1])
    return p[0] * q[0] + p[1] * q[1]


@reg('glam::DVec2::length_squared')
def _v2len2(ip, st, t, a, rt):
    p = c2(a[0])
    return p[0] * p[0] + p[1] * p[1]


@reg('glam::DVec2::length')
def _v2len(ip, st, t, a, rt):
    p = c2(a[0])
    return nf.fn_sqrt(p[0] * p[0] + p[1] * p[1])


@reg('glam::DVec2::distance_squared')
def _v2dist2(ip, st, t, a, rt):
    p, q = c2(a[0]), c2(a[1])
    d = [p[i] - q[i] for i in range(2)]
    return d[0] * d[0] + d[1] * d[1]


@reg('glam::DVec2::distance')
def _v2dist(ip, st, t, a, rt):
    p, q = c2(a[0]), c2(a[1])
    d = [p[i] - q[i] for i in range(2)]
    return nf.fn_sqrt(d[0] * d[0] + d[1] * d[1])


@reg('std::option::Option::<T>::get_or_insert_with')
def _get_or_insert_with(ip, st, t, a, rt):
    # The initialiser closure is evaluated once for its events (which record what a newly created entry is
    # built from); the slot update itself stays an opaque, congruent call.
    try:
        call_fn_value(ip, a[1], [], '?')
    except (I.Diverge, I.AnalysisIncomplete):
        pass
    return NotImplemented


# --- element-wise iterator adaptors: evaluate the closure once on a symbolic item (events only) -----------
ADAPTOR_RX = r'^(std::iter::Iterator::(map|filter_map|for_each|flat_map|filter|inspect|find|find_map|position|any|all|take_while|skip_while|map_while)|rayon::iter::ParallelIterator::(map|filter_map|for_each|flat_map|filter|flat_map_iter)|rayon::iter::IndexedParallelIterator::(map|filter_map))$'


@regx(ADAPTOR_RX)
def _adaptor(ip, st, t, a, rt):
    """The adaptor's value stays an opaque congruent term.  Its closure is evaluated once on a symbolic
    item `item(<stream>)` so that rules can inspect what happens per element; abstract state is restored
    afterwards (no effect of the per-element evaluation leaks into the caller's state)."""
    if len(a) < 2:
        return NotImplemented
    fv = deref(a[1])
    if not (isinstance(fv, I.St) and isinstance(fv.adt, str) and fv.adt.startswith('closure:')):
        return NotImplemented
    path = fv.adt[len('closure:'):]
    body = ip.facts.by_path.get(path)
    if not body or len(ip.stack) > ip.max_depth:
        return NotImplemented
    body = body[0]
    if body['arg_count'] != 2:
        return NotImplemented
    ity = body['locals'][2]['ty']
    item = I.mk_sym(nf.app_atom('item', I.frozen(a[0])), ity)
    if ity.startswith('&') and I.is_scalar_ty(ity.lstrip('&').replace('mut ', '', 1).strip()):
        # `find(|&i| ..)` / `filter(|&x| ..)`: the closure receives a reference to a scalar item
        pointee = ity.lstrip('&').replace('mut ', '', 1).strip()
        item = ip.ref_to(I.mk_sym(nf.app_atom('item', I.frozen(a[0])), pointee), ity)
    snap = ip.snap(st)
    guard = st.guard
    n0 = len(ip.events)
    res = None
    try:
        res = ip.call_closure(fv, a[1] if isinstance(a[1], I.Ref) else None, I.tup(item), '?')
    except (I.Diverge, I.AnalysisIncomplete) as e:
        res = e
    finally:
        ip.restore(st, snap)
        st.guard = guard
    ip.closure_runs.append({'term': t, 'closure': path, 'stream': I.frozen(a[0]), 'item': item, 'result': res,
                            'events': ip.events[n0:], 'body': st.body, 'adaptor': (t.get('callee') or '').rsplit('::', 1)[-1]})
    return NotImplemented


# --- `for x in stream.filter(p) { body }`  ==  `for x in stream { if p(&x) { body } }` ---------------------------------------
@regx(r"^<std::iter::Filter<I, P> as std::iter::Iterator>::next$")
def _filter_next(ip, st, t, a, rt):
    """Filter::next on a filter built over a crate-local stream, inside a loop that carries the filter: the item is the underlying stream's
    next item, and everything that follows in this iteration runs under `item is None or p(&item)` (core::iter::Filter::next = inner.find(p)).
    The underlying stream's state is a per-loop symbol (congruent within one iteration).  Anything else stays opaque."""
    if not (a and isinstance(a[0], I.Ref)):
        return NotImplemented
    cur = deref(a[0])
    if not isinstance(cur, I.Sym):
        return NotImplemented
    init = ip.loop_inits.get(cur.atom.id)
    init = deref(init) if init is not None else None
    # look through into_iter (identity on iterators)
    for _ in range(3):
        if isinstance(init, I.Sym) and init.atom.kind == 'app' and str(init.atom.name).endswith('IntoIterator>::into_iter') and len(init.atom.args) == 1:
            init = init.atom.args[0]
    if not (isinstance(init, I.Sym) and init.atom.kind == 'app' and init.atom.name == 'call:std::iter::Iterator::filter' and len(init.atom.args) == 2):
        return NotImplemented
    inner, clos = init.atom.args
    if not (isinstance(clos, I.St) and isinstance(clos.adt, str) and clos.adt.startswith('closure:')):
        return NotImplemented
    ity = (inner.adt if isinstance(inner, I.St) and isinstance(inner.adt, str) else getattr(inner, 'ty', None) or '').strip()
    bare = lambda x: re.sub(r'<.*$', '', x.strip().lstrip('&').replace('mut ', '', 1).strip())
    key = bare(ity)
    cands = [p_ for p_ in ip.facts.by_path if p_.endswith(' as std::iter::Iterator>::next') and bare(p_[1:].split(' as ')[0]) == key]
    if len(cands) != 1:
        return NotImplemented
    state = inner if isinstance(inner, I.St) else I.Sym(nf.app_atom('iterstate', cur.atom, I.frozen(inner)), ity)
    r = ip.call_path(cands[0], [ip.ref_to(state, '&mut ' + ity, mut=True)], rt, st, dict(t, callee='std::iter::Iterator::next', resolved=cands[0]))
    try:
        item = I.get_field(I.downcast(r, 'Some'), 0)
        keep = call_fn_value(ip, clos, [ip.ref_to(item)], 'bool')
    except (I.AnalysisIncomplete, I.Diverge, TypeError, KeyError):
        return NotImplemented
    if not isinstance(keep, I.B):
        return NotImplemented
    if not isinstance(r, I.Sym):
        return NotImplemented
    some = I.b_cmp('==', RF.atom(nf.app_atom('discr', r.atom)), RF.const(1))      # Option: None = 0, Some = 1
    st.guard = st.guard + (I.b_or(I.b_not(some), keep),)
    # the loop's stream read IS the read of the underlying stream: present it as such to the rules (same terminator, inner callee)
    for e in reversed(ip.events):
        if e.term is t and e.result is None and e.kind == 'call':
            e.callee = cands[0]
            e.fargs = [I.frozen(state)]
            e.extra['through_filter'] = clos.adt
            break
    return r


# --- searches over a fixed-size array: unrolled (the element count is known from the type or the literal) --------------
def _fixed_elems(itv):
    """Elements of `arr.iter()` when arr has a statically known length (array literal or `[T; N]` value), else None."""
    itv = deref(itv)
    at = itv.atom if isinstance(itv, I.Sym) else None
    if at is None or at.kind != 'app' or at.name != 'call:core::slice::<impl [T]>::iter' or len(at.args) != 1:
        return None
    arr = at.args[0]
    n = None
    if isinstance(arr, I.St) and arr.adt == 'array':
        n = len(arr.fields)
    else:
        ty = (getattr(arr, 'ty', None) or '').strip()
        for pre in ('&mut ', '&'):
            if ty.startswith(pre):
                ty = ty[len(pre):]
        m = re.match(r'^\[(.+); (\d+)\]$', ty)
        if m:
            n = int(m.group(2))
    if n is None or n > 8:
        return None
    return [I.get_index(arr, RF.const(i)) for i in range(n)]


@regx(r"^<std::slice::Iter<'a, T> as std::iter::Iterator>::(position|any|all)$")
def _fixed_search(ip, st, t, a, rt):
    if len(a) < 2 or not isinstance(a[0], I.Ref):
        return NotImplemented
    elems = _fixed_elems(I.read_lv(a[0].lv))
    if elems is None:
        return NotImplemented
    which = (t.get('callee') or '').rsplit('::', 1)[-1]
    conds = []
    for e in elems:
        c = call_fn_value(ip, a[1], [ip.ref_to(e)], 'bool')
        if not isinstance(c, I.B):
            return NotImplemented
        conds.append(c)
    if which == 'any':
        out = I.FALSE
        for c in conds:
            out = I.b_or(out, c)
        return out
    if which == 'all':
        out = I.TRUE
        for c in conds:
            out = I.b_and(out, c)
        return out
    out = I.NONE
    for i in reversed(range(len(conds))):
        out = I.ite(conds[i], I.some(RF.const(i)), out)
    return out


def _regx_first(pattern):
    def d(f):
        RX.insert(0, (re.compile(pattern), f))
        return f
    return d


@_regx_first(r'^std::iter::Iterator::map$')
def _map_over_concrete_array(ip, st, t, a, rt):
    it = deref(a[0])
    if isinstance(it, I.St) and it.adt == 'std::array::IntoIter' and isinstance(it.fields.get('pos'), RF) and it.fields['pos'].is_zero():
        arr_ = it.fields['arr']
        out = [call_fn_value(ip, a[1], [arr_.fields[k]], '?') for k in sorted(arr_.fields)]
        return I.St('std::array::IntoIter', None, {'arr': I.arr(out), 'pos': RF.const(0)})
    return _adaptor(ip, st, t, a, rt)


@regx(r'^std::iter::Iterator::collect$')
def _collect_concrete_array(ip, st, t, a, rt):
    it = deref(a[0])
    if isinstance(it, I.St) and it.adt == 'std::array::IntoIter' and isinstance(it.fields.get('pos'), RF) and it.fields['pos'].is_zero():
        return it.fields['arr']
    return NotImplemented


@reg('std::array::<impl [T; N]>::map')
def _array_map(ip, st, t, a, rt):
    """`[T; N]::map(f)` for a statically known N <= 8: [f(a[0]), .., f(a[N-1])], in index order (core::array: `drain_array_with` front to back)."""
    v = deref(a[0])
    n = None
    if isinstance(v, I.St) and v.adt == 'array':
        n = len(v.fields)
    else:
        m = re.match(r'^\[(.+); (\d+)\]$', (getattr(v, 'ty', None) or '').strip())
        if m:
            n = int(m.group(2))
        else:
            sub = t.get('substs') or []
            for x in sub:
                if str(x).isdigit():
                    n = int(x)
    if n is None or n > 8:
        return NotImplemented
    out = [call_fn_value(ip, a[1], [I.get_index(v, RF.const(i))], '?') for i in range(n)]
    return I.arr(out)


# --- by-value iteration over a small constant array (`for [i, j, k] in TABLE`): concrete while unrolling ------------------
@reg('std::array::iter::<impl std::iter::IntoIterator for [T; N]>::into_iter')
def _array_into_iter(ip, st, t, a, rt):
    v = deref(a[0])
    if isinstance(v, I.St) and v.adt == 'array' and len(v.fields) <= 8:
        return I.St('std::array::IntoIter', None, {'arr': v, 'pos': RF.const(0)})
    return NotImplemented


@reg('<std::array::IntoIter<T, N> as std::iter::Iterator>::next')
def _array_iter_next(ip, st, t, a, rt):
    if not isinstance(a[0], I.Ref):
        return NotImplemented
    it = I.read_lv(a[0].lv)
    if not (isinstance(it, I.St) and it.adt == 'std::array::IntoIter' and ip.unrolling):
        return NotImplemented
    pos = it.fields['pos']
    arr_ = it.fields['arr']
    if not (isinstance(pos, RF) and pos.is_const()):
        return NotImplemented
    k = int(pos.const_value())
    if k < len(arr_.fields):
        I.write_lv(a[0].lv, I.St(it.adt, None, {'arr': arr_, 'pos': RF.const(k + 1)}))
        return I.some(arr_.fields[k])
    return I.NONE


# --- iteration by reference over a small table of constants (`for &axis in &[1, 2]`): concrete while unrolling ---------------
def _const_table(v):
    v = deref(v)
    if isinstance(v, I.St) and v.adt == 'array' and len(v.fields) <= 8 and all(isinstance(x, RF) and x.is_const() for x in v.fields.values()):
        return v
    return None


@reg('core::slice::<impl [T]>::iter', "<&'a [T] as std::iter::IntoIterator>::into_iter", '<&[T] as std::iter::IntoIterator>::into_iter',
     "core::slice::iter::<impl std::iter::IntoIterator for &'a [T]>::into_iter")
def _const_slice_iter(ip, st, t, a, rt):
    tab = _const_table(a[0])
    if tab is None or not ip.unroll_limit:
        return NotImplemented
    return I.St('std::slice::IterOverConstants', None, {'arr': tab, 'pos': RF.const(0)})


@regx(r"^<std::slice::Iter<'a, T> as std::iter::Iterator>::next$")
def _const_slice_next(ip, st, t, a, rt):
    if not isinstance(a[0], I.Ref):
        return NotImplemented
    it = I.read_lv(a[0].lv)
    if not (isinstance(it, I.St) and it.adt == 'std::slice::IterOverConstants' and ip.unrolling):
        return NotImplemented
    k = int(it.fields['pos'].const_value())
    arr_ = it.fields['arr']
    if k < len(arr_.fields):
        I.write_lv(a[0].lv, I.St(it.adt, None, {'arr': arr_, 'pos': RF.const(k + 1)}))
        return I.some(ip.ref_to(arr_.fields[k]))
    return I.NONE


# --- integer ranges with constant bounds (used by loop unrolling) ------------------------------------------
def _range_st(v):
    v = deref(v)
    return v if isinstance(v, I.St) and isinstance(v.adt, str) and v.adt.endswith('ops::Range') and set(v.fields) >= {'start', 'end'} else None


@reg('<I as std::iter::IntoIterator>::into_iter')
def _into_iter(ip, st, t, a, rt):
    if _range_st(a[0]) is not None and not isinstance(a[0], I.Ref):
        return a[0]
    return NotImplemented


@reg('std::iter::range::<impl std::iter::Iterator for std::ops::Range<A>>::next')
def _range_next(ip, st, t, a, rt):
    r = _range_st(a[0])
    if r is None or not isinstance(a[0], I.Ref) or not ip.unrolling:
        return NotImplemented
    s0, e0 = r.fields['start'], r.fields['end']
    if not (isinstance(s0, RF) and isinstance(e0, RF) and s0.is_const() and e0.is_const()):
        return NotImplemented
    if s0.const_value() < e0.const_value():
        I.write_lv(a[0].lv, I.St(r.adt, r.variant, {'start': s0 + 1, 'end': e0}, r.base))
        return I.some(s0)
    return I.NONE


# --- integer abs / min / max -------------------------------------------------------------------------
@regx(r'^core::num::<impl (i8|i16|i32|i64|isize)>::abs$')
def _iabs(ip, st, t, a, rt):
    return nf.fn_abs(a[0])


@reg('std::cmp::Ord::max', 'core::cmp::Ord::max', 'std::cmp::max')
def _omax(ip, st, t, a, rt):
    if isinstance(a[0], RF) and isinstance(a[1], RF):
        return nf.fn_max(a[0], a[1])
    return NotImplemented


@reg('std::cmp::Ord::min', 'core::cmp::Ord::min', 'std::cmp::min')
def _omin(ip, st, t, a, rt):
    if isinstance(a[0], RF) and isinstance(a[1], RF):
        return nf.fn_min(a[0], a[1])
    return NotImplemented


# --- comparisons of exact integers / scalars through the comparison traits ---------------------------------
def _cmp_handler(op):
    def h(ip, st, t, a, rt):
        x, y = deref(a[0]), deref(a[1])
        if isinstance(x, RF) and isinstance(y, RF):
            return I.b_cmp(op, x, y)
        return NotImplemented
    return h


for _n, _op in (('gt', '>'), ('lt', '<'), ('ge', '>='), ('le', '<=')):
    H['std::cmp::PartialOrd::' + _n] = _cmp_handler(_op)
    H['core::cmp::PartialOrd::' + _n] = _cmp_handler(_op)
for _n, _op in (('eq', '=='), ('ne', '!=')):
    H['std::cmp::PartialEq::' + _n] = _cmp_handler(_op)
    H['core::cmp::PartialEq::' + _n] = _cmp_handler(_op)


# --- the `?` operator on Option -------------------------------------------------------------------------------
@reg('<std::option::Option<T> as std::ops::Try>::branch')
def _opt_branch(ip, st, t, a, rt):
    o = deref(a[0])
    k, p = opt_parts(o)
    CF = 'std::ops::ControlFlow'
    if k == 'some':
        return I.St(CF, 'Continue', {0: p})
    if k == 'none':
        return I.St(CF, 'Break', {0: I.NONE})
    if k == 'sym' and isinstance(p, I.Sym):
        return I.ite(opt_is_some(o), I.St(CF, 'Continue', {0: opt_payload(o, '?')}), I.St(CF, 'Break', {0: I.NONE}))
    if k == 'ite':
        return I.ite(p.c, _opt_branch(ip, st, t, [p.a], rt), _opt_branch(ip, st, t, [p.b], rt))
    return NotImplemented


@regx(r'^<std::option::Option<T> as std::ops::FromResidual<std::option::Option<std::convert::Infallible>>>::from_residual$')
def _opt_from_residual(ip, st, t, a, rt):
    return I.NONE


# --- malachite fused multiply-accumulate (exact ring operations) -------------------------------------------------
@regx(r'^(?=.*malachite).*AddMulAssign.*::add_mul_assign$')
def _add_mul_assign(ip, st, t, a, rt):
    ref = a[0]
    I.write_lv(ref.lv, as_rf(deref(ref)) + as_rf(deref(a[1])) * as_rf(deref(a[2])))
    return I.tup()


@regx(r'^(?=.*malachite).*SubMulAssign.*::sub_mul_assign$')
def _sub_mul_assign(ip, st, t, a, rt):
    ref = a[0]
    I.write_lv(ref.lv, as_rf(deref(ref)) - as_rf(deref(a[1])) * as_rf(deref(a[2])))
    return I.tup()


@regx(r'^std::array::<impl std::default::Default for \[T; .*\]>::default$')
def _array_default(ip, st, t, a, rt):
    m = re.match(r'^\[(f64|f32|usize|u8|u16|u32|u64|i8|i16|i32|i64|isize); (\d+)\]$', (rt or '').strip())
    if not m or int(m.group(2)) > 16:
        return NotImplemented
    return I.arr([RF.const(0)] * int(m.group(2)))
