"""Mod-set summaries (effect analysis): which first-level fields of a `&mut` parameter a
crate-local function may write, transitively through crate-local callees.

modset(facts, path, argpos) -> set of field names | ALL
A field counts as written when a place rooted at (*param).field is assigned, mutably borrowed,
or when the parameter (or a reborrow of it) is passed to another function: local callee -> its
summary; foreign callee -> the borrowed field (or ALL when the whole object is passed)."""
from .facts import calls

ALL = '*'
_cache = {}


def modset(F, path, argpos, _stack=()):
    key = (id(F), path, argpos)
    if key in _cache:
        return _cache[key]
    if (path, argpos) in _stack:
        return set()
    bs = F.by_path.get(path)
    if not bs:
        return ALL
    b = bs[0]
    param = argpos + 1
    res = set()
    # aliases: locals that hold (a reborrow of) the parameter or of one of its fields
    alias = {param: None}     # local -> field name (None = whole object)
    changed = True

    def root_field(place):
        """If place is rooted at the parameter object: first-level field name or None (whole); else 'no'."""
        l = place['l']
        if l not in alias:
            return 'no'
        base = alias[l]
        projs = place['p']
        if base is not None:
            return base
        # need a deref then a field
        seen_deref = False
        for e in projs:
            if e['k'] == 'deref':
                seen_deref = True
            elif e['k'] == 'field' and seen_deref:
                return e.get('n', str(e['i']))
            elif e['k'] in ('downcast',):
                continue
            else:
                break
        return None

    while changed:
        changed = False
        for bl in b['blocks']:
            for s in bl['stmts']:
                if s['k'] != 'assign':
                    continue
                rv = s['rv']
                dst = s['place']
                if not dst['p']:
                    src = None
                    if rv['k'] == 'ref' and rv.get('mut'):
                        src = rv['place']
                    elif rv['k'] == 'use' and rv['x']['k'] in ('copy', 'move'):
                        src = rv['x']['place']
                    elif rv['k'] == 'rawptr':
                        src = rv['place']
                    if src is not None:
                        rf = root_field(src)
                        if rf != 'no' and dst['l'] not in alias and (rv['k'] != 'use' or not src['p']):
                            alias[dst['l']] = rf
                            changed = True
    for bl in b['blocks']:
        if bl['cleanup']:
            continue
        for s in bl['stmts']:
            if s['k'] == 'assign':
                dst = s['place']
                if any(e['k'] == 'deref' for e in dst['p']) or (dst['l'] in alias and alias[dst['l']] is not None and dst['p']):
                    rf = root_field(dst)
                    if rf == 'no':
                        continue
                    if rf is None:
                        res = ALL
                    elif res is not ALL:
                        res.add(rf)
                rv = s['rv']
                if rv['k'] in ('ref', 'rawptr') and (rv.get('mut') or rv['k'] == 'rawptr'):
                    rf = root_field(rv['place'])
                    if rf not in ('no', None) and res is not ALL:
                        # a mutable borrow of a field: counted as a write unless it only flows to local callees (handled below)
                        res.add(rf)
        t = bl['term']
        if t['k'] == 'call' and res is not ALL:
            callee = t.get('resolved') or t.get('callee')
            for i, a in enumerate(t['args']):
                if a['k'] not in ('copy', 'move') or a['place']['p']:
                    continue
                l = a['place']['l']
                if l not in alias:
                    continue
                ty = b['locals'][l]['ty']
                if not ty.startswith('&mut') and not ty.startswith('*mut'):
                    continue
                fld = alias[l]
                if fld is None:
                    sub = modset(F, callee, i, _stack + ((path, argpos),)) if callee in F.by_path else ALL
                    if sub is ALL:
                        res = ALL
                        break
                    res |= sub
                else:
                    res.add(fld)
    _cache[key] = res
    return res
