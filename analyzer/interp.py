"""E4 — abstract interpreter over MIR facts with algebraic normal forms.

Not symbolic execution: every body is evaluated once; control-flow joins merge values into
gated `ite` terms (gated-SSA value numbering), loop-carried locations become phi symbols and
the loop body is evaluated once.  No path conditions are accumulated for feasibility and no
solver is involved.  Scalars are rational functions over Q (nf.RF); aggregates are field-wise;
unknown library calls are congruent uninterpreted atoms.
"""
import os
from fractions import Fraction
from . import nf
from .nf import RF, as_rf
from .cfg import CFG
from .facts import AnalysisIncomplete, strip_generics

SCALAR_INT = {'usize', 'u8', 'u16', 'u32', 'u64', 'u128', 'isize', 'i8', 'i16', 'i32', 'i64', 'i128'}
SCALAR_FLOAT = {'f64', 'f32'}


def is_scalar_ty(ty):
    return ty in SCALAR_INT or ty in SCALAR_FLOAT


# --- values -------------------------------------------------------------------------

class B:
    """Boolean normal form: const | cmp(op,a,b) | not | and | or | atom."""
    __slots__ = ('op', 'args', '_key')

    def __init__(self, op, *args):
        self.op = op
        self.args = args
        self._key = None

    def key(self):
        if self._key is None:
            self._key = ('B', self.op) + tuple(vkey(a) for a in self.args)
        return self._key

    def __eq__(self, o):
        return isinstance(o, B) and self.key() == o.key()

    def __hash__(self):
        return hash(self.key())

    def is_const(self):
        return self.op == 'const'

    def value(self):
        return self.args[0]

    def __repr__(self):
        if self.op == 'const':
            return 'true' if self.args[0] else 'false'
        if self.op == 'cmp':
            return '(%r %s %r)' % (self.args[1], self.args[0], self.args[2])
        if self.op == 'not':
            return '!%r' % (self.args[0],)
        if self.op == 'atom':
            return 'b:%r' % (self.args[0],)
        return '(%s)' % ((' %s ' % self.op).join(repr(a) for a in self.args))


TRUE = B('const', True)
FALSE = B('const', False)


def b_const(v):
    return TRUE if v else FALSE


def b_not(x):
    if x.is_const():
        return b_const(not x.value())
    if x.op == 'not':
        return x.args[0]
    if x.op == 'cmp':
        o, a, b = x.args
        if o == '<':
            return B('cmp', '<=', b, a)
        if o == '<=':
            return B('cmp', '<', b, a)
        return B('cmp', '!=' if o == '==' else '==', a, b)
    return B('not', x)


def b_and(a, b):
    if a.is_const():
        return b if a.value() else FALSE
    if b.is_const():
        return a if b.value() else FALSE
    if a == b:
        return a
    return B('and', a, b)


def b_or(a, b):
    if a.is_const():
        return TRUE if a.value() else b
    if b.is_const():
        return TRUE if b.value() else a
    if a == b:
        return a
    return B('or', a, b)


def b_cmp(op, a, b):
    if isinstance(a, RF) and isinstance(b, RF):
        # comparison of a gated constant with a constant: push the comparison into the arms
        for x, y, flip in ((a, b, False), (b, a, True)):
            if y.is_const() and not x.is_const():
                parts = ite_parts(x)
                if parts is not None and isinstance(parts[1], RF) and isinstance(parts[2], RF) and parts[1].is_const() and parts[2].is_const():
                    c, p, q = parts
                    P = b_cmp(op, y, p) if flip else b_cmp(op, p, y)
                    Q = b_cmp(op, y, q) if flip else b_cmp(op, q, y)
                    return b_or(b_and(c, P), b_and(b_not(c), Q))
        if a.is_const() and b.is_const():
            x, y = a.const_value(), b.const_value()
            return b_const({'<': x < y, '<=': x <= y, '>': x > y, '>=': x >= y, '==': x == y, '!=': x != y}[op])
        if a == b:
            return b_const(op in ('<=', '>=', '=='))
    elif isinstance(a, B) and isinstance(b, B):
        if a.is_const() and b.is_const():
            return b_const((a.value() == b.value()) == (op == '=='))
        if op == '==' and b.is_const():
            return a if b.value() else b_not(a)
        if op == '!=' and b.is_const():
            return b_not(a) if b.value() else a
    else:
        ka, kb = vkey(a), vkey(b)
        if ka == kb and op in ('==', '!='):
            return b_const(op == '==')
    # canonical orientation: '>' and '>=' are rewritten to '<' / '<='; '=='/'!=' are symmetric: constants go right,
    # otherwise operands are ordered by their printed form
    if op in ('==', '!='):
        ca = isinstance(a, RF) and a.is_const()
        cb = isinstance(b, RF) and b.is_const()
        try:
            if (ca and not cb) or (not ca and not cb and repr(a) > repr(b)):
                a, b = b, a
        except Exception:
            pass
    if op == '>':
        return B('cmp', '<', b, a)
    if op == '>=':
        return B('cmp', '<=', b, a)
    return B('cmp', op, a, b)


CLOSURE_ALIAS = {}     # closure def path -> alias used when printing (set by sibling-comparison rules)


class St:
    """Struct / enum variant / tuple / array / closure environment.
    fields: dict name -> value (tuples/arrays use integer keys).  `base` (a Sym) supplies fields
    that were never written (overlay on a symbolic object)."""
    __slots__ = ('adt', 'variant', 'fields', 'base')

    def __init__(self, adt, variant, fields, base=None):
        self.adt = adt
        self.variant = variant
        self.fields = fields
        self.base = base

    def key(self):
        return ('St', self.adt, self.variant, tuple((k, vkey(v)) for k, v in sorted(self.fields.items(), key=lambda kv: str(kv[0]))),
                vkey(self.base) if self.base is not None else None)

    def __repr__(self):
        nm = self.adt.split('::')[-1] if isinstance(self.adt, str) else str(self.adt)
        if isinstance(self.adt, str) and self.adt.startswith('closure:') and self.adt[8:] in CLOSURE_ALIAS:
            nm = '{closure:%s}' % CLOSURE_ALIAS[self.adt[8:]]
        if self.variant and self.variant != nm:
            nm += '::' + self.variant
        inner = ', '.join('%s: %r' % (k, v) for k, v in self.fields.items())
        return '%s{%s%s}' % (nm, inner, ', ..%r' % self.base if self.base is not None else '')


class Sym:
    """Lazy symbolic object of non-scalar type."""
    __slots__ = ('atom', 'ty', 'variant')

    def __init__(self, atom, ty, variant=None):
        self.atom = atom
        self.ty = ty
        self.variant = variant

    def key(self):
        return ('Sym', self.atom.key, self.variant)

    def __repr__(self):
        return '%r' % (self.atom,) + ('@' + self.variant if self.variant else '')


class Ite:
    __slots__ = ('c', 'a', 'b')

    def __init__(self, c, a, b):
        self.c, self.a, self.b = c, a, b

    def key(self):
        return ('Ite', self.c.key(), vkey(self.a), vkey(self.b))

    def __repr__(self):
        return 'ite(%r, %r, %r)' % (self.c, self.a, self.b)


class LV:
    """An l-value: root cell + projection path."""
    __slots__ = ('cell', 'path')

    def __init__(self, cell, path=()):
        self.cell = cell
        self.path = tuple(path)


class Cell:
    """A mutable storage root (a MIR local of a frame, or a scenario heap object)."""
    __slots__ = ('v', 'ty', 'name')

    def __init__(self, v=None, ty=None, name=None):
        self.v = v
        self.ty = ty
        self.name = name


class Ref:
    __slots__ = ('lv', 'mut')

    def __init__(self, lv, mut=False):
        self.lv = lv
        self.mut = mut

    def key(self):
        try:
            return ('Ref', vkey(read_lv(self.lv)))
        except AnalysisIncomplete:
            return ('Ref', 'dead', id(self.lv.cell), len(self.lv.path))

    def __repr__(self):
        try:
            return '&%r' % (read_lv(self.lv),)
        except AnalysisIncomplete:
            return '&<dead>'

    def __hash__(self):
        return hash(self.key())


class FnItem:
    __slots__ = ('path', 'substs', 'crate')

    def __init__(self, path, substs, crate=None):
        self.path, self.substs, self.crate = path, tuple(substs), crate

    def key(self):
        return ('Fn', self.path, self.substs)

    def __repr__(self):
        return 'fn ' + self.path


def vkey(v):
    if v is None:
        return None
    if isinstance(v, (RF, B, St, Sym, Ite, Ref, FnItem)):
        return v.key()
    if isinstance(v, nf.Atom):
        return ('atom', v.id)
    if isinstance(v, (str, int, bool, tuple, Fraction)):
        return v
    raise TypeError('no key for %r' % (v,))


def frozen(v):
    """Immutable snapshot of a value for use as an atom argument (references -> current pointee)."""
    while isinstance(v, Ref):
        v = read_lv(v.lv)
    if v is None:
        return 'uninit'
    return v if hasattr(v, 'key') else vkey(v)


def ite(c, a, b):
    if c.is_const():
        return a if c.value() else b
    if vkey(a) == vkey(b):
        return a
    # canonical polarity: conditions are kept in their positive form (== rather than !=, x rather than !x)
    if (c.op == 'cmp' and c.args[0] in ('!=', '<=')) or c.op == 'not':
        c, a, b = b_not(c), b, a          # (`x <= y` is kept as the negation of `y < x`)
    if isinstance(a, RF) and isinstance(b, RF):
        if a == b:
            return a
        return RF.atom(nf.app_atom('ite', c, a, b))
    if isinstance(a, B) and isinstance(b, B):
        if a.is_const() and b.is_const():
            return c if a.value() else b_not(c)
        return b_or(b_and(c, a), b_and(b_not(c), b))
    if isinstance(a, St) and isinstance(b, St) and a.adt == b.adt and a.variant == b.variant \
            and set(a.fields) == set(b.fields) and vkey(a.base) == vkey(b.base):
        return St(a.adt, a.variant, {k: ite(c, a.fields[k], b.fields[k]) for k in a.fields}, a.base)
    return Ite(c, a, b)


def ite_parts(x):
    """If x is a scalar ite atom: (condkey, a, b) else None."""
    if isinstance(x, RF) and x.is_poly() and len(x.num) == 1:
        (m, c), = x.num.items()
        if c == 1 and len(m) == 1 and m[0][1] == 1:
            at = nf.atom_by_id(m[0][0])
            if at.kind == 'app' and at.name == 'ite':
                return at.args
    return None


def single_atom(x):
    """If RF x is exactly one atom: that Atom, else None."""
    if isinstance(x, RF) and x.is_poly() and len(x.num) == 1:
        (m, c), = x.num.items()
        if c == 1 and len(m) == 1 and m[0][1] == 1:
            return nf.atom_by_id(m[0][0])
    return None


# --- symbolic object construction -----------------------------------------------------

def mk_sym(atom, ty):
    ty = ty.strip() if ty else ty
    if ty in SCALAR_INT or ty in SCALAR_FLOAT:
        return RF.atom(atom)
    if ty == 'bool':
        return B('atom', atom)
    return Sym(atom, ty)


def sym_input(name, ty):
    return mk_sym(nf.sym_atom(name), ty)


def vec3(x, y, z):
    return St('glam::DVec3', 'DVec3', {'x': as_rf(x), 'y': as_rf(y), 'z': as_rf(z)})


def sym_vec3(name):
    return vec3(RF.sym(name + '.x'), RF.sym(name + '.y'), RF.sym(name + '.z'))


def some(v):
    return St('std::option::Option', 'Some', {0: v})


NONE = St('std::option::Option', 'None', {})


def tup(*items):
    return St('tuple', None, {i: v for i, v in enumerate(items)})


def arr(items):
    return St('array', None, {i: v for i, v in enumerate(items)})


# --- field access on values ----------------------------------------------------------

def _fname(name):
    return int(name) if isinstance(name, str) and name.isdigit() else name


def get_field(v, name, ty=None, idx=None):
    name = _fname(name)
    if isinstance(v, Ref):
        v = read_lv(v.lv)
    if isinstance(v, St):
        if name in v.fields:
            return v.fields[name]
        if idx is not None and idx in v.fields:
            return v.fields[idx]
        if v.base is not None:
            return get_field(v.base, name, ty, idx)
        raise AnalysisIncomplete('field %r missing in %r' % (name, v))
    if isinstance(v, Sym):
        fname = (v.variant + '.' if v.variant else '') + str(name)
        return mk_sym(nf.app_atom('field', v.atom, fname), ty or '?')
    if isinstance(v, Ite):
        return ite(v.c, get_field(v.a, name, ty, idx), get_field(v.b, name, ty, idx))
    raise AnalysisIncomplete('field %r of non-aggregate %r' % (name, v))


def set_field(v, name, new, adt_hint=None):
    name = _fname(name)
    if isinstance(v, St):
        f = dict(v.fields)
        f[name] = new
        return St(v.adt, v.variant, f, v.base)
    if isinstance(v, Sym):
        return St(adt_hint or v.ty, v.variant, {name: new}, v)
    if v is None:
        return St(adt_hint or '?', None, {name: new})
    if isinstance(v, Ite):
        return Ite(v.c, set_field(v.a, name, new, adt_hint), set_field(v.b, name, new, adt_hint))
    raise AnalysisIncomplete('set field %r on %r' % (name, v))


def get_index(v, idx, ty=None):
    if isinstance(v, Ref):
        v = read_lv(v.lv)
    idx = as_rf(idx) if not isinstance(idx, RF) else idx
    if isinstance(v, St) and v.adt in ('array', 'tuple') and idx.is_const():
        k = int(idx.const_value())
        if k in v.fields:
            return v.fields[k]
    if isinstance(v, St) and v.adt == 'array' and not idx.is_const() and 0 < len(v.fields) <= 8 and all(isinstance(x, RF) for x in v.fields.values()):
        # a small table of scalars read at a symbolic position: a chain of selections (an out-of-range position panics)
        ks = sorted(v.fields)
        out = v.fields[ks[-1]]
        for k in reversed(ks[:-1]):
            out = ite(b_cmp('==', idx, RF.const(k)), v.fields[k], out)
        return out
    if isinstance(v, St) and v.adt == 'vecmodel':
        # symbolic vector with explicit updates: {'base':..., writes...}
        pass
    if isinstance(v, Ite):
        return ite(v.c, get_index(v.a, idx, ty), get_index(v.b, idx, ty))
    if isinstance(v, Sym) and v.atom.kind == 'app' and v.atom.name == 'from_elem':
        return v.atom.args[0]          # vec![x; n][i] == x
    if isinstance(v, Sym) and v.atom.kind == 'app' and v.atom.name == 'store' and idx.is_const():
        # read-over-write on an opaque base with constant indices
        cur = v
        while isinstance(cur, Sym) and cur.atom.kind == 'app' and cur.atom.name == 'store':
            base, j, val = cur.atom.args
            if isinstance(j, RF) and j.is_const():
                if j.const_value() == idx.const_value():
                    return val
                cur = base
                continue
            break
        if cur is not v:
            return get_index(cur, idx, ty)
    if isinstance(v, Sym) and v.atom.kind == 'app' and v.atom.name == 'store' and isinstance(v.atom.args[1], RF) and v.atom.args[1] == idx:
        # read-over-write at the syntactically identical (symbolic) position: the element just written
        return v.atom.args[2]
    return mk_sym(nf.app_atom('elem', frozen(v), idx), ty or elem_ty(v))


def elem_ty(v):
    t = getattr(v, 'ty', None)
    if isinstance(t, str):
        t = t.strip()
        for pre in ('&mut ', '&'):
            if t.startswith(pre):
                t = t[len(pre):]
        if t.startswith('[') and t.endswith(']'):
            inner = t[1:-1]
            return inner.split(';')[0].strip()
        if t.startswith('std::vec::Vec<') and t.endswith('>'):
            return t[len('std::vec::Vec<'):-1]
    return '?'


# --- l-values -------------------------------------------------------------------------

def read_lv(lv):
    v = lv.cell.v
    for step in lv.path:
        v = _step_read(v, step)
    return v


def _step_read(v, step):
    k = step[0]
    if k == 'f':
        return get_field(v, step[1], step[2], step[3])
    if k == 'i':
        return get_index(v, step[1], step[2])
    if k == 'd':
        return downcast(v, step[1])
    raise AnalysisIncomplete('bad lvalue step %r' % (step,))


def downcast(v, variant):
    if isinstance(v, Ref):
        v = read_lv(v.lv)
    if isinstance(v, St):
        return v
    if isinstance(v, Sym):
        return Sym(v.atom, v.ty, variant)
    if isinstance(v, Ite):
        # projecting a gated enum onto one variant: only the arms that are in that variant can be meant
        arms = [x for x in (v.a, v.b) if isinstance(x, St) and x.variant is not None]
        if len(arms) == 2 and v.a.variant != v.b.variant and variant in (v.a.variant, v.b.variant):
            return v.a if v.a.variant == variant else v.b

        def other_variant(x):
            # every leaf of x is a known variant different from the requested one
            if isinstance(x, St):
                return x.variant is not None and x.variant != variant
            if isinstance(x, Ite):
                return other_variant(x.a) and other_variant(x.b)
            return False
        if other_variant(v.b) and not other_variant(v.a):
            return downcast(v.a, variant)
        if other_variant(v.a) and not other_variant(v.b):
            return downcast(v.b, variant)
        return Ite(v.c, downcast(v.a, variant), downcast(v.b, variant))
    return v


def write_lv(lv, new):
    lv.cell.v = _write_path(lv.cell.v, lv.path, new)


def _write_path(v, path, new):
    if not path:
        return new
    step = path[0]
    k = step[0]
    if k == 'f':
        cur = None
        try:
            cur = get_field(v, step[1], step[2], step[3]) if v is not None else None
        except AnalysisIncomplete:
            cur = None
        return set_field(v, step[1], _write_path(cur, path[1:], new))
    if k == 'i':
        idx = step[1]
        if isinstance(v, St) and v.adt in ('array', 'tuple') and isinstance(idx, RF) and idx.is_const():
            kk = int(idx.const_value())
            cur = v.fields.get(kk)
            f = dict(v.fields)
            f[kk] = _write_path(cur, path[1:], new)
            return St(v.adt, v.variant, f, v.base)
        # symbolic index write: the aggregate becomes an opaque update term
        cur = get_index(v, idx, step[2])
        newv = _write_path(cur, path[1:], new)
        return Sym(nf.app_atom('store', frozen(v), idx, frozen(newv)), getattr(v, 'ty', '?'))
    if k == 'd':
        return _write_path(v, path[1:], new)
    raise AnalysisIncomplete('bad lvalue step %r' % (step,))


# --- events ---------------------------------------------------------------------------

class Event:
    __slots__ = ('kind', 'callee', 'args', 'fargs', 'result', 'body', 'line', 'guard', 'depth', 'term', 'in_loop', 'extra')

    def __repr__(self):
        return '<%s %s(%s) @%s:%s>' % (self.kind, self.callee, ', '.join(repr(a) for a in self.args), self.body['path'].split('::')[-1], self.line)


class State:
    """Per-activation state: MIR locals of one frame."""

    def __init__(self, body):
        self.body = body
        self.cells = [Cell(None, l['ty'], '_%d' % i) for i, l in enumerate(body['locals'])]
        self.guard = ()          # tuple of B (conjunction), informational (tags events / merges)

    def snapshot(self):
        return [c.v for c in self.cells]


_COVLOG = os.environ.get('VERIF_COVERAGE_LOG')
_COVSEEN = set()
if _COVLOG:
    import atexit

    def _dump_cov():
        with open(_COVLOG, 'a') as f:
            for p_ in sorted(_COVSEEN):
                f.write(p_ + '\n')
    atexit.register(_dump_cov)


class Diverge(Exception):
    pass


import re
import re as _re
# library operations that multiply their operands (or components of them) with one another
PRODUCT_OPS = _re.compile(r'(::mul$|::mul_assign$|::dot$|::cross$|::determinant$|::length_squared$|::length$|::distance_squared$|::distance$|::project_onto$|::powi$|::normalize$)')
# library calls that move/borrow/select values without computing with them
NONOBSERVING = _re.compile(r'(::clone$|::into$|::from$|::deref(_mut)?$|::index(_mut)?$|::as_ref$|::as_mut$|::as_slice$|::len$|^std::option::Option::|^std::boxed::|::new_uninit$|^std::vec::Vec::<T>::new$|glam::DVec3::new$|glam::DVec3::from_array$|glam::DVec3::to_array$|glam::DVec3::select$|glam::BVec3::new$|glam::BVec3::splat$)')


class Interp:
    def __init__(self, facts, no_inline=(), max_depth=6, tables=None, opaque_unknown=True):
        self.facts = facts
        self.no_inline = set(no_inline)
        self.max_depth = max_depth
        self.events = []
        self.cfgs = {}
        self.stack = []
        self.heap = []            # scenario cells (extra roots for snapshot/merge)
        self.loop_depth = 0
        self.fresh = 0
        self.evaluations = 0
        self.unknown_calls = {}
        self.unroll_limit = 0         # >0: try concrete unrolling of loops with constant trip count first
        self.unrolling = 0
        self.track_products = False   # record (callee, line, operand values) of multiplicative operations (conditioning analysis)
        self.products = []
        self.unroll_allow_returns = False
        self.track_observed = False   # record which input symbols are consumed by arithmetic / library / opaque calls
        self.observed = set()
        self.loops = []           # loop records (see run_loop)
        self.loop_inits = {}      # phi atom id -> value of that location on loop entry
        self.closure_runs = []    # per-element closure evaluations of iterator adaptors (tables._adaptor)
        self.assumed = set()      # keys of branch conditions whose other arms all diverge (assertions)
        from . import tables as T
        self.tables = T

    # ----- public entry ------------------------------------------------------------
    def new_cell(self, v, ty=None, name=None):
        c = Cell(v, ty, name)
        self.heap.append(c)
        return c

    def ref_to(self, v, ty=None, mut=False, name=None):
        return Ref(LV(self.new_cell(v, ty, name)), mut)

    def call_body(self, body, args, substs=None):
        """Interpret `body` with argument values; returns the (gated) return value."""
        if isinstance(body, str):
            body = self.facts.body(body)
        self.evaluations += 1
        if _COVLOG:
            _COVSEEN.add(body['path'])
        if len(self.stack) > self.max_depth or any(f.body is body for f in self.stack):
            raise AnalysisIncomplete('inlining bound/recursion at %s' % body['path'])
        st = State(body)
        n = body['arg_count']
        if len(args) != n:
            raise AnalysisIncomplete('arity mismatch calling %s: %d != %d' % (body['path'], len(args), n))
        for i, a in enumerate(args):
            st.cells[i + 1].v = a
        st.substs = substs or {}
        # an inlined callee runs under the conditions of its call site (event guards are absolute)
        base = self.stack[-1].guard if self.stack else ()
        st.guard = base
        track = nf.DIV_TRACK and not self.stack and nf.DIV_LOG is None
        if track:
            nf.DIV_LOG = []
        self.stack.append(st)
        try:
            rets = []
            self._returns = getattr(self, '_returns', [])
            self._returns.append(rets)
            cfg = self.cfg(body)
            self.run(st, cfg, 0, stops=frozenset(), first=True)
            self._returns.pop()
        finally:
            self.stack.pop()
            if track:
                divs, nf.DIV_LOG = nf.DIV_LOG, None
        if not rets:
            raise Diverge()
        out = self.merge_values([(g, v) for g, v, _ in rets], base_len=len(base))
        if track:
            nf.DIV_REPORTS.append((body['path'], len(divs), removable_divisions(divs, out)))
        return out, rets

    def cfg(self, body):
        c = self.cfgs.get(body['path'])
        if c is None:
            c = CFG(body, normal_only=True)
            c.loops_map = c.loops()
            self.cfgs[body['path']] = c
        return c

    # ----- region evaluation --------------------------------------------------------
    def run(self, st, cfg, bb, stops, first=False, active_loops=()):
        """Evaluate from bb until a block in `stops` (or function exit).  Returns
        {stop_block: [(guard, snapshot)]} — the states that reached each stop."""
        out = {}

        def add(stop, g, snap):
            out.setdefault(stop, []).append((g, snap))

        while True:
            if bb in stops and not first:
                add(bb, st.guard, self.snap(st))
                return out
            if bb in cfg.loops_map and bb not in active_loops and not (first and bb in stops):
                res = self.run_loop(st, cfg, bb, stops, active_loops)
                # res: {stop: [(g,snap)]} plus maybe a continuation block
                cont = res.pop('__continue__', None)
                for k, lst in res.items():
                    for g, s in lst:
                        add(k, g, s)
                if cont is None:
                    return out
                bb = cont
                first = False
                continue
            first = False
            block = cfg.blocks[bb]
            for s in block['stmts']:
                self.exec_stmt(st, s)
            t = block['term']
            k = t['k']
            if k == 'goto':
                bb = t['target']
            elif k == 'return':
                self._returns[-1].append((st.guard, read_lv(LV(st.cells[0])), self.snap(st)))
                return out
            elif k in ('unreachable', 'resume', 'terminate', 'other'):
                return out
            elif k == 'drop':
                bb = t['target']
            elif k == 'assert':
                bb = t['target']
            elif k == 'call':
                try:
                    self.exec_call(st, t)
                except Diverge:
                    return out
                if t.get('target') is None:
                    return out
                bb = t['target']
            elif k == 'switch':
                d = self.operand(st, t['discr'])
                arms = self.switch_arms(d, t)
                if len(arms) == 1:
                    bb = arms[0][1]
                    continue
                J = cfg.ipdom(bb)
                loop_blocks = None
                for h in active_loops:
                    loop_blocks = cfg.loops_map[h] if loop_blocks is None else (loop_blocks & cfg.loops_map[h])
                if J is not None and loop_blocks is not None and J not in loop_blocks:
                    J = None
                if J is not None and J in stops:
                    J = None
                sub_stops = frozenset(stops | ({J} if J is not None else set()))
                pre = self.snap(st)
                g0 = st.guard
                atJ = []
                live = []
                for cond, tgt in arms:
                    self.restore(st, pre)
                    st.guard = g0 + (cond,)
                    nret = sum(len(x) for x in self._returns)
                    r = self.run(st, cfg, tgt, sub_stops, first=False, active_loops=active_loops) if tgt not in sub_stops else {tgt: [(st.guard, self.snap(st))]}
                    if r or sum(len(x) for x in self._returns) != nret:
                        live.append(cond)
                    for sk, lst in r.items():
                        if sk == J:
                            atJ.extend(lst)
                        else:
                            for g, s in lst:
                                add(sk, g, s)
                st.guard = g0
                if len(live) == 1:
                    # every other arm diverges (panic/unreachable): the condition is an assertion
                    self.assumed.add(live[0].key())
                if J is None or not atJ:
                    return out
                self.restore(st, self.merge_snaps(atJ, len(g0)))
                bb = J
            else:
                return out

    def run_loop(self, st, cfg, header, stops, active_loops):
        L = cfg.loops_map[header]
        exits = set()
        for x in L:
            for s in cfg.succ[x]:
                if s not in L:
                    exits.add(s)
        # continuation: first post-dominator of the header outside the loop
        pd = cfg.post_dominators()
        J = None
        if header in pd:
            cands = [c for c in pd[header] if c != -1 and c not in L]
            for c in cands:
                if J is None or len(pd[c]) > len(pd[J]):
                    J = c
        if self.unroll_limit:
            res = self.try_unroll(st, cfg, header, L, exits, J, stops, active_loops)
            if res is not None:
                return res
        pre_vals = [c.v for c in st.cells]
        pre_all = self.snap(st)
        self.havoc_loop(st, cfg, header, L)
        phi_vals = [c.v for c in st.cells]
        # value each loop-carried location had on entry, by its phi symbol (library models of stateful adaptors look through the phi)
        for v0, v1 in zip(pre_vals, phi_vals):
            if v1 is not v0 and isinstance(v1, Sym):
                self.loop_inits[v1.atom.id] = v0
        own = {id(c) for c in st.cells}
        # storage outside the frame (targets of &mut arguments, heap cells) that the loop may write
        ext = [{'cell': c, 'init': v0, 'phi': c.v, 'back': []} for c, v0 in pre_all if id(c) not in own and c.v is not v0]
        self.loop_depth += 1
        g0 = st.guard
        inner_stops = frozenset(exits | {header})
        r = self.run(st, cfg, header, inner_stops, first=True, active_loops=active_loops + (header,))
        self.loop_depth -= 1
        st.guard = g0
        # loop record (for recurrence rules): values of the frame's locals before the loop, the phi
        # symbols standing for them inside, and their values on every back edge
        ncell = len(st.cells)
        idx_of = {id(c): i for i, c in enumerate(st.cells)}
        back = []
        for g, snap in r.get(header, []):
            vals = {}
            for c, v in snap:
                i = idx_of.get(id(c))
                if i is not None:
                    vals[i] = v
            back.append((g[len(g0):], vals))
            now = {id(c): v for c, v in snap}
            for x in ext:
                x['back'].append((g[len(g0):], now.get(id(x['cell']))))
        exit_guards = [(sk, g[len(g0):]) for sk, lst in r.items() if sk != header for g, _s in lst]
        self.loops.append({'body': st.body, 'header': header, 'blocks': L, 'init': pre_vals, 'phi': phi_vals, 'back': back,
                           'depth': len(self.stack), 'ext': ext, 'exits': exit_guards})
        out = {}
        exit_states = []
        for sk, lst in r.items():
            if sk == header:
                continue  # back edge: one abstract iteration is enough
            if sk in exits:
                for g, s in lst:
                    exit_states.append((sk, g, s))
            else:
                out.setdefault(sk, []).extend(lst)
        if not exit_states:
            return out
        # one merged state per exit block
        by_exit = {}
        for ex, g, s in exit_states:
            by_exit.setdefault(ex, []).append((g, s))
        exit_states = []
        single_exit = len(by_exit) == 1
        for ex, lst in by_exit.items():
            # states leaving through different exit blocks stay distinguishable by the conditions under which they
            # left (conditions of the last iteration); with a single exit block nothing needs to be remembered
            if len(lst) == 1:
                exit_states.append((ex, g0 if single_exit else lst[0][0], lst[0][1]))
            else:
                cond = FALSE
                for g, _s in lst:
                    c = TRUE
                    for x in g[len(g0):]:
                        c = b_and(c, x)
                    cond = b_or(cond, c)
                exit_states.append((ex, g0 if single_exit else g0 + (cond,), self.merge_snaps(lst, len(g0))))
        # evaluate from each exit to the continuation J (or to stops / function end)
        atJ = []
        for ex, g, s in exit_states:
            self.restore(st, s)
            st.guard = g
            if ex == J or ex in stops:
                tgt = ex
                lst = [(g, s)]
                if ex == J:
                    atJ.extend(lst)
                else:
                    out.setdefault(ex, []).extend(lst)
                continue
            sub = frozenset(stops | ({J} if J is not None else set()))
            r2 = self.run(st, cfg, ex, sub, first=False, active_loops=active_loops)
            for sk, lst in r2.items():
                if sk == J:
                    atJ.extend(lst)
                else:
                    out.setdefault(sk, []).extend(lst)
        st.guard = g0
        if J is not None and atJ and J not in stops:
            self.restore(st, self.merge_snaps(atJ, len(g0)))
            out['__continue__'] = J
        elif J is not None and atJ:
            out.setdefault(J, []).extend(atJ)
        return out

    def try_unroll(self, st, cfg, header, L, exits, J, stops, active_loops):
        """Bounded concrete unrolling: iterations are evaluated one after the other on the real abstract state (no
        havoc).  States leaving the loop in an iteration are continued to the loop's continuation; states returning
        to the header are merged and start the next iteration.  Succeeds when no state returns to the header any
        more (e.g. `for i in 0..3` with a constant range); gives up (returns None, everything restored) after
        `unroll_limit` iterations or when a return happens inside the body and `unroll_allow_returns` is off."""
        save = self.snap(st)
        g0 = st.guard
        nev = len(self.events)
        nruns = len(self.closure_runs)
        nret = [len(x) for x in self._returns]
        inner_stops = frozenset(exits | {header})
        self.unrolling += 1
        out = {}
        atJ = []
        ok = False
        try:
            for it in range(self.unroll_limit + 1):
                r = self.run(st, cfg, header, inner_stops, first=True, active_loops=active_loops + (header,))
                if [len(x) for x in self._returns] != nret and not self.unroll_allow_returns:
                    break
                hs = r.pop(header, [])
                for k, lst in r.items():
                    if k not in exits:
                        out.setdefault(k, []).extend(lst)
                        continue
                    for g, s_ in lst:
                        self.restore(st, s_)
                        st.guard = g
                        if k == J:
                            atJ.append((g, s_))
                            continue
                        if k in stops:
                            out.setdefault(k, []).append((g, s_))
                            continue
                        sub = frozenset(stops | ({J} if J is not None else set()))
                        r2 = self.run(st, cfg, k, sub, first=False, active_loops=active_loops)
                        for sk, l2 in r2.items():
                            if sk == J:
                                atJ.extend(l2)
                            else:
                                out.setdefault(sk, []).extend(l2)
                if not hs:
                    ok = True
                    break
                if len(hs) == 1:
                    self.restore(st, hs[0][1])
                    st.guard = hs[0][0]
                else:
                    self.restore(st, self.merge_snaps(hs, len(g0)))
                    st.guard = g0
            if ok:
                st.guard = g0
                if J is not None and atJ and J not in stops:
                    self.restore(st, self.merge_snaps(atJ, len(g0)))
                    out['__continue__'] = J
                elif J is not None and atJ:
                    out.setdefault(J, []).extend(atJ)
                return out
        except AnalysisIncomplete:
            pass
        finally:
            self.unrolling -= 1
        # give up: undo everything
        self.restore(st, save)
        st.guard = g0
        del self.events[nev:]
        del self.closure_runs[nruns:]
        for x, n in zip(self._returns, nret):
            del x[n:]
        return None

    def havoc_loop(self, st, cfg, header, L):
        """Replace every location that the loop may write by a phi symbol.  A `&mut x` that only
        flows into one crate-local call is havocked field-wise using the callee's mod-set."""
        from .effects import modset, ALL
        roots = {}        # id(cell) -> cell            (whole-object havoc)
        partial = {}      # id(cell) -> (cell, set(fields))

        def root_of(place):
            cell = st.cells[place['l']]
            if any(e['k'] == 'deref' for e in place['p']):
                v = cell.v
                if isinstance(v, Ref):
                    return v.lv.cell
            return cell

        def first_field(place):
            """First-level field of the storage root that `place` lies in (None = the whole object)."""
            cell = st.cells[place['l']]
            v = cell.v
            derefs = any(e['k'] == 'deref' for e in place['p'])
            if derefs and isinstance(v, Ref) and v.lv.path:
                st0 = v.lv.path[0]
                return st0[1] if st0[0] == 'f' else None
            for e in place['p']:
                if e['k'] in ('deref', 'downcast'):
                    continue
                if e['k'] == 'field':
                    return e.get('n', e['i'])
                return None
            return None

        def note(cell, field=None):
            if field is None or not isinstance(cell.v, (St, Sym)) or (isinstance(cell.v, St) and cell.v.adt in ('glam::DVec3', 'tuple', 'array')):
                roots[id(cell)] = cell
            elif id(cell) not in roots:
                if id(cell) in partial:
                    partial[id(cell)][1].add(field)
                else:
                    partial[id(cell)] = (cell, {field})

        # temporaries `_t = &mut P` created in the loop and the single call consuming them
        temps = {}
        uses = {}
        for x in L:
            bl = cfg.blocks[x]
            for s in bl['stmts']:
                if s['k'] == 'assign' and not s['place']['p'] and s['rv']['k'] == 'ref' and s['rv'].get('mut'):
                    temps.setdefault(s['place']['l'], []).append(s['rv']['place'])
            t = bl['term']
            if t['k'] == 'call':
                for i, a in enumerate(t['args']):
                    if a['k'] == 'move' and not a['place']['p']:
                        uses.setdefault(a['place']['l'], []).append((t, i))
        handled_temps = set()
        for tl, places in temps.items():
            us = uses.get(tl, [])
            if len(places) == 1 and len(us) == 1:
                t, i = us[0]
                callee = t.get('resolved') or t.get('callee')
                P = places[0]
                simple = all(e['k'] == 'deref' for e in P['p'])
                if callee in self.facts.by_path and simple:
                    ms = modset(self.facts, callee, i)
                    if ms is not ALL:
                        cell = root_of(P)
                        if id(cell) in partial:
                            partial[id(cell)][1].update(ms)
                        else:
                            partial[id(cell)] = (cell, set(ms))
                        handled_temps.add(tl)
        for x in L:
            bl = cfg.blocks[x]
            for s in bl['stmts']:
                if s['k'] in ('assign', 'setdiscr'):
                    if s['k'] == 'assign' and s['place']['l'] in handled_temps and not s['place']['p']:
                        note(st.cells[s['place']['l']])
                        continue
                    note(root_of(s['place']), first_field(s['place']))
                    rv = s.get('rv')
                    if rv and rv['k'] in ('ref', 'rawptr') and (rv.get('mut') or rv['k'] == 'rawptr'):
                        note(root_of(rv['place']), first_field(rv['place']))
            t = bl['term']
            if t['k'] == 'call':
                note(root_of(t['dest']))
                for a in t['args']:
                    if a['k'] in ('copy', 'move'):
                        c = st.cells[a['place']['l']]
                        if a['place']['l'] in handled_temps:
                            continue
                        if (c.ty or '').startswith('&mut') and isinstance(c.v, Ref):
                            p0 = c.v.lv.path[0] if c.v.lv.path else None
                            note(c.v.lv.cell, p0[1] if p0 and p0[0] == 'f' else None)
                        # a closure (called here by `&mut` or by value) writes through the `&mut` references it captured: the captured locals are
                        # loop-carried as well (a memo kept in a captured variable must not look freshly initialised in every iteration)
                        try:
                            cv = read_lv(c.v.lv) if isinstance(c.v, Ref) else c.v
                        except AnalysisIncomplete:
                            cv = None
                        if isinstance(cv, St) and isinstance(cv.adt, str) and cv.adt.startswith('closure:'):
                            for fv in cv.fields.values():
                                if isinstance(fv, Ref) and fv.mut:
                                    q0 = fv.lv.path[0] if fv.lv.path else None
                                    note(fv.lv.cell, q0[1] if q0 and q0[0] == 'f' else None)
        # closures called in the loop (their `&mut self` temporary is created inside the loop, so the argument cell is still empty here: look at
        # the place the temporary borrows): the locals they captured by `&mut` are written by the loop as well
        for x in L:
            t = cfg.blocks[x]['term']
            if t['k'] != 'call':
                continue
            for a in t['args']:
                if a['k'] not in ('copy', 'move') or a['place']['p']:
                    continue
                cands = [st.cells[a['place']['l']].v]
                for P in temps.get(a['place']['l'], []):
                    try:
                        cands.append(root_of(P).v)
                    except (IndexError, KeyError):
                        pass
                for cv in cands:
                    if isinstance(cv, Ref):
                        try:
                            cv = read_lv(cv.lv)
                        except AnalysisIncomplete:
                            cv = None
                    if isinstance(cv, St) and isinstance(cv.adt, str) and cv.adt.startswith('closure:'):
                        for fv in cv.fields.values():
                            if isinstance(fv, Ref) and fv.mut:
                                q0 = fv.lv.path[0] if fv.lv.path else None
                                note(fv.lv.cell, q0[1] if q0 and q0[0] == 'f' else None)
        for cid, (cell, fields) in partial.items():
            if cid in roots or cell.v is None:
                continue
            self.fresh += 1
            base = 'phi%d:%s:%s@bb%d' % (self.fresh, st.body['path'].split('::')[-1], cell.name or '?', header)
            v = cell.v
            for f in sorted(fields):
                fty = self.field_ty(cell.ty, f)
                v = set_field(v, f, mk_sym(nf.sym_atom(base + '.' + f), fty), adt_hint=cell.ty)
            cell.v = v
        for cell in roots.values():
            if cell.v is None:
                continue
            self.fresh += 1
            nm = 'phi%d:%s:%s@bb%d' % (self.fresh, st.body['path'].split('::')[-1], cell.name or '?', header)
            cell.v = self.havoc_value(cell.v, nm, cell.ty)

    def field_ty(self, ty, field):
        """Declared type of `field` of the ADT named by type string `ty` (references stripped)."""
        t = (ty or '').strip()
        for pre in ('&mut ', '&'):
            if t.startswith(pre):
                t = t[len(pre):]
        a = self.facts.adt_by_path.get(strip_generics(t).split('<')[0])
        if a:
            for v in a['variants']:
                for f in v['fields']:
                    if f['name'] == field:
                        return f['ty']
        return '?'

    def havoc_value(self, v, nm, ty):
        if isinstance(v, Ref):
            # references keep pointing to the same storage (rebinding inside loops is not modelled
            # separately: the pointee was havocked through its own root)
            return v
        if isinstance(v, RF):
            return RF.sym(nm)
        if isinstance(v, B):
            return B('atom', nf.sym_atom(nm))
        if isinstance(v, St) and v.adt in ('glam::DVec3',):
            return St(v.adt, v.variant, {k: self.havoc_value(x, nm + '.' + str(k), None) for k, x in v.fields.items()})
        return Sym(nf.sym_atom(nm), ty or getattr(v, 'ty', '?'))

    # ----- snapshots / merging ------------------------------------------------------
    def roots(self, st):
        return st.cells + self.heap + [c for f in self.stack if f is not st for c in f.cells]

    def snap(self, st):
        return [(c, c.v) for c in self.roots(st)]

    def restore(self, st, snap):
        for c, v in snap:
            c.v = v

    def merge_snaps(self, lst, base_len):
        """lst: [(guard, snap)] -> merged snap with ite on differing cells."""
        if len(lst) == 1:
            return lst[0][1]
        cells = [c for c, _ in lst[0][1]]
        merged = []
        for i, c in enumerate(cells):
            vals = [(g, s[i][1]) for g, s in lst]
            merged.append((c, self.merge_values(vals, base_len)))
        return merged

    def merge_values(self, vals, base_len):
        """vals: [(guard tuple, value)] — mutually exclusive guards sharing the first
        base_len conjuncts."""
        vals = list(vals)
        v0 = vals[0][1]
        try:
            if all(vkey(v) == vkey(v0) for _, v in vals[1:]):
                return v0
        except TypeError:
            pass
        acc = vals[-1][1]
        for g, v in reversed(vals[:-1]):
            cond = TRUE
            for c in g[base_len:]:
                cond = b_and(cond, c)
            if v is None:
                continue
            if acc is None:
                acc = v
                continue
            acc = ite(cond, v, acc)
        return acc

    # ----- switch -------------------------------------------------------------------
    def switch_arms(self, d, t):
        """-> [(condition B, target)] with constant folding."""
        targets = [(int(v), bb) for v, bb in t['targets']]
        other = t['otherwise']
        if isinstance(d, B):
            if d.is_const():
                val = 1 if d.value() else 0
                for v, bb in targets:
                    if v == val:
                        return [(TRUE, bb)]
                return [(TRUE, other)]
            arms = []
            seen = set()
            for v, bb in targets:
                arms.append((d if v == 1 else b_not(d), bb))
                seen.add(v)
            if len(seen) < 2:
                rest = d if 1 not in seen else b_not(d)
                arms.append((rest, other))
            return arms
        if isinstance(d, RF):
            if d.is_const():
                val = d.const_value()
                for v, bb in targets:
                    if v == val:
                        return [(TRUE, bb)]
                return [(TRUE, other)]
            arms = []
            rest = TRUE
            for v, bb in targets:
                c = b_cmp('==', d, RF.const(v))
                arms.append((c, bb))
                rest = b_and(rest, b_not(c))
            arms.append((rest, other))
            return arms
        raise AnalysisIncomplete('switch on non-scalar %r' % (d,))

    # ----- statements ---------------------------------------------------------------
    def lvalue(self, st, place):
        cell = st.cells[place['l']]
        lv = LV(cell, ())
        for e in place['p']:
            k = e['k']
            if k == 'deref':
                v = read_lv(lv)
                if isinstance(v, Ref):
                    lv = LV(v.lv.cell, v.lv.path)
                elif isinstance(v, Ite) and isinstance(v.a, Ref):
                    # reading through a gated reference: materialise as value cell
                    val = ite(v.c, read_lv(v.a.lv), read_lv(v.b.lv) if isinstance(v.b, Ref) else v.b)
                    lv = LV(Cell(val, None, 'ite-deref'), ())
                else:
                    pass  # symbolic reference == symbolic object
            elif k == 'field':
                lv = LV(lv.cell, lv.path + (('f', e.get('n', e['i']), e.get('ty'), e['i']),))
            elif k == 'index':
                idx = read_lv(LV(st.cells[e['l']]))
                lv = LV(lv.cell, lv.path + (('i', idx, None),))
            elif k == 'cindex':
                lv = LV(lv.cell, lv.path + (('i', RF.const(e['off']), None),))
            elif k == 'downcast':
                lv = LV(lv.cell, lv.path + (('d', e.get('n')),))
            elif k in ('opaque', 'unwrap_binder'):
                pass
            else:
                raise AnalysisIncomplete('projection %s' % k)
        return lv

    def place_ty(self, st, place):
        ty = st.body['locals'][place['l']]['ty']
        for e in place['p']:
            if e['k'] == 'field':
                ty = e.get('ty', '?')
            elif e['k'] == 'deref':
                t = ty.strip()
                for pre in ('&mut ', '&', '*const ', '*mut '):
                    if t.startswith(pre):
                        t = t[len(pre):]
                        break
                if t.startswith("'"):
                    t = t.split(' ', 1)[1] if ' ' in t else t
                ty = t
            elif e['k'] in ('index', 'cindex'):
                t = ty.strip()
                if t.startswith('[') and t.endswith(']'):
                    ty = t[1:-1].split(';')[0].strip()
                else:
                    ty = '?'
        return ty

    def read_place(self, st, place):
        v = read_lv(self.lvalue(st, place))
        if v is None:
            # uninitialised read: symbolic
            self.fresh += 1
            return mk_sym(nf.sym_atom('uninit%d' % self.fresh), self.place_ty(st, place))
        if isinstance(v, Sym) and v.ty in (None, '?'):
            v = Sym(v.atom, self.place_ty(st, place), v.variant)
        return v

    def operand(self, st, o):
        k = o['k']
        if k in ('copy', 'move'):
            return self.read_place(st, o['place'])
        if k == 'const':
            return self.const(o)
        if k == 'runtime_checks':
            return b_const(bool(self.facts.debug_assertions))
        raise AnalysisIncomplete('operand kind %s' % k)

    def const(self, o):
        ty = o['ty']
        if 'fn' in o:
            return FnItem(o.get('fn_resolved') or o['fn'], o.get('substs', ()), o.get('fn_resolved_crate') or o.get('fn_crate'))
        if 'closure' in o:
            return St('closure:' + o['closure'], None, {})
        if 'float_bits' in o:
            fv = nf.f64_from_bits(int(o['float_bits'], 16))
            if fv != fv or fv in (float('inf'), float('-inf')):
                return RF.sym('const:f64:' + ('nan' if fv != fv else 'inf' if fv > 0 else '-inf'))
            return RF.const(Fraction(fv))
        if 'int' in o:
            return RF.const(int(o['int']))
        if 'bool' in o:
            return b_const(o['bool'])
        if 'bytes' in o and ty in ('glam::DVec3',):
            import struct
            raw = bytes.fromhex(o['bytes'])
            xs = struct.unpack('<3d', raw[:24])
            return vec3(*[Fraction(x) for x in xs])
        if 'bytes' in o and ty in ('glam::DVec4',):
            import struct
            xs = struct.unpack('<4d', bytes.fromhex(o['bytes'])[:32])
            return St('glam::DVec4', 'DVec4', {n: RF.const(Fraction(x)) for n, x in zip('xyzw', xs)})
        if 'bytes' in o and ty.startswith('['):
            v = _decode_array(ty, bytes.fromhex(o['bytes']))
            if v is not None:
                return v
        if o.get('deref_enum') and 'deref_bytes' in o:
            val = int.from_bytes(bytes.fromhex(o['deref_bytes']), 'little')
            return Ref(LV(Cell(Sym(nf.sym_atom('const:%s=%d' % (o['deref_ty'], val)), o['deref_ty']), o['deref_ty'], 'promoted')))
        if 'deref_bytes' in o and str(o.get('deref_ty', '')).startswith('['):
            # reference to a promoted constant array (`&[1, 2]`): a reference to the decoded table
            v = _decode_array(o['deref_ty'], bytes.fromhex(o['deref_bytes']))
            if v is not None:
                return Ref(LV(Cell(v, o['deref_ty'], 'promoted')))
        if ty.startswith('&[') and ty.endswith('; 0]') and o.get('promoted'):
            return Ref(LV(Cell(arr([]), ty[1:], 'promoted')))
        if o.get('zst'):
            return St(ty, None, {})
        if 'enum_bits' in o:
            return Sym(nf.sym_atom('const:%s=%s' % (ty, o['enum_bits'])), ty)
        return Sym(nf.sym_atom('const:' + o.get('text', '?')), ty)

    def exec_stmt(self, st, s):
        if s['k'] == 'assign':
            v = self.rvalue(st, s['rv'], s)
            write_lv(self.lvalue(st, s['place']), v)
        elif s['k'] == 'setdiscr':
            pass

    def rvalue(self, st, rv, s=None):
        k = rv['k']
        if k == 'use':
            return self.operand(st, rv['x'])
        if k == 'ref':
            lv = self.lvalue(st, rv['place'])
            return Ref(lv, rv.get('mut', False))
        if k == 'rawptr':
            return Ref(self.lvalue(st, rv['place']), True)
        if k == 'binop':
            if nf.DIV_LOG is not None and rv['op'].startswith('Div') and rv.get('lty') not in SCALAR_INT:
                try:
                    nf.log_div(as_rf(self.operand(st, rv['r'])), st.guard)
                except TypeError:
                    pass
            return self.binop(rv['op'], self.operand(st, rv['l']), self.operand(st, rv['r']), rv.get('lty'))
        if k == 'unop':
            x = self.operand(st, rv['x'])
            op = rv['op']
            if op == 'Neg':
                return -as_rf(x)
            if op == 'Not':
                if isinstance(x, B):
                    return b_not(x)
                return nf.fn_app('bitnot', x)
            if op == 'PtrMetadata':
                return self.length_of(x)
            raise AnalysisIncomplete('unop %s' % op)
        if k == 'cast':
            x = self.operand(st, rv['x'])
            kind = rv['kind']
            if kind.startswith('IntToInt') or kind.startswith('IntToFloat') or kind.startswith('FloatToFloat'):
                if isinstance(x, B):
                    return ite(x, RF.const(1), RF.const(0))
                if isinstance(x, Sym):   # enum discriminant cast
                    return RF.atom(nf.app_atom('discr', x.atom))
                return x
            if kind.startswith('FloatToInt'):
                return nf.fn_app('trunc', x)
            if kind == 'Transmute':
                ev = Event()
                ev.kind, ev.callee, ev.args, ev.fargs, ev.result = 'cast', 'transmute', [x], [frozen(x)], x
                ev.body, ev.line, ev.guard, ev.depth, ev.term, ev.in_loop = st.body, (s or {}).get('line'), st.guard, len(self.stack), None, self.loop_depth
                ev.extra = {'to': rv.get('ty'), 'from': rv.get('from_ty')}
                self.events.append(ev)
                return x
            if kind.startswith('PointerCoercion') or kind in ('PtrToPtr', 'Subtype', 'FnPtrToPtr'):
                return x
            raise AnalysisIncomplete('cast %s' % kind)
        if k == 'aggregate':
            ops = [self.operand(st, o) for o in rv['ops']]
            agg = rv['agg']
            if agg == 'tuple':
                return tup(*ops)
            if agg == 'array':
                return arr(ops)
            if agg == 'adt':
                names = rv.get('fields', [])
                if 'union_field' in rv:
                    names = [names[rv['union_field']]]
                f = {}
                for i, o in enumerate(ops):
                    n = names[i] if i < len(names) else i
                    # tuple-like variants have numeric names
                    f[int(n) if str(n).isdigit() else n] = o
                return St(rv['adt'], rv['variant'], f)
            if agg == 'closure':
                return St('closure:' + rv['closure'], None, {i: o for i, o in enumerate(ops)})
            if agg == 'rawptr':
                return ops[0]
            raise AnalysisIncomplete('aggregate %s' % agg)
        if k == 'discr':
            v = self.read_place(st, rv['place'])
            return self.discriminant(v, rv)
        if k == 'repeat':
            x = self.operand(st, rv['x'])
            try:
                n = int(str(rv['n']).split('_')[0].split(':')[0].strip())
            except ValueError:
                n = None
            if n is not None and n <= 16:
                return arr([x] * n)
            return Sym(nf.app_atom('repeat', vkey(x), str(rv['n'])), '[?]')
        if k == 'other':
            txt = rv.get('text', '')
            self.fresh += 1
            return Sym(nf.sym_atom('rv%d:%s' % (self.fresh, txt[:30])), '?')
        raise AnalysisIncomplete('rvalue %s' % k)

    def discriminant(self, v, rv):
        if isinstance(v, Ref):
            v = read_lv(v.lv)
        variants = rv.get('variants') or []
        if isinstance(v, St) and v.variant is not None:
            for x in variants:
                if x['name'] == v.variant:
                    return RF.const(int(x['val']))
            raise AnalysisIncomplete('variant %s not in %s' % (v.variant, rv.get('ty')))
        if isinstance(v, Sym):
            ca = v.atom
            if ca.kind == 'sym' and ca.name.startswith('const:') and '=' in ca.name:
                return RF.const(int(ca.name.rsplit('=', 1)[1]))
            if ca.kind == 'app' and str(ca.name).startswith('mut:std::option::Option::<T>::get_or_insert') or ca.kind == 'app' and str(ca.name).startswith('mut:std::option::Option::get_or_insert'):
                # the slot after Option::get_or_insert / get_or_insert_with / insert: always Some (core::option)
                for x in variants:
                    if x['name'] == 'Some':
                        return RF.const(int(x['val']))
            return RF.atom(nf.app_atom('discr', v.atom))
        if isinstance(v, Ite):
            return ite(v.c, self.discriminant(v.a, rv), self.discriminant(v.b, rv))
        raise AnalysisIncomplete('discriminant of %r' % (v,))

    def length_of(self, x):
        if isinstance(x, Ref):
            x = read_lv(x.lv)
        if isinstance(x, St) and x.adt == 'array':
            return RF.const(len(x.fields))
        if isinstance(x, Sym) and x.atom.kind == 'app' and x.atom.name in ('mut:std::vec::Vec::push', 'mut:std::vec::Vec::<T, A>::push') and len(x.atom.args) == 3:
            # the vector after `push`: one element longer than before
            return self.length_of(x.atom.args[1]) + 1
        return RF.atom(nf.app_atom('len', frozen(x)))

    def binop(self, op, a, b, lty=None):
        cmpops = {'Lt': '<', 'Le': '<=', 'Gt': '>', 'Ge': '>=', 'Eq': '==', 'Ne': '!='}
        if op in cmpops:
            return b_cmp(cmpops[op], a, b)
        if op in ('BitAnd', 'BitOr', 'BitXor') and isinstance(a, B) and isinstance(b, B):
            if op == 'BitAnd':
                return b_and(a, b)
            if op == 'BitOr':
                return b_or(a, b)
            return b_cmp('!=', a, b)
        base = op.replace('WithOverflow', '').replace('Unchecked', '')
        if self.track_observed:
            self.observe((a, b))
        if self.track_products and base == 'Mul':
            self.products.append(('binop:Mul', None, [a, b], self.stack[-1].body if self.stack else None))
        try:
            a2, b2 = as_rf(a), as_rf(b)
        except TypeError:
            r = RF.atom(nf.app_atom(base.lower(), frozen(a), frozen(b)))
            return tup(r, FALSE) if op.endswith('WithOverflow') else r
        is_int = lty in SCALAR_INT
        if nf.CANCEL_LOG is not None and not is_int and base in ('Add', 'Sub'):
            nf.log_cancel(a2, b2, base == 'Sub')
        if base == 'Add':
            r = a2 + b2
        elif base == 'Sub':
            r = a2 - b2
        elif base == 'Mul':
            r = a2 * b2
        elif base == 'Div':
            if is_int:
                if a2.is_const() and b2.is_const() and b2.const_value() != 0:
                    r = RF.const(int(a2.const_value()) // int(b2.const_value()))
                else:
                    r = nf.fn_app('idiv', a2, b2)
            else:
                if b2.is_zero():
                    r = nf.fn_app('div0', a2)
                else:
                    r = a2 / b2
        elif base == 'Rem':
            if a2.is_const() and b2.is_const() and b2.const_value() != 0 and is_int:
                r = RF.const(int(a2.const_value()) % int(b2.const_value()))
            else:
                r = nf.fn_app('rem', a2, b2)
        elif base in ('BitAnd', 'BitOr', 'BitXor', 'Shl', 'Shr'):
            if a2.is_const() and b2.is_const():
                x, y = int(a2.const_value()), int(b2.const_value())
                r = RF.const({'BitAnd': x & y, 'BitOr': x | y, 'BitXor': x ^ y, 'Shl': x << y, 'Shr': x >> y}[base])
            else:
                r = nf.fn_app(base.lower(), a2, b2)
        elif base == 'Cmp':
            r = nf.fn_app('cmp3', a2, b2)
        elif base == 'Offset':
            r = nf.fn_app('offset', a2, b2)
        else:
            raise AnalysisIncomplete('binop %s' % op)
        if op.endswith('WithOverflow'):
            return tup(r, FALSE)
        return r

    def observe(self, vals):
        for v in vals:
            try:
                for a in atoms_deep(frozen(v)).values():
                    if a.kind == 'sym':
                        self.observed.add(a.name)
            except TypeError:
                pass

    # ----- calls --------------------------------------------------------------------
    def exec_call(self, st, t):
        args = [self.operand(st, a) for a in t['args']]
        func = self.operand(st, t['func']) if t['func']['k'] != 'const' else None
        callee = t.get('resolved') or t.get('callee')
        ev = Event()
        ev.kind = 'call'
        ev.callee = callee
        ev.args = args
        ev.fargs = [frozen(a) for a in args]     # snapshot at call time (references -> pointee values)
        ev.body = st.body
        ev.line = t.get('line')
        ev.guard = st.guard
        ev.depth = len(self.stack)
        ev.term = t
        ev.in_loop = self.loop_depth
        ev.result = None
        ev.extra = {}
        self.events.append(ev)
        ret_ty = self.place_ty(st, t['dest'])
        res = self.dispatch(st, t, callee, args, ret_ty, func, ev)
        ev.result = res
        write_lv(self.lvalue(st, t['dest']), res)

    def dispatch(self, st, t, callee, args, ret_ty, func, ev):
        T = self.tables
        if callee is None:
            # indirect call through a value (fn pointer / closure value)
            if isinstance(func, FnItem):
                callee = func.path
            else:
                return self.opaque('indirect', args, ret_ty, st)
        # 1. semantics table
        h = T.lookup(callee, t)
        if h is not None:
            if self.track_products and PRODUCT_OPS.search(callee):
                self.products.append((callee, t.get('line'), [frozen(a) for a in args], st.body))
            r = h(self, st, t, args, ret_ty)
            if r is not NotImplemented:
                if self.track_observed and not NONOBSERVING.search(callee):
                    self.observe(args)
                return r
        # 2. closure invocation
        decl = t.get('callee') or ''
        if decl in ('std::ops::Fn::call', 'std::ops::FnMut::call_mut', 'std::ops::FnOnce::call_once'):
            f = args[0]
            fv = read_lv(f.lv) if isinstance(f, Ref) else f
            if isinstance(fv, St) and isinstance(fv.adt, str) and fv.adt.startswith('closure:'):
                return self.call_closure(fv, f, args[1], ret_ty)
            if isinstance(fv, FnItem):
                pk = args[1]
                inner = [pk.fields[i] for i in sorted(pk.fields)] if isinstance(pk, St) else []
                return self.call_path(fv.path, inner, ret_ty, st, t)
        # 3. trait method of a type parameter, resolved through the instantiation of the current generic frame
        rt_ = self.resolve_trait_call(st, t)
        if rt_ is not None:
            path, sub = rt_
            key = strip_generics(path)
            bs = self.facts.by_path.get(path)
            if bs and key not in self.no_inline and path not in self.no_inline and len(self.stack) <= self.max_depth and not any(f.body is bs[0] for f in self.stack):
                v, _ = self.call_body(bs[0], args, sub)
                return v
        # 4. crate-local body
        r = self.call_path(callee, args, ret_ty, st, t)
        return r

    def call_path(self, callee, args, ret_ty, st, t):
        key = strip_generics(callee)
        if key not in self.no_inline and callee not in self.no_inline:
            bs = self.facts.by_path.get(callee)
            if bs and len(self.stack) <= self.max_depth and not any(f.body is bs[0] for f in self.stack):
                try:
                    v, _ = self.call_body(bs[0], args, self.callee_substs(bs[0], st, t))
                    return v
                except Diverge:
                    raise
        return self.opaque(callee, args, ret_ty, st, t)

    def subst_ty(self, ty, st):
        """Replace the generic parameters of the current frame by the concrete types it was instantiated with."""
        sub = getattr(st, 'substs', None) if st is not None else None
        if not sub or not isinstance(ty, str):
            return ty
        for k, v_ in sub.items():
            ty = _re.sub(r'(?<![A-Za-z0-9_:])%s(?![A-Za-z0-9_])' % _re.escape(k), v_, ty)
        return ty

    def callee_substs(self, body, st, t):
        gens = body.get('generics') or []
        if not gens or t is None:
            return {}
        args = t.get('resolved_substs') or t.get('substs') or []
        args = [self.subst_ty(a, st) for a in args if not str(a).startswith("'")]
        gens = [g for g in gens if not str(g).startswith("'")]
        if len(args) != len(gens):
            return {}
        return dict(zip(gens, args))

    def resolve_trait_call(self, st, t):
        """A trait-method call left unresolved in a generic body, resolved with the frame's instantiation."""
        tr = t.get('trait')
        if not tr or t.get('resolved') or not getattr(st, 'substs', None):
            return None
        subs = t.get('substs') or []
        if not subs:
            return None
        self_ty = self.subst_ty(subs[0], st)
        if self_ty == subs[0]:
            return None
        name = (t.get('callee') or '').rsplit('::', 1)[-1]
        cand = '<%s as %s>::%s' % (self_ty, tr, name)
        if cand in self.facts.by_path:
            return cand, {}
        blanket = '<T as %s>::%s' % (tr, name)
        if blanket in self.facts.by_path:
            return blanket, {'T': self_ty}
        return None

    def call_closure(self, fv, fref, packed, ret_ty):
        path = fv.adt[len('closure:'):]
        body = self.facts.body(path)
        inner = [packed.fields[i] for i in sorted(packed.fields)] if isinstance(packed, St) else [packed]
        # closure bodies take the environment as _1 (by reference or by value)
        env_ty = body['locals'][1]['ty']
        if env_ty.startswith('&'):
            envarg = fref if isinstance(fref, Ref) else self.ref_to(fv)
        else:
            envarg = fv
        v, _ = self.call_body(body, [envarg] + inner)
        return v

    def opaque(self, callee, args, ret_ty, st, t=None):
        """Unknown (or deliberately not inlined) function: congruent uninterpreted result;
        `&mut` arguments are havocked — field-wise when the callee is crate-local and has a mod-set."""
        from .effects import modset, ALL
        if self.track_observed:
            self.observe(args)
        self.unknown_calls[callee] = self.unknown_calls.get(callee, 0) + 1
        keys = tuple(frozen(a) for a in args)
        cname = strip_generics(callee)
        at = nf.app_atom('call:' + cname, *keys)
        for i, a in enumerate(args):
            if isinstance(a, Ref) and a.mut:
                old = read_lv(a.lv)
                ms = modset(self.facts, callee, i) if callee in self.facts.by_path else ALL
                if ms is not ALL:
                    ty = None
                    if t is not None and i < len(t.get('arg_tys', [])):
                        ty = t['arg_tys'][i]
                    v = old
                    for f in sorted(ms):
                        fty = self.field_ty(ty, f)
                        v = set_field(v, f, mk_sym(nf.app_atom('mut:' + cname, i, f, *keys), fty), adt_hint=ty)
                    write_lv(a.lv, v)
                    continue
                newv = Sym(nf.app_atom('mut:' + cname, i, *keys), getattr(old, 'ty', None) or '?')
                if isinstance(old, RF):
                    newv = RF.atom(nf.app_atom('mut:' + cname, i, *keys))
                write_lv(a.lv, newv)
        if ret_ty == '()':
            return St('tuple', None, {})
        return mk_sym(at, ret_ty)


def events_calling(interp, pattern, body_suffix=None):
    import re
    rx = re.compile(pattern)
    out = []
    for e in interp.events:
        if e.callee and rx.search(e.callee):
            if body_suffix is None or strip_generics(e.body['path']).endswith(body_suffix):
                out.append(e)
    return out


# --- deep substitution / case assumption -----------------------------------------------

def _rebuild_app(name, args):
    if name == 'sqrt':
        return nf.fn_sqrt(args[0])
    if name == 'abs':
        return nf.fn_abs(args[0])
    if name == 'signum':
        return nf.fn_signum(args[0])
    if name == 'max':
        return nf.fn_max(args[0], args[1])
    if name == 'min':
        return nf.fn_min(args[0], args[1])
    if name == 'ite':
        return ite(args[0], args[1], args[2])
    if name == 'rem' and len(args) == 2 and all(isinstance(a, RF) and a.is_const() for a in args):
        a0, a1 = args[0].const_value(), args[1].const_value()
        if a0.denominator == 1 and a1.denominator == 1 and a0 >= 0 and a1 > 0:
            return RF.const(int(a0) % int(a1))
    return RF.atom(nf.app_atom(name, *args))


def subst(x, mapping, _memo=None):
    """Deep substitution of atoms (keys: nf.Atom) by values, rebuilding applications through their
    normalising constructors (so ite atoms whose condition becomes constant collapse)."""
    if _memo is None:
        _memo = {}
    if isinstance(x, RF):
        k = x.key()
        if k in _memo:
            return _memo[k]
        m = {}
        for i in x.atoms():
            a = nf.atom_by_id(i)
            if a in mapping:
                m[a] = as_rf(mapping[a])
            elif a.kind == 'app':
                na = [subst(arg, mapping, _memo) if isinstance(arg, (RF, B, St, Sym, Ite)) else arg for arg in a.args]
                if any(vkey(p) != vkey(q) if not isinstance(p, (str, int)) else p != q for p, q in zip(na, a.args)):
                    m[a] = _rebuild_app(a.name, na)
        r = x.subst(m) if m else x
        _memo[k] = r
        return r
    if isinstance(x, B):
        if x.op == 'const':
            return x
        if x.op == 'cmp':
            return b_cmp(x.args[0], subst(x.args[1], mapping, _memo), subst(x.args[2], mapping, _memo))
        if x.op == 'not':
            return b_not(subst(x.args[0], mapping, _memo))
        if x.op == 'and':
            return b_and(subst(x.args[0], mapping, _memo), subst(x.args[1], mapping, _memo))
        if x.op == 'or':
            return b_or(subst(x.args[0], mapping, _memo), subst(x.args[1], mapping, _memo))
        if x.op == 'atom':
            a = x.args[0]
            if a in mapping:
                return mapping[a]
            return x
        return x
    if isinstance(x, St):
        return St(x.adt, x.variant, {k: subst(v, mapping, _memo) for k, v in x.fields.items()},
                  subst(x.base, mapping, _memo) if x.base is not None else None)
    if isinstance(x, Ite):
        return ite(subst(x.c, mapping, _memo), subst(x.a, mapping, _memo), subst(x.b, mapping, _memo))
    if isinstance(x, Sym):
        if x.atom in mapping:
            return mapping[x.atom]
        return x
    if isinstance(x, Ref):
        return subst(read_lv(x.lv), mapping, _memo)
    return x


def atoms_deep(x, acc=None):
    """All atoms occurring in x, including inside application arguments."""
    if acc is None:
        acc = {}
    if isinstance(x, RF):
        for i in x.atoms():
            a = nf.atom_by_id(i)
            if a.id not in acc:
                acc[a.id] = a
                for arg in a.args:
                    atoms_deep(arg, acc)
    elif isinstance(x, B):
        for a in x.args:
            atoms_deep(a, acc)
    elif isinstance(x, nf.Atom):
        if x.id not in acc:
            acc[x.id] = x
            for arg in x.args:
                atoms_deep(arg, acc)
    elif isinstance(x, St):
        for v in x.fields.values():
            atoms_deep(v, acc)
        if x.base is not None:
            atoms_deep(x.base, acc)
    elif isinstance(x, Ite):
        atoms_deep(x.c, acc)
        atoms_deep(x.a, acc)
        atoms_deep(x.b, acc)
    elif isinstance(x, Sym):
        atoms_deep(x.atom, acc)
    elif isinstance(x, Ref):
        atoms_deep(read_lv(x.lv), acc)
    return acc


_PRIM = {'usize': (8, False), 'u64': (8, False), 'i64': (8, True), 'isize': (8, True), 'u32': (4, False), 'i32': (4, True), 'u8': (1, False), 'i8': (1, True), 'u16': (2, False), 'i16': (2, True)}


def _array_ty(ty):
    m = re.match(r'^\[(.+); (\d+)\]$', ty.strip())
    return (m.group(1).strip(), int(m.group(2))) if m else None


def _ty_size(ty):
    if ty in _PRIM:
        return _PRIM[ty][0]
    if ty == 'f64':
        return 8
    a = _array_ty(ty)
    if a:
        es = _ty_size(a[0])
        return None if es is None else es * a[1]
    return None


def _decode_array(ty, raw):
    """A constant of (nested) array type over primitive integers / f64, given by its bytes -> array St of scalars."""
    a = _array_ty(ty)
    if not a:
        return None
    ety, n = a
    es = _ty_size(ety)
    if es is None or len(raw) < es * n:
        return None
    items = []
    for i in range(n):
        chunk = raw[i * es:(i + 1) * es]
        if ety in _PRIM:
            items.append(RF.const(int.from_bytes(chunk, 'little', signed=_PRIM[ety][1])))
        elif ety == 'f64':
            import struct
            items.append(RF.const(Fraction(struct.unpack('<d', chunk)[0])))
        else:
            x = _decode_array(ety, chunk)
            if x is None:
                return None
            items.append(x)
    return arr(items)


def discr_atom(v):
    """The discriminant atom of a symbolic enum value."""
    while isinstance(v, Ref):
        v = read_lv(v.lv)
    if isinstance(v, Sym):
        return nf.app_atom('discr', v.atom)
    raise AnalysisIncomplete('discriminant atom of non-symbolic %r' % (v,))


def rf_leaves(v, acc=None, depth=0):
    """All scalar normal forms inside a value (struct fields, both sides of conditionals)."""
    if acc is None:
        acc = []
    if depth > 12:
        return acc
    if isinstance(v, Ref):
        try:
            v = read_lv(v.lv)
        except Exception:
            return acc
    if isinstance(v, RF):
        parts = ite_parts(v)
        if parts is not None:
            rf_leaves(parts[1], acc, depth + 1)
            rf_leaves(parts[2], acc, depth + 1)
            acc.append(v)          # (kept for its conditions)
        else:
            acc.append(v)
    elif isinstance(v, St):
        for f in v.fields.values():
            rf_leaves(f, acc, depth + 1)
    elif isinstance(v, Ite):
        rf_leaves(v.a, acc, depth + 1)
        rf_leaves(v.b, acc, depth + 1)
    return acc


def _cmp_atoms(l):
    """Atoms compared directly (not inside an uninterpreted call) by a comparison leaf."""
    out = set()
    if isinstance(l, B) and l.op == 'cmp':
        for x in l.args[1:]:
            if isinstance(x, RF):
                out |= set(x.atoms())
    return out


def removable_divisions(divs, result):
    """Divisions whose divisor leaves no trace in any denominator of the result: the normal form cancelled it, so the value LOOKS defined where the
    divisor vanishes while the code computes 0/0 or x/0 there (`(d / r) * r`).  A divisor of which at least one atom survives in a denominator of
    the result (the |x - c| of a normalisation, the determinant of a linear solve) is the construction's own singularity and is not listed.
    Conditions inside the result (gated values) count as part of it: a division guarded by a test of its divisor is the code's own case split."""
    den_atoms = set()
    leaves = rf_leaves(result)
    for r in leaves:
        den_atoms |= set(atoms_deep(RF(dict(r.den))))
        # conditions of gated values: atoms tested there are accounted for (the code distinguishes the case)
        for a in atoms_deep(r).values():
            if a.kind == 'ite':
                pass
    cond_atoms = set()
    try:
        from . import dtab
        for r in leaves:
            for l in dtab.b_leaves(r).values():
                cond_atoms |= _cmp_atoms(l)
    except Exception:
        pass
    out = []
    for b, g in divs:
        num = RF(dict(b.num))
        if num.is_const():
            continue
        na = set(atoms_deep(num))
        ga = set()
        for q in g:
            try:
                from . import dtab
                for l in dtab.b_leaves(q).values():
                    ga |= _cmp_atoms(l)
            except Exception:
                pass
        if not (na & den_atoms) and not (na & cond_atoms) and not (na & ga):
            out.append(repr(b)[:80])
    return out
