"""C13 — integrator and direct routes agree; built-in integrals reproduce stored values."""
import re
from .. import interp as I, nf, dtab
from ..nf import RF, as_rf
from ..tables import c3
from ..facts import AnalysisIncomplete, strip_generics, calls, callee_name
from .util import *
from . import routes, faces, c03, c04, c01

META = {
    'level': 'other',
    'configs': {'quick': ['default', 'norayon'], 'thorough': ['default', 'norayon', 'default_nodebug']},
    'rules': {
        'R1': 'route siblings: for every (dimensionality x periodic) configuration both entry points pass identical arguments (after renaming the per-slot stream item) to '
              'the generator constructor, the r-tree builder, the boundary constructor, the selected neighbour search and the cell builder',
        'R2': 'conversion reuse: both routes create VoronoiCells through VoronoiCell::from_convex_cell with an equivalent mask (caller\'s mask vs. the activity vector built from it), '
              'store anchor/width/dimensionality/periodic of the same values, flatten the per-cell face vectors in slot order and share Voronoi::finalize; accessors report their fields, type-state transitions keep the configuration, '
              'and every Clone of a crate type is a copy (derived, or evaluated to return its argument)',
        'R3': 'built-in integral siblings: AreaCentroidIntegral and the internal face integral have equal collect/finalize normal forms; VolumeIntegral and VolumeCentroidIntegral '
              'accumulate the same volume; VoronoiCell takes volume and centroid from VolumeCentroidIntegral',
        'R4': 'symmetric integrals == stored face list: identical decision tables (C03.R2 sibling check)',
        'R5': 'order: cell integrals are the constructed cells in slot order (filter_map over the unfiltered cell list, collected in order); face integrals are emitted per cell '
              'in plane-index order at all three sites and concatenated in slot order',
    },
    'explanation': 'Sibling equivalence decided on normal forms and adaptor chains: the two construction routes are the same function of the input up to the names of '
                   'temporaries (R1, R2), the public integrals compute what the compact tessellation stores (R3), the symmetric variant selects exactly the stored faces (R4) and '
                   'orders agree (R5). "Bitwise" then follows with C09 (determinism of the per-cell function and of collection order).',
    'trusted_base': ['std/rayon order-preserving adaptors (C09.R1 table)', 'E0 extractor'],
    'assumptions': ['C09'],
}


def run(ctx):
    for cfg in ctx.configs_used:
        F = ctx.facts(cfg)
        sfx = '' if cfg == 'default' else '@' + cfg
        from . import c09
        I.CLOSURE_ALIAS.clear()
        for b in F.bodies:
            if b['kind'] == 'Closure':
                I.CLOSURE_ALIAS[b['path']] = c09.body_shape(b)[:10]
        try:
            for fn in (r1, r2, r3, r4, r5):
                rule = 'C13.' + fn.__name__.upper()
                ctx.guarded(rule, 'evaluate' + sfx, lambda: fn(ctx, F, rule, sfx))
        finally:
            I.CLOSURE_ALIAS.clear()


PAR = [('rayon::iter::IndexedParallelIterator::', 'std::iter::Iterator::'), ('rayon::iter::ParallelIterator::', 'std::iter::Iterator::'),
       ("<I as rayon::iter::IntoParallelRefMutIterator<'data>>::par_iter_mut", 'core::slice::<impl [T]>::iter_mut'),
       ("<I as rayon::iter::IntoParallelRefIterator<'data>>::par_iter", 'core::slice::<impl [T]>::iter'),
       ('<I as rayon::iter::IntoParallelIterator>::into_par_iter', '<I as std::iter::IntoIterator>::into_iter')]


def norm_text(x, run=None):
    """Canonical text of an abstract argument: parallel adaptors renamed to their sequential twins, the per-slot
    stream item renamed to SLOT / <container>[SLOT]."""
    t = repr(I.frozen(x)) if not isinstance(x, str) else x
    if run is not None:
        it = repr(run['item'])
        sh = stream_shape(run['stream'])
        if sh[0] == 'pair':
            for k in (0, 1):
                leaf = sh[1 + k]
                rep = 'SLOT' if leaf[0] == 'pos' else ('%s[SLOT]' % leaf[1] if leaf[0] == 'elem' else None)
                if rep is not None:
                    t = t.replace('%s.%d' % (it, k), rep)
    for a, b in PAR:
        t = t.replace(a, b)
    t = re.sub(r'<std::vec::Vec<T, A> as std::ops::Deref>::deref\(([^()]*)\)', r'\1', t)
    t = t.replace('call:core::slice::<impl [T]>::iter(call:', 'call:core::slice::<impl [T]>::iter(call:')
    return t


def r1(ctx, F, rule, sfx):
    sinks_outer = ('SimulationBoundary::cuboid', 'rtree_nn::build_rtree')
    sinks_cell = ('rtree_nn::nn_iter', 'rtree_nn::wrapping_nn_iter', 'ConvexCell::build')
    for dim in routes.DIMS:
        for per in (False, True):
            tag = '%s:%s' % (dim, 'periodic' if per else 'reflective')
            rd = routes.run_route(F, 'direct', dim, per)
            ri = routes.run_route(F, 'integrator', dim, per)
            ctx.evaluations += rd.ip.evaluations + ri.ip.evaluations
            for s in sinks_outer:
                a = [norm_text(x) for x in rd.one(s).fargs]
                b = [norm_text(x) for x in ri.one(s).fargs]
                ctx.check(rule, '%s:%s%s' % (tag, s.split('::')[-1], sfx), a == b, first_diff(a, b), 'identical arguments', where(ri.body, ri.one(s).line), key_extra='%s:%s' % (tag, s))
            # generator constructor (inside the projection closure)
            ga = gen_args(rd)
            gb = gen_args(ri)
            ctx.check(rule, '%s:Generator-new%s' % (tag, sfx), ga == gb and ga is not None, first_diff(ga or [], gb or []), 'identical (id, position, dimensionality) per input generator', where(ri.body), key_extra='%s:gen' % tag)
            cd, ci = routes.cell_run(rd), routes.cell_run(ri)
            for s in sinks_cell:
                ea, eb = routes.ev_in(cd, s), routes.ev_in(ci, s)
                if not ea and not eb:
                    continue
                if len(ea) != 1 or len(eb) != 1:
                    ctx.bad(rule, '%s:%s%s' % (tag, s.split('::')[-1], sfx), 'direct calls it %d time(s), integrator %d' % (len(ea), len(eb)), 'the same search/builder in both routes', where(ri.body), key_extra='%s:%s:count' % (tag, s))
                    continue
                a = [norm_text(x, cd) for x in ea[0].fargs]
                b = [norm_text(x, ci) for x in eb[0].fargs]
                ctx.check(rule, '%s:%s%s' % (tag, s.split('::')[-1], sfx), a == b, first_diff(a, b), 'identical arguments up to the name of the per-slot item', where(eb[0].body, eb[0].line), key_extra='%s:%s' % (tag, s))


def gen_args(r):
    runs = [x for x in r.runs if any(e.callee and strip_generics(e.callee).endswith('Generator::new') for e in x['events'])]
    if len(runs) != 1:
        return None
    e = [e for e in runs[0]['events'] if strip_generics(e.callee).endswith('Generator::new')][0]
    return [norm_text(x, runs[0]) for x in e.fargs] + [norm_text(runs[0]['stream'])]


def first_diff(a, b):
    if a == b:
        return 'equal (%d arguments)' % len(a)
    for i, (x, y) in enumerate(zip(a, b)):
        if x != y:
            return 'argument %d: direct %s | integrator %s' % (i, x[-110:], y[-110:])
    return 'arity %d vs %d' % (len(a), len(b))


def conversion(F):
    conv = [b for b in F.bodies if b['path'].startswith('<voronoi::Voronoi as std::convert::From<&voronoi::VoronoiIntegrator') and b['kind'] != 'Closure']
    if len(conv) != 1:
        raise AnalysisIncomplete('From<&VoronoiIntegrator> for Voronoi bodies: %d' % len(conv))
    b = conv[0]
    no = [x['path'] for x in F.bodies if strip_generics(x['path']).endswith(('VoronoiCell::from_convex_cell', 'Voronoi::finalize'))]
    ip = I.Interp(F, no_inline=no)
    me = I.Sym(nf.sym_atom('vi'), 'voronoi::VoronoiIntegrator<M>')
    v, _ = ip.call_body(b, [ip.ref_to(me)])
    return b, ip, v


def r2(ctx, F, rule, sfx):
    clones_are_copies(ctx, F, rule, sfx)
    rd = routes.run_route(F, 'direct')
    b, ip, v = conversion(F)
    ctx.evaluations += ip.evaluations
    fin_d = rd.one('Voronoi::finalize')
    fin_c = [e for e in ip.events if e.callee and strip_generics(e.callee).endswith('Voronoi::finalize')]
    ctx.check(rule, 'conversion-shares-finalize' + sfx, len(fin_c) == 1 and I.vkey(I.frozen(v)) == I.vkey(I.frozen(fin_c[0].result)), '%d finalize call(s)' % len(fin_c), 'the converted struct is finalised by the same function', where(b), key_extra='finalize')
    if len(fin_c) != 1:
        return
    sd, sc_ = fin_d.fargs[0], fin_c[0].fargs[0]
    # stored configuration fields
    for f, want in (('anchor', 'vi.anchor'), ('width', 'vi.width'), ('dimensionality', 'vi.dimensionality'), ('periodic', 'vi.periodic')):
        got = repr(I.frozen(I.get_field(sc_, f))).replace('b:', '')
        flat = got.replace(' ', '')
        ok = got == want or flat == 'DVec3{x:%s.x,y:%s.y,z:%s.z}' % (want, want, want)
        ctx.check(rule, 'conversion:%s%s' % (f, sfx), ok, got[:80], want, where(b), key_extra='conv:' + f)
    # the integrator stores exactly what the direct route stores
    ri = routes.run_route(F, 'integrator')
    for f in ('anchor', 'width', 'dimensionality', 'periodic'):
        a = repr(I.frozen(I.get_field(sd, f)))
        c = repr(I.frozen(I.get_field(ri.ret, f)))
        ctx.check(rule, 'stored-%s-agrees%s' % (f, sfx), a == c, 'direct %s | integrator %s' % (a[:60], c[:60]), 'equal', where(ri.body), key_extra='stored:' + f)
    # the type-state transitions of the integrator (with_faces and any sibling that rebuilds the struct) carry the configuration over field by field:
    # a conversion after `with_faces()` must see the same box
    for tb in [x for x in F.bodies if x['kind'] != 'Closure' and strip_generics(x['path']).startswith('voronoi::VoronoiIntegrator::') and x.get('exported')
               and strip_generics(x['path']).rsplit('::', 1)[-1] in ('with_faces', 'discard_faces', 'without_faces')]:
        ipt = I.Interp(F, no_inline=[x['path'] for x in F.bodies if strip_generics(x['path']).endswith(('ConvexCell::with_faces', 'ConvexCell::discard_faces'))])
        me = I.Sym(nf.sym_atom('vi'), tb['locals'][1]['ty'])
        try:
            out, _ = ipt.call_body(tb, [me])
        except I.Diverge:
            continue
        ctx.evaluations += ipt.evaluations
        bad = []
        for f in ('anchor', 'width', 'dimensionality', 'periodic', 'cell_is_active'):
            leafs = [lf for _c, lf in cases(out)] if isinstance(out, I.Ite) else [out]
            for lf in leafs:
                got = repr(I.frozen(I.get_field(lf, f))).replace('b:', '').replace(' ', '')
                want = 'vi.' + f
                if got != want and got != 'DVec3{x:%s.x,y:%s.y,z:%s.z}' % (want, want, want):
                    bad.append('%s = %s' % (f, got[:50]))
        nm_ = strip_generics(tb['path']).rsplit('::', 1)[-1]
        ctx.check(rule, 'integrator-%s-keeps-configuration%s' % (nm_, sfx), not bad, '; '.join(bad)[:160] or 'anchor, width, dimensionality, periodic, cell_is_active carried over', 'every configuration field equals the field of the same name of the source', where(tb), key_extra='transition:' + nm_)
    # the public accessors of the result report the stored fields
    for acc in ('anchor', 'width', 'dimensionality', 'periodic'):
        ab = F.body('voronoi::Voronoi::' + acc, required=False) or F.body_by_suffix('Voronoi::' + acc)
        ipa = I.Interp(F)
        vv = I.Sym(nf.sym_atom('self'), 'voronoi::Voronoi')
        val, _ = ipa.call_body(ab, [ipa.ref_to(vv)])
        ctx.evaluations += ipa.evaluations
        got = repr(I.frozen(val)).replace('b:', '').replace(' ', '')
        want = 'self.' + acc
        ok = got == want or got == 'DVec3{x:%s.x,y:%s.y,z:%s.z}' % (want, want, want) or got.endswith('into(%s)' % want)
        ctx.check(rule, 'accessor:%s%s' % (acc, sfx), ok, got[:80], 'the field `%s`' % acc, where(ab), key_extra='acc:' + acc)
    # faces: flatten(per-slot vectors) in both; cells: map over slots in both
    for nm, s in (('direct', sd), ('conversion', sc_)):
        ch, src = stream_chain(I.frozen(I.get_field(s, 'faces')))
        names = [n for n, _ in ch]
        ctx.check(rule, '%s:faces-flattened-in-slot-order%s' % (nm, sfx), names[:3] == ['collect', 'flatten', 'into_iter'], ' <- '.join(names[:4]), 'collect(flatten(into_iter(per-cell face vectors)))', where(b if nm == 'conversion' else rd.body), key_extra='flatten:' + nm)
        cc = I.get_field(s, 'cell_face_connections')
        ctx.check(rule, '%s:connections-start-empty%s' % (nm, sfx), repr(I.frozen(cc)).replace(' ', '') in ('array{}',), repr(I.frozen(cc))[:40], 'vec![] (filled by finalize)', where(b if nm == 'conversion' else rd.body), key_extra='empty:' + nm)
    # from_convex_cell call in both per-slot closures
    cd = routes.cell_run(rd)
    fd = routes.one_in(cd, 'VoronoiCell::from_convex_cell')
    runs = [r for r in ip.closure_runs if any(e.callee and strip_generics(e.callee).endswith('VoronoiCell::from_convex_cell') for e in r['events'])]
    # the conversion delegates to VoronoiIntegrator::build_voronoi_cells (inlined here)
    if len(runs) != 1:
        raise AnalysisIncomplete('conversion: %d per-slot closures create cells' % len(runs))
    fc = routes.one_in(runs[0], 'VoronoiCell::from_convex_cell')
    shc = stream_shape(runs[0]['stream'])
    leaves = [l for l in (shc[1:] if shc[0] == 'pair' else [])]
    ok_zip = shc[0] == 'pair' and shc[1] == ('elem', 'vi.cells') and shc[2][0] == 'elem'
    ctx.check(rule, 'conversion:cells-zipped-with-face-vectors%s' % sfx, ok_zip, str(shc)[:160], 'zip(cells, per-cell face vectors): slot-aligned, unfiltered', where(fc.body, fc.line), key_extra='zip')
    # first argument: the slot's cell; second: the slot's face vector; third: Some(activity vector)
    ra = resolve_item(I.get_field(I.downcast(I.frozen(fc.args[0]), 'Some'), 0) if False else fc.fargs[0], runs[0]['item'], shc, prefix=())
    okc = 'vi.cells' in repr(fc.fargs[0]) or (ra is not None and ra[0] == ('elem', 'vi.cells'))
    ctx.check(rule, 'conversion:cell-of-the-slot%s' % sfx, okc, repr(fc.fargs[0])[-80:], 'the Some payload of the slot\'s cell', where(fc.body, fc.line), key_extra='cellarg')
    rf = resolve_item(fc.fargs[1], runs[0]['item'], shc, prefix=())
    ctx.check(rule, 'conversion:face-vector-of-the-slot%s' % sfx, rf is not None and rf[0][0] == 'elem' and rf[0][1] != 'vi.cells' and not rf[1], repr(fc.fargs[1])[-80:], 'the slot\'s face vector', where(fc.body, fc.line), key_extra='facearg')
    m = fc.args[2]
    ok = isinstance(m, I.St) and m.variant == 'Some' and 'vi.cell_is_active' in repr(I.frozen(m.fields[0]))
    ctx.check(rule, 'conversion:mask-is-activity-vector%s' % sfx, ok, repr(m)[:100], 'Some(&self.cell_is_active)', where(fc.body, fc.line), key_extra='maskarg')
    # unselected slots: both routes store the same record (the all-zero cell; finalize then sets idx and the links)
    dres = cd['result']
    cres = runs[0]['result']

    def skipped_arm(res):
        out = []
        for conds, leaf in cases(res):
            if isinstance(leaf, I.St) and leaf.adt.endswith('VoronoiCell'):
                out.append(leaf)
        return out
    da, ca = skipped_arm(dres), skipped_arm(cres)
    ok = len(da) == 1 and len(ca) == 1 and I.vkey(da[0]) == I.vkey(ca[0])
    ctx.check(rule, 'unselected-slot-record-agrees%s' % sfx, ok, 'direct %s | conversion %s' % (repr(da[0])[:90] if da else None, repr(ca[0])[:90] if ca else None), 'the same literal record on the not-constructed arm of both routes', where(fc.body, fc.line), key_extra='skipped-record')
    # direct: mask argument is the caller's (C07.R2) — and the activity vector is its copy / all-true (C07.R2)
    ctx.check(rule, 'direct:mask-is-callers%s' % sfx, repr(fd.fargs[2]) == 'mask', repr(fd.fargs[2])[:60], 'mask', where(fd.body, fd.line), key_extra='dmask')


def clones_are_copies(ctx, F, rule, sfx):
    """A clone of an integrator, a tessellation, a cell, a face, a half-space is the same value: every `Clone` of a crate type is the derived one, or is
    evaluated and must return its argument (users clone integrators before converting them: `integrator.clone().with_faces()`)."""
    from .. import tables
    n = 0
    for b in F.bodies:
        p_ = b['path']
        if not p_.endswith('as std::clone::Clone>::clone') or 'convex_cell_alternative' in p_ or '::tests::' in p_:
            continue
        n += 1
        if tables._is_derived(None, b):
            continue
        ty = p_[1:].split(' as std::clone::Clone>')[0]
        ip = I.Interp(F)
        x = I.Sym(nf.sym_atom('self'), ty)
        try:
            v, _ = ip.call_body(b, [ip.ref_to(x, '&' + ty)])
            same = I.vkey(I.frozen(v)) == I.vkey(I.frozen(x))
            if not same and isinstance(v, I.St):
                a_ = F.adt(strip_generics(ty).split('<')[0], required=False)
                names = [f['name'] for f in a_['variants'][0]['fields']] if a_ else None
                same = names is not None and set(map(str, v.fields)) == set(names) and all(repr(I.frozen(I.deref(fv) if hasattr(I, 'deref') else fv)) == 'self.%s' % fn_ for fn_, fv in v.fields.items())
            obs = repr(I.frozen(v))[:160]
        except (AnalysisIncomplete, I.Diverge, TypeError, KeyError) as e:
            ctx.incomplete(rule, 'clone-is-a-copy:%s%s' % (ty.split('::')[-1], sfx), 'hand-written Clone could not be evaluated: %s' % str(e)[:120], where(b))
            continue
        ctx.check(rule, 'clone-is-a-copy:%s%s' % (ty.split('::')[-1], sfx), same, obs, 'clone() returns a value equal to self, field by field', where(b), key_extra='clone:' + ty)
    ctx.check(rule, 'clones-of-crate-types-are-copies' + sfx, n >= 15, '%d Clone impls of crate types looked at (derived ones copy field by field)' % n, 'every Clone impl is derived or returns its argument', None, key_extra='clone-count')


def r3(ctx, F, rule, sfx):
    from . import c14
    c14.r3(ctx, F, rule, sfx)          # integrator cell integrals see every tetrahedron the stored volume is built from
    wrappers_forward(ctx, F, rule, sfx)
    impls = {st.split('::')[-1]: (st, bodies, fields) for st, bodies, fields in c04.face_integral_impls(F)}
    need = ('AreaCentroidIntegral', 'VoronoiFaceIntegral')
    for n in need:
        if n not in impls:
            raise AnalysisIncomplete('face integral %s not found' % n)
    fa = c04.accumulator_form(ctx, F, *impls['AreaCentroidIntegral'])
    fb = c04.accumulator_form(ctx, F, *impls['VoronoiFaceIntegral'])
    keys = ('sa_calls', 'sa_args', 'area_ok', 'centroid_ok', 'fin_area', 'norm_txt')
    diff = [k for k in keys if fa.get(k) != fb.get(k)]
    ctx.check(rule, 'AreaCentroidIntegral==stored-face-integral' + sfx, not diff, 'differing: %s' % ({k: (fa.get(k), fb.get(k)) for k in diff} or 'none'), 'equal collect/finalize normal forms', where(impls['AreaCentroidIntegral'][1]['finalize']), key_extra='face-sibling:%s' % diff)
    # volume integrals
    vols = {}
    for imp in F.impls_of_trait('voronoi::integrals::CellIntegral'):
        st = imp['self']
        col = F.body('<%s as voronoi::integrals::CellIntegral>::collect' % st, required=False)
        fin = F.body('<%s as voronoi::integrals::CellIntegral>::finalize' % st, required=False)
        a = F.adt(st, required=False)
        if not (col and fin and a):
            continue
        fields = [f['name'] for f in a['variants'][0]['fields']]
        if 'volume' not in fields:
            continue
        f0 = {'volume': RF.sym('W')}
        if 'centroid' in fields:
            f0['centroid'] = I.sym_vec3('C')
        me = I.St(st, st.split('::')[-1], f0)
        ip = I.Interp(F, no_inline=['geometry::signed_volume_tet'])
        r = ip.ref_to(me, mut=True)
        ip.call_body(col, [r] + [I.sym_vec3(x) for x in ('v0', 'v1', 'v2', 'g')])
        after = I.read_lv(r.lv)
        out, _ = ip.call_body(fin, [after])
        ctx.evaluations += ip.evaluations
        vols[st.split('::')[-1]] = repr(as_rf(I.get_field(out, 'volume')))
    ctx.check(rule, 'volume-integrals-agree' + sfx, len(vols) >= 2 and len(set(vols.values())) == 1, str(vols)[:200], 'the same accumulated volume in every built-in cell integral', None, key_extra='volumes')
    # VoronoiCell takes volume/centroid from VolumeCentroidIntegral
    fb_ = F.body_by_suffix('VoronoiCell::from_convex_cell')
    s = faces.site(F, 'direct')
    init = [e for e in s.ip.events if e.callee and strip_generics(e.callee).endswith('VoronoiCell::init') and e.body is s.body]
    col = [e for e in s.ip.events if e.callee and e.callee.endswith('VolumeCentroidIntegral as voronoi::integrals::CellIntegral>::collect') and e.body is s.body]
    ok = len(init) == 1 and len(col) == 1
    if ok:
        a = [repr(x) for x in init[0].fargs]
        # volume argument is the accumulator's (loop-carried) volume; centroid its normalised centroid
        ok = '.volume' in a[2] and 'phi' in a[2] and '.centroid.x' in a[1] and a[0].replace(' ', '') in ('cell.loc', 'DVec3{x:cell.loc.x,y:cell.loc.y,z:cell.loc.z}')
        t = repr(s.tet)
        ca = [repr(x) for x in col[0].fargs]
        ok = ok and ca[1:4] == ['%s.vertices[%d]' % (t, i) for i in range(3)] and ca[4] == 'cell.loc'
    ctx.check(rule, 'stored-cell-uses-VolumeCentroidIntegral' + sfx, ok, 'init args: %s' % ([repr(x)[-50:] for x in init[0].fargs[:3]] if init else None), 'volume/centroid of the VolumeCentroidIntegral fed with every tetrahedron', where(fb_), key_extra='cellvals')


def r4(ctx, F, rule, sfx):
    c03.r2(ctx, F, rule, sfx)


CHAINS = {
    'compute_cell_integrals': ['collect', 'filter_map', 'iter'],
    'compute_cell_integrals_with_data': ['collect', 'filter_map', 'zip', 'iter'],
    'compute_face_integrals': ['collect', 'flatten', 'filter_map', 'iter'],
    'compute_face_integrals_sym': ['collect', 'flatten', 'filter_map', 'iter'],
    'compute_face_integrals_with_data': ['collect', 'flatten', 'filter_map', 'zip', 'iter'],
    'compute_face_integrals_sym_with_data': ['collect', 'flatten', 'filter_map', 'zip', 'iter'],
}


def integrator_chain(ctx, F, name):
    b = F.body_by_suffix('VoronoiIntegrator::' + name)
    no = [x['path'] for x in F.bodies if strip_generics(x['path']).endswith(('ConvexCell::compute_cell_integral', 'ConvexCell::compute_face_integrals', 'ConvexCell::compute_face_integrals_sym'))]
    ip = I.Interp(F, no_inline=no)
    me = I.Sym(nf.sym_atom('vi'), 'voronoi::VoronoiIntegrator<M>')
    args = [ip.ref_to(me)]
    if b['arg_count'] == 2:
        args.append(I.Sym(nf.sym_atom('extra'), '&[D]'))
    v, _ = ip.call_body(b, args)
    ctx.evaluations += ip.evaluations
    t = norm_text(v)
    ch, src = stream_chain(I.frozen(v))
    names = [n.replace('par_iter', 'iter') for n, _ in ch]
    return b, ip, v, names, src, ch


def r5(ctx, F, rule, sfx):
    for name, want in CHAINS.items():
        b, ip, v, names, src, ch = integrator_chain(ctx, F, name)
        ok = names == want and repr(src) == 'vi.cells'
        ctx.check(rule, '%s:chain%s' % (name, sfx), ok, '%s over %r' % (' <- '.join(names), src), '%s over self.cells (order-preserving, unfiltered before any zip)' % ' <- '.join(want), where(b), key_extra='chain:' + name)
        # the per-cell function applied to the Some payload
        runs = [r for r in ip.closure_runs if r['adaptor'] == 'filter_map']
        callee = 'compute_cell_integral' if 'cell' in name else ('compute_face_integrals_sym' if 'sym' in name else 'compute_face_integrals')
        ok2 = False
        for r in runs:
            for e in r['events']:
                if e.callee and strip_generics(e.callee).endswith('ConvexCell::' + callee):
                    ok2 = True
        ctx.check(rule, '%s:per-cell-function%s' % (name, sfx), ok2, 'filter_map closures: %d' % len(runs), 'cell.as_ref().map(|c| c.%s(..))' % callee, where(b), key_extra='percell:' + name)
    # the iterator over the constructed cells: the Some payloads of the cell slots, in slot order, nothing else dropped
    cib = F.body_by_suffix('VoronoiIntegrator::cells_iter', required=False) if hasattr(F, 'body_by_suffix') else None
    if cib is not None:
        ipc = I.Interp(F)
        mev = I.Sym(nf.sym_atom('vi'), 'voronoi::VoronoiIntegrator<M>')
        civ, _ = ipc.call_body(cib, [ipc.ref_to(mev)])
        ctx.evaluations += ipc.evaluations
        chc, srcc = stream_chain(I.frozen(civ))
        nmc = [n for n, _ in chc]
        runs_c = [r for r in ipc.closure_runs if r['adaptor'] in ('filter_map', 'flatten', 'flat_map')]
        okc = (nmc in (['filter_map', 'iter'], ['flatten', 'iter'], ['flatten', 'map', 'iter']) and repr(srcc) == 'vi.cells')
        if okc and nmc[0] == 'filter_map':
            okc = len(runs_c) == 1 and I.vkey(I.frozen(runs_c[0]['result'])) == I.vkey(I.frozen(runs_c[0]['item']))      # the slot's own Option (as_ref is a borrow)
        ctx.check(rule, 'cells_iter:constructed-cells-in-slot-order' + sfx, okc, '%s over %r' % (' <- '.join(nmc), srcc), 'self.cells.iter().filter_map(|c| c.as_ref())', where(cib), key_extra='cells-iter')
    for which in ('direct', 'integrals', 'sym'):
        s = faces.site(F, which)
        c03.stored_in_plane_order(ctx, rule, sfx, s, which)
