"""Shared scenarios: the two construction routes (Voronoi::build_internal and VoronoiIntegrator::build) and the
conversion From<&VoronoiIntegrator>, evaluated abstractly with symbolic inputs; per dimensionality and periodic flag
when requested (constant folding specialises the code: E3).  Used by C02, C06, C07, C08, C13."""
from .. import interp as I, nf, dtab
from ..nf import RF, as_rf
from ..tables import c3
from ..facts import AnalysisIncomplete, strip_generics, calls, callee_name
from .util import *

_cache = {}

OPAQUE = ('ConvexCell::build', 'VoronoiCell::from_convex_cell', 'SimulationBoundary::cuboid', 'rtree_nn::build_rtree', 'rtree_nn::nn_iter',
          'rtree_nn::wrapping_nn_iter', 'Voronoi::finalize', 'ConvexCell::with_faces')

DIMS = ('OneD', 'TwoD', 'ThreeD')


class Route:
    def call(self, suffix):
        return [e for e in self.all_events if e.callee and strip_generics(e.callee).endswith(suffix)]

    def one(self, suffix):
        ev = self.call(suffix)
        if len(ev) != 1:
            raise AnalysisIncomplete('%s: %d evaluated calls of %s (expected 1)' % (self.body['path'], len(ev), suffix), suffix)
        return ev[0]


def dim_value(dim):
    if dim is None:
        return I.Sym(nf.sym_atom('dim'), 'voronoi::Dimensionality')
    return I.St('voronoi::Dimensionality', dim, {})


def flag_value(per):
    if per is None:
        return I.B('atom', nf.sym_atom('periodic'))
    return I.b_const(per)


def entry_bodies(F):
    """Role anchor: the non-closure bodies that call the boundary constructor (callers of SimulationBoundary::cuboid)
    -> {'direct': body, 'integrator': body}."""
    cub = F.body_by_suffix('SimulationBoundary::cuboid')
    callers = []
    for b in F.bodies:
        if b['kind'] == 'Closure' or 'convex_cell_alternative' in b['path'] or 'tests' in b['path']:
            continue
        if any(callee_name(t) == cub['path'] for bl, t in calls(b)):
            callers.append(b)
    out = {}
    for b in callers:
        if 'VoronoiIntegrator' in b['path']:
            out['integrator'] = b
        else:
            out['direct_inner'] = b
    if set(out) != {'integrator', 'direct_inner'}:
        raise AnalysisIncomplete('callers of the boundary constructor: %s' % [b['path'] for b in callers], 'cuboid-callers')
    out['direct'] = F.body_by_suffix('Voronoi::build_internal')
    return out


def run_route(F, which, dim=None, periodic=None, mask_variant=None):
    """which: 'direct' (Voronoi::build_internal) | 'integrator' (VoronoiIntegrator::build).
    mask_variant: None = symbolic Option, 'some' = Some(symbolic slice), 'none' = None."""
    key = (id(F), which, dim, periodic, mask_variant)
    if key in _cache:
        return _cache[key]
    b = entry_bodies(F)[which]
    no = [x['path'] for x in F.bodies if strip_generics(x['path']).endswith(OPAQUE)]
    ip = I.Interp(F, no_inline=no)
    ip.unroll_limit = 4        # `for axis in dim..3 { anchor[axis] = ..; }`: loops over the axes are evaluated concretely when the dimensionality is
    r = Route()
    r.which, r.body, r.ip = which, b, ip
    args = []
    r.inputs = {}
    for i in range(1, b['arg_count'] + 1):
        ty = b['locals'][i]['ty']
        if ty == '&[glam::DVec3]':
            v = I.Sym(nf.sym_atom('generators'), ty)
            r.inputs['generators'] = v
        elif ty.startswith('std::option::Option<&[bool]'):
            if mask_variant == 'some':
                v = I.some(I.Sym(nf.sym_atom('maskslice'), '&[bool]'))
            elif mask_variant == 'none':
                v = I.NONE
            else:
                v = I.Sym(nf.sym_atom('mask'), ty)
            r.inputs['mask'] = v
        elif ty == 'glam::DVec3':
            nm = 'A' if 'anchor' not in r.inputs else 'W'
            v = I.sym_vec3(nm)
            r.inputs['anchor' if nm == 'A' else 'width'] = v
        elif ty == 'voronoi::Dimensionality':
            v = dim_value(dim)
            r.inputs['dim'] = v
        elif ty == 'bool':
            v = flag_value(periodic)
            r.inputs['periodic'] = v
        else:
            raise AnalysisIncomplete('%s: unexpected argument type %s' % (b['path'], ty), b['path'])
        args.append(v)
    # argument order check: anchor before width is the public signature (C02/C08 name them by position)
    r.ret, _ = ip.call_body(b, args)
    r.all_events = list(ip.events)
    r.runs = ip.closure_runs
    _cache[key] = r
    return r


def cell_run(r):
    """The per-element closure evaluation that builds a cell (contains the ConvexCell::build call)."""
    out = []
    for run in r.runs:
        if any(e.callee and strip_generics(e.callee).endswith('ConvexCell::build') for e in run['events']):
            out.append(run)
    if len(out) != 1:
        raise AnalysisIncomplete('%s: %d per-cell closures call the cell builder' % (r.body['path'], len(out)), r.body['path'])
    return out[0]


def ev_in(run, suffix):
    return [e for e in run['events'] if e.callee and strip_generics(e.callee).endswith(suffix)]


def one_in(run, suffix):
    ev = ev_in(run, suffix)
    if len(ev) != 1:
        raise AnalysisIncomplete('%s: %d evaluated calls of %s (expected 1)' % (run['closure'], len(ev), suffix), suffix)
    return ev[0]


def atom_names(x):
    return {a.name for a in I.atoms_deep(x).values() if a.kind == 'sym'}


def depends_on(x, names):
    """Does abstract value x mention any input symbol whose name is in `names` (or starts with name + '.')?"""
    for n in atom_names(x):
        for m in names:
            if n == m or n.startswith(m + '.'):
                return True
    return False
