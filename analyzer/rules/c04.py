"""C04 — face normals point away from the left generator; cells are closed surfaces (structural clauses)."""
from fractions import Fraction
from .. import interp as I, nf, dtab
from ..nf import RF, as_rf
from ..tables import c3, dot3
from ..facts import AnalysisIncomplete, strip_generics, calls, callee_name
from .util import *
from . import scen, c16, c02, c03

META = {
    'level': 'other',
    'configs': {'quick': ['default'], 'thorough': ['default', 'norayon', 'default_nodebug']},
    'rules': {
        'R6': 'the surface a cell reports is exactly its own faces (C12.R1 link table): a face is listed by its left cell always and by its right cell iff it has a right generator and '
              'no periodic shift — a cell that also lists its neighbours\' copies of wrapped faces, or misses one of its own, is not a closed surface (sum of area*normal != 0)',
        'R1': 'stored plane normals are unit and inward: every HalfSpace constructed on a path reachable by users is built with n == (L-R)/|L-R| (builder: n.n == 1, '
              'n.(L-R) == |L-R| > 0) or with an axis unit vector pointing into the box (walls)',
        'R2': 'the face normal is the outward one: VoronoiFace::normal() == -1 * (normal of the plane the face was created for), hence (R-L)/|R-L| resp. outward through the wall; left / right / shift of a record are written only at construction (and by the public setters, which the crate itself never calls)',
        'R3': 'area/centroid weights: both face accumulators add signed_area_tri(v0,v1,v2,gen) to the area and area*(v0+v1+v2) to the centroid, and normalise by 1/(3*area) exactly when area > 0 (else 0); '
              'the accessor returns those fields',
        'R5': 'translation conditioning of the area kernels (C02.R5 restricted to signed_area_tri and the face accumulators)',
        'R4': 'grouping: a triangle contributes to the face whose plane index is the tetrahedron\'s plane_idx (C03.R6)',
        'R7': 'the triangle kernel (C19.R5): signed_area_tri == sign((t-v0).n) * |n| with n = (v1-v0)x(v2-v0)/2 for EVERY triangle — no tolerance or special case, so the signed '
              'triangles of a face cancel outside it at every length scale (face areas, hence closure and the divergence identity, are sums of this kernel)',
    },
    'explanation': 'Decides sign, unit length and provenance of face normals as identities of normal forms, and the weights with which triangle areas and centroids are '
                   'accumulated (coefficients on the three points are equal and sum to one after normalisation: the centroid is an affine combination, hence lies in the '
                   'face plane when the triangles do). Not decided: sum(area*n) == 0 and the divergence identity, which are consequences of the polytope being closed (C01).',
    'trusted_base': ['glam table', 'E0 extractor'],
    'assumptions': ['real arithmetic', 'L != R'],
}


def run(ctx):
    for cfg in ctx.configs_used:
        F = ctx.facts(cfg)
        sfx = '' if cfg == 'default' else '@' + cfg
        for fn in (r1, r2, r3, r4, r5, r6, r7):
            rule = 'C04.' + fn.__name__.upper()
            ctx.guarded(rule, 'evaluate' + sfx, lambda: fn(ctx, F, rule, sfx))


def r1(ctx, F, rule, sfx):
    hn = F.body_by_suffix('half_space::HalfSpace::new')
    sites = []
    for b in F.bodies:
        for bl, t in calls(b):
            if callee_name(t) == hn['path']:
                sites.append((b, t))
    sc = scen.build_scenario(F)
    cub = F.body_by_suffix('SimulationBoundary::cuboid')
    n_ok = 0
    for b, t in sites:
        root = b
        if b is sc.body:
            continue
        if b is cub:
            continue
        # a closure of, or a private helper called only from, one of the two analysed constructors: its planes are part of
        # what that constructor returns (the abstract evaluation inlines it)
        def owned_by(x, roots, depth=0):
            if any(x is r_ or x['path'].startswith(r_['path'] + '::{closure') for r_ in roots):
                return True
            if depth > 3 or x.get('exported'):
                return False
            callers = [bb for bb in F.bodies for _bl, tt in calls(bb) if callee_name(tt) == x['path']]
            return bool(callers) and all(owned_by(c_, roots, depth + 1) for c_ in callers)
        if owned_by(b, [cub, sc.body]):
            continue
        # any other constructor site: exempt only if it converts from a type that is not exported (cannot be called by users)
        alt = F.adt('voronoi::convex_cell_alternative::ConvexCell', required=False)
        if 'convex_cell_alternative' in b['path'] and alt is not None and not alt.get('exported'):
            continue
        ctx.bad(rule, 'unanalysed-half-space-constructor:%s%s' % (strip_generics(b['path']), sfx), 'HalfSpace::new called from %s' % b['path'], 'only the builder and the boundary constructor build half-spaces on user-reachable paths', where(b, t['line']), key_extra='site')
    # builder
    if len(sc.hs_events) != 1:
        raise AnalysisIncomplete('half-space constructions in the builder: %d' % len(sc.hs_events))
    ev = sc.hs_events[0]
    n, p, ridx, shift = ev.args
    X, sh, cs = c16.neighbour_position(sc, ev)
    w = where(sc.body, ev.line)
    for name, (mp, R) in cs.items():
        nk = [I.subst(x, mp) for x in c3(n)]
        d = vsub(sc.L, R)
        dist = nf.fn_sqrt(dot3(d, d))
        unit = dot3(nk, nk) == RF.const(1)
        inward = dot3(nk, d) == dist
        ctx.check(rule, 'builder-normal-unit-%s%s' % (name, sfx), unit, 'n.n = %r' % dot3(nk, nk), '1', w, key_extra='unit')
        ctx.check(rule, 'builder-normal-towards-left-%s%s' % (name, sfx), inward, 'n.(L-R) = %r' % dot3(nk, d), '|L-R| (positive)', w, key_extra='inward')
    # walls (C02.R2 checks position and inwardness for the reflective box; here per configuration: unit, axis aligned, inward)
    for per in (False, True):
        cubb, ip, v, planes = c02.boundary(F, 'ThreeD', per)
        ctx.evaluations += ip.evaluations
        A = [RF.sym('A.' + c) for c in 'xyz']
        Wd = [RF.sym('W.' + c) for c in 'xyz']
        centre = [A[i] + Wd[i] / 2 for i in range(3)]
        okall = len(planes) == 6
        for nn, pp, hs in planes:
            cw = c02.classify_wall(nn, pp)
            if cw is None:
                okall = False
                continue
            s = dot3(nn, vsub(centre, pp))
            if c02.positive_multiple_of_width(s, cw[0]) is None:
                okall = False
        ctx.check(rule, 'wall-normals-unit-inward:%s%s' % ('periodic' if per else 'reflective', sfx), okall, '%d walls' % len(planes), 'six axis-aligned unit normals pointing to the box centre', where(cubb), key_extra='walls')


def face_integral_impls(F):
    out = []
    for imp in F.impls_of_trait('voronoi::integrals::FaceIntegral'):
        st = imp['self']
        bodies = {m: F.body('<%s as voronoi::integrals::FaceIntegral>::%s' % (st, m), required=False) for m in ('init', 'collect', 'finalize')}
        if all(bodies.values()):
            a = F.adt(st, required=False)
            fields = deep_fields(F, st) if a else []
            out.append((st, bodies, fields))
    return out


def sides_fixed_at_construction(ctx, F, rule, sfx):
    """left / right / shift of a face record are what the constructing cell wrote (`FaceIntegrator::init`); the normal is computed for that orientation.
    Nothing in the crate relabels a record afterwards: no write to these three fields outside `init` and the three public setters, and no call of a
    setter from inside the crate (a face relabelled "lower index on the left" keeps a normal that now points towards its left generator)."""
    SETTERS = ('VoronoiFace::set_left', 'VoronoiFace::set_right', 'VoronoiFace::set_shift')
    writes, calls_ = [], []
    n = 0
    for b in F.bodies:
        if '::tests::' in b['path'] or 'convex_cell_alternative' in b['path']:
            continue
        p_ = strip_generics(b['path'])
        for bl in b['blocks']:
            for st in bl['stmts']:
                if st['k'] == 'assign':
                    for e in st['place'].get('p', []):
                        if e.get('k') == 'field' and strip_generics(e.get('adt') or '') == 'voronoi::integrals::FaceIntegrator' and e.get('n') in ('left', 'right', 'shift'):
                            n += 1
                            if not p_.endswith(SETTERS) and not p_.endswith('FaceIntegrator::init'):
                                writes.append('%s writes .%s (line %s)' % (p_.split('::')[-1], e['n'], st.get('line')))
            t = bl.get('term') or {}
            if t.get('k') == 'call':
                c = strip_generics(t.get('resolved') or t.get('callee') or '')
                if c.endswith(SETTERS):
                    calls_.append('%s calls %s (line %s)' % (p_.split('::')[-1], c.split('::')[-1], t.get('line')))
    ctx.check(rule, 'sides-fixed-at-construction' + sfx, not writes and not calls_, (writes + calls_)[:3] or '%d writes of left / right / shift, all in FaceIntegrator::init or the public setters; no setter called inside the crate' % n,
              'a face record keeps the left / right / shift (and with them the orientation of its normal) it was constructed with', None, key_extra='relabel')


def r2(ctx, F, rule, sfx):
    sides_fixed_at_construction(ctx, F, rule, sfx)
    impls = [x for x in face_integral_impls(F) if 'normal' in x[2]]
    if len(impls) != 1:
        raise AnalysisIncomplete('face integrals carrying a normal: %d' % len(impls))
    st, bodies, fields = impls[0]
    ip = I.Interp(F)
    cell = I.Sym(nf.sym_atom('cell'), 'voronoi::convex_cell::ConvexCell<M>')
    v, _ = ip.call_body(bodies['init'], [ip.ref_to(cell), RF.sym('k')])
    ctx.evaluations += ip.evaluations
    got = c3(dget(v, 'normal'))
    pn = c3(I.get_field(I.get_field(I.get_index(I.get_field(cell, 'clipping_planes'), RF.sym('k'), 'voronoi::half_space::HalfSpace'), 'plane'), 'n', 'glam::DVec3'))
    w = where(bodies['init'])
    ctx.check(rule, 'normal-is-minus-plane-normal' + sfx, all(got[i] == -pn[i] for i in range(3)), 'normal.x = %r' % got[0], '-cell.clipping_planes[k].plane.n.x (outward)', w, key_extra='sign')
    # unchanged by collect / finalize
    me = deep_sym(F, st)
    ip = I.Interp(F, no_inline=['geometry::signed_area_tri'])
    r = ip.ref_to(me, mut=True)
    ip.call_body(bodies['collect'], [r] + [I.sym_vec3(x) for x in ('v0', 'v1', 'v2', 'g')])
    after = I.read_lv(r.lv)
    out, _ = ip.call_body(bodies['finalize'], [after])
    ctx.evaluations += ip.evaluations
    keep = [repr(x) for x in c3(dget(out, 'normal'))] == ['N.x', 'N.y', 'N.z']
    ctx.check(rule, 'normal-untouched-by-accumulation' + sfx, keep, repr(dget(out, 'normal'))[:80], 'the value set at creation', where(bodies['collect']), key_extra='keep')
    # accessors, end to end: a face created for plane k of a cell, fed one triangle and finalised, reports through its
    # public accessors the outward normal of plane k, the cell's index, and the neighbour / shift of plane k
    # (no private field names are assumed)
    vf_init = F.body_by_suffix('VoronoiFace::init')
    vf_col = F.body_by_suffix('VoronoiFace::collect')
    vf_fin = F.body_by_suffix('VoronoiFace::finalize')
    ip = I.Interp(F, no_inline=['geometry::signed_area_tri'])
    face, _ = ip.call_body(vf_init, [ip.ref_to(cell), RF.sym('k')])
    fr = ip.ref_to(face, mut=True)
    ip.call_body(vf_col, [fr] + [I.sym_vec3(x) for x in ('v0', 'v1', 'v2', 'g')])
    face2, _ = ip.call_body(vf_fin, [I.read_lv(fr.lv)])
    ctx.evaluations += ip.evaluations
    hs = I.get_index(I.get_field(cell, 'clipping_planes'), RF.sym('k'), 'voronoi::half_space::HalfSpace')
    want = {
        'normal': [-x for x in pn],
        'left': 'cell.idx',
        'right': repr(I.frozen(I.get_field(hs, 'right_idx'))),
        'shift': repr(I.frozen(I.get_field(hs, 'shift'))),
    }
    for nm in ('normal', 'left', 'right', 'shift'):
        ab = F.body_by_suffix('VoronoiFace::' + nm)
        ipa = I.Interp(F)
        v, _ = ipa.call_body(ab, [ipa.ref_to(face2)])
        ctx.evaluations += ipa.evaluations
        if nm == 'normal':
            got = c3(v)
            ok = all(as_rf(got[i]) == want['normal'][i] for i in range(3))
            shown = repr(got[0])
        else:
            shown = repr(I.frozen(v))
            ok = shown == want[nm]
        ctx.check(rule, 'accessor:%s%s' % (nm, sfx), ok, shown[:100], 'outward normal of plane k' if nm == 'normal' else want[nm], where(ab), key_extra='acc:' + nm)
    # area / centroid accessors return what the accumulator computed
    sa = [e for e in ip.events if e.callee == 'geometry::signed_area_tri']
    if len(sa) == 1:
        a_ = as_rf(sa[0].result)
        ab = F.body_by_suffix('VoronoiFace::area')
        ipa = I.Interp(F)
        v, _ = ipa.call_body(ab, [ipa.ref_to(face2)])
        ctx.check(rule, 'accessor:area%s' % sfx, as_rf(v) == a_, repr(v)[:80], 'the accumulated signed triangle area', where(ab), key_extra='acc:area')
        ab = F.body_by_suffix('VoronoiFace::centroid')
        ipa = I.Interp(F)
        v, _ = ipa.call_body(ab, [ipa.ref_to(face2)])
        P = [c3(I.sym_vec3(x)) for x in ('v0', 'v1', 'v2')]
        gotc = c3(v)
        okc = True
        for conds, leaf in split_cases(gotc[0]):
            pos = any(c.op == 'cmp' and c.args[0] == '<' and isinstance(c.args[1], RF) and c.args[1].is_zero() for c in conds)
            if pos:
                okc = okc and as_rf(leaf) == (P[0][0] + P[1][0] + P[2][0]) / 3
        ctx.check(rule, 'accessor:centroid%s' % sfx, okc, repr(gotc[0])[:100], 'one triangle: its centroid (v0+v1+v2)/3 when the area is positive', where(ab), key_extra='acc:centroid')
    else:
        ctx.incomplete(rule, 'accessor:area%s' % sfx, 'signed_area_tri evaluated %d times through VoronoiFace::collect' % len(sa), where(vf_col))


def accumulator_form(ctx, F, st, bodies, fields):
    """-> dict of normal-form facts about one area/centroid accumulator."""
    me = deep_sym(F, st)
    ip = I.Interp(F, no_inline=['geometry::signed_area_tri'])
    r = ip.ref_to(me, mut=True)
    pts = [I.sym_vec3(x) for x in ('v0', 'v1', 'v2', 'g')]
    ip.call_body(bodies['collect'], [r] + pts)
    ctx.evaluations += ip.evaluations
    after = I.read_lv(r.lv)
    sa = [e for e in ip.events if e.callee == 'geometry::signed_area_tri']
    res = {'sa_calls': len(sa)}
    if len(sa) == 1:
        res['sa_args'] = [repr(x).replace(' ', '') for x in sa[0].fargs]
        a = as_rf(sa[0].result)
        res['area_inc'] = as_rf(dget(after, 'area')) - RF.sym('S')
        res['area_ok'] = res['area_inc'] == a
        if 'centroid' in fields:
            P = [c3(x) for x in pts]
            Cn = c3(dget(after, 'centroid'))
            res['centroid_ok'] = all(Cn[i] == RF.sym('C.' + 'xyz'[i]) + a * (P[0][i] + P[1][i] + P[2][i]) for i in range(3))
    ip2 = I.Interp(F)
    out, _ = ip2.call_body(bodies['finalize'], [me])
    ctx.evaluations += ip2.evaluations
    res['fin_area'] = repr(dget(out, 'area'))
    if 'centroid' in fields:
        oc = c3(dget(out, 'centroid'))
        ok_pos = ok_zero = False
        extra = []
        for conds, leaf in split_cases(oc[0]):
            if len(conds) != 1:
                extra.append(repr(conds))
                continue
            c = conds[0]
            positive = c.op == 'cmp' and c.args[0] == '<' and isinstance(c.args[1], RF) and c.args[1].is_zero() and repr(c.args[2]) == 'S'
            if positive:
                ok_pos = as_rf(leaf) == RF.sym('C.x') * Fraction(1, 3) / RF.sym('S')
            else:
                nonpos = c.op == 'cmp' and c.args[0] == '<=' and repr(c.args[1]) == 'S' and isinstance(c.args[2], RF) and c.args[2].is_zero()
                ok_zero = nonpos and as_rf(leaf).is_zero()
        res['norm_ok'] = ok_pos and ok_zero and not extra
        res['norm_txt'] = repr(oc[0])[:140]
    return res


def r3(ctx, F, rule, sfx):
    integrals_start_from_zero(ctx, F, rule, sfx, 'voronoi::integrals::FaceIntegral')
    accessor_consistency(ctx, F, rule, sfx, 'voronoi_face::VoronoiFace', ['area', 'centroid', 'normal', 'shift'])
    accessor_consistency(ctx, F, rule, sfx, 'integrals::FaceIntegrator', ['left', 'right', 'shift', 'integral'])
    n = 0
    forms = {}
    for st, bodies, fields in face_integral_impls(F):
        if 'area' not in fields:
            continue
        n += 1
        inst = st.split('::')[-1]
        res = accumulator_form(ctx, F, st, bodies, fields)
        forms[inst] = res
        w = where(bodies['collect'])
        want_args = ['DVec3{x:%s.x,y:%s.y,z:%s.z}' % (p, p, p) for p in ('v0', 'v1', 'v2', 'g')]
        ctx.check(rule, '%s:area-accumulation%s' % (inst, sfx), res['sa_calls'] == 1 and res.get('area_ok') and res.get('sa_args') == want_args,
                  'area += %s; signed_area_tri called %d time(s) with %s' % (repr(res.get('area_inc'))[:60], res['sa_calls'], res.get('sa_args')), 'area += signed_area_tri(v0, v1, v2, gen)', w, key_extra='area')
        if 'centroid' in fields:
            ctx.check(rule, '%s:centroid-accumulation%s' % (inst, sfx), bool(res.get('centroid_ok')), 'centroid increment', 'area*(v0+v1+v2): equal weights on the three points', w, key_extra='centroid')
            ctx.check(rule, '%s:normalisation%s' % (inst, sfx), bool(res.get('norm_ok')) and res['fin_area'] == 'S', 'centroid.x -> %s' % res.get('norm_txt'), 'C*(1/3)/area exactly when area > 0, else 0; area unchanged', where(bodies['finalize']), key_extra='normalisation')
    ctx.floor(rule, 'face accumulators with an area' + sfx, n, 3)


def r4(ctx, F, rule, sfx):
    wrappers_forward(ctx, F, rule, sfx)
    c03.r6(ctx, F, rule, sfx)


def r5(ctx, F, rule, sfx):
    c02.r5(ctx, F, rule, sfx, only=lambda n: 'area' in n.lower() or 'Face' in n or 'Area' in n)


def r6(ctx, F, rule, sfx):
    from . import c12
    c12.link_analysis(ctx, F, rule, sfx, prop='C04')


def r7(ctx, F, rule, sfx):
    from . import c19
    c19.r5(ctx, F, rule, sfx)
