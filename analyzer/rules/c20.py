"""C20 — auxiliary structures return exact nearest neighbours and enclosing spheres (structural clauses of the grid search)."""
import re
from .. import interp as I, nf, dtab
from ..nf import RF, as_rf
from ..tables import c3
from ..facts import AnalysisIncomplete, strip_generics, calls, callee_name
from .util import *

META = {
    'level': 'other',
    'configs': {'quick': ['default'], 'thorough': ['default', 'norayon']},
    'rules': {
        'R1': 'grid geometry agrees with binning: cell (i,j,k) has origin anchor + (i*cw_x, j*cw_y, k*cw_z) and width cw = width/cdim (each axis its own), cells are stored in the '
              'order i*cdim_y*cdim_z + j*cdim_z + k that get_cid computes, and add_parts bins a position by floor((x - anchor)/width*cdim) per axis — the same partition',
        'R2': 'pruning bounds: a cell is skipped only if its clamped distance (componentwise clamp of the query into the cell) exceeds the current k-th best; the search stops only when '
              '(distance to the own cell\'s nearest face + r * min over axes of the cell width)^2 exceeds the k-th best; the heap is a max-heap on the squared distance and results are '
              'popped into positions k-1..0; the particle itself never reaches the heap and nothing is searched for k == 0; no decision of the search, the ring enumeration, '
              'the recursion, the growth loops or the bucketing consults anything but the search state (DECISION_INPUTS), and growth / bucketing loops run to the end',
        'R4': 'sphere through k boundary points: from_boundary_points dispatches k = 2, 3, 4 to the two/three/four-point constructors with the points in order (C19.R6-R8: they pass through '
              'their points), returns the point itself with radius 0 for k = 1 and the empty sphere for k = 0',
        'R5': 'Welzl recursion shape: base case (no points left or four boundary points) returns the sphere through the boundary; otherwise one point is taken off, the rest is solved, '
              'the point is added to the boundary and the rest re-solved exactly when the solution does not contain it (under no further condition), and both vectors are restored before returning',
        'R6': 'Epos6: the initial sphere is grown over ALL inputs — points by Sphere::extend (C19.R9), spheres by R += d, c -= d*(c - s.c)/dist with d = (dist - R + s.r)/2 when d > 0, which is '
              'the smallest sphere containing the old sphere and the given one (R\' == R + d == dist - d + s.r)',
        'R3': 'ring enumeration: ring r consists of all offsets in [-r, r]^3 with Chebyshev norm exactly r that map to a valid cell',
        'R7': 'bucket layout (add_parts): the particles are sorted by cell index before the run-length pass and stored in that order; the pass starts from (offset, count) = (0, 0) and the '
              'cell of the FIRST sorted particle, and per particle either continues the run (count + 1) or closes it (cells[prev] = (offset, count); offset += count; count = 1; prev = cell of '
              'this particle); the last run is closed after the loop — so cell c owns exactly parts[offset_c .. offset_c + count_c], the particles binned into it',
    },
    'explanation': 'Decides the geometric bookkeeping of the uniform grid and the admissibility of the two pruning bounds of the k-nearest-neighbour search as identities of normal forms. '
                   'For the bounding-sphere solvers: the dispatch to the k-point constructors (R4), the shape of the Welzl recursion (R5) and that the approximate solver grows its '
                   'sphere over every input with a containment-preserving step (R6). Not decided: exactness of the search as a whole (heap discipline over runtime data), minimality of '
                   'the Welzl result and termination, which quantify over runtime point sets.',
    'trusted_base': ['std BinaryHeap max-heap', 'glam table', 'E0 extractor'],
    'assumptions': ['real arithmetic'],
}

AX = 'xyz'


def run(ctx):
    for cfg in ctx.configs_used:
        F = ctx.facts(cfg)
        sfx = '' if cfg == 'default' else '@' + cfg
        for fn in (r1, r2, r3, r4, r5, r6, r7):
            rule = 'C20.' + fn.__name__.upper()
            ctx.guarded(rule, 'evaluate' + sfx, lambda: fn(ctx, F, rule, sfx))


def r1(ctx, F, rule, sfx):
    nb = F.body_by_suffix('space::Space::new')
    ip = I.Interp(F)
    v, _ = ip.call_body(nb, [I.sym_vec3('A'), I.sym_vec3('W'), RF.sym('m')])
    ctx.evaluations += ip.evaluations
    w = where(nb)
    cd = I.get_field(v, 'cdim')
    cdim = [as_rf(I.get_field(cd, c)) for c in AX]
    # cdim_c == trunc(ceil(W_c / m)); the real-valued count:
    n = []
    for c in range(3):
        at = I.single_atom(cdim[c])
        if at is None or at.name != 'trunc':
            raise AnalysisIncomplete('cell count %r is not an integer conversion' % cdim[c])
        n.append(as_rf(at.args[0]))
        want = nf.fn_app('ceil', RF.sym('W.' + AX[c]) / RF.sym('m'))
        ctx.check(rule, 'cell-count-%s%s' % (AX[c], sfx), n[c] == want, repr(n[c]), 'ceil(width_%s / max_cell_width)' % AX[c], w, key_extra='cdim')
    pushes = [e for e in ip.events if e.callee and e.callee.endswith('Vec::<T, A>::push') and e.body is nb]
    if len(pushes) != 1:
        raise AnalysisIncomplete('cell creation sites in Space::new: %d' % len(pushes))
    e = pushes[0]
    cell = e.fargs[1]
    loc = c3(I.get_field(cell, 'loc'))
    wid = c3(I.get_field(cell, 'width'))
    nexts = next_events(ip, nb)
    counters = []
    for c in range(3):
        W, A = RF.sym('W.' + AX[c]), RF.sym('A.' + AX[c])
        cw = W / n[c]
        ctx.check(rule, 'cell-width-%s%s' % (AX[c], sfx), wid[c] == cw, repr(wid[c]), 'width_%s / cdim_%s' % (AX[c], AX[c]), where(nb, e.line), key_extra='cw')
        idx = (loc[c] - A) / cw
        at = I.single_atom(idx)
        which = None
        if at is not None:
            for x in nexts:
                r = resolve_item(at, x.result, ('pos', 'range'))
                if r is not None and not r[1]:
                    which = x
        ok = which is not None
        detail = repr(loc[c])[:100]
        if ok:
            L, li = loop_record_of(ip, which)
            rng = I.frozen(L['init'][li])
            want_rng = 'Range{start: 0, end: %r}' % (cdim[c],)
            ok = repr(rng) == want_rng
            detail = 'anchor + n*cw, n over %s' % repr(rng)[:80]
            counters.append((c, L['header']))
        ctx.check(rule, 'cell-origin-%s%s' % (AX[c], sfx), ok, detail, 'anchor_%s + n * cw_%s for n in 0..cdim_%s (its own axis)' % (AX[c], AX[c], AX[c]), where(nb, e.line), key_extra='origin:%s' % AX[c])
    # nesting order x (outer) -> y -> z (inner): the z loop's blocks are contained in the y loop's, which are contained in the x loop's
    if len(counters) == 3:
        recs = {L['header']: L for L in ip.loops if L['body'] is nb}
        bx, by, bz = [recs[h]['blocks'] for c, h in counters]
        ok = bz < by < bx
        ctx.check(rule, 'storage-order-matches-get_cid' + sfx, ok, 'loop nesting: x %d blocks, y %d, z %d' % (len(bx), len(by), len(bz)), 'x outermost, z innermost (index i*cy*cz + j*cz + k)', w, key_extra='nesting')
    extra = [g for g in e.guard if not (dtab.is_discr_eq(g) and '::next(' in repr(g))]
    ctx.check(rule, 'every-cell-created' + sfx, not extra, [repr(g)[:60] for g in extra], 'unconditional inside the loops', where(nb, e.line), key_extra='guard')
    # get_cid
    sp = I.Sym(nf.sym_atom('sp'), 'space::Space')
    g = F.body_by_suffix('space::Space::get_cid')
    ip2 = I.Interp(F)
    v2, _ = ip2.call_body(g, [ip2.ref_to(sp), RF.sym('i'), RF.sym('j'), RF.sym('k')])
    ctx.evaluations += ip2.evaluations
    cx, cy, cz = [RF.atom(nf.app_atom('field', nf.app_atom('field', nf.sym_atom('sp'), 'cdim'), c)) for c in AX]
    want = RF.sym('i') * cy * cz + RF.sym('j') * cz + RF.sym('k')
    # decision table over "coordinate is non-negative" / "coordinate is below the cell count" per axis, however the tests are written
    cdims = {'i': repr(cx), 'j': repr(cy), 'k': repr(cz)}

    def classify(leaf):
        if leaf.op != 'cmp':
            return None
        op, a, b = leaf.args
        ta, tb = repr(a), repr(b)
        for v_ in 'ijk':
            if {ta, tb} == {v_, '0'}:
                v_left = ta == v_
                # normalise to  v >= 0
                nonneg = {'<': not v_left, '>=': v_left, '<=': not v_left and None, '>': None}.get(op)
                if op == '<':
                    return ('NN' + v_, not v_left) if v_left else None
                if op == '>=':
                    return ('NN' + v_, True) if v_left else None
                if op == '<=':
                    return ('NN' + v_, True) if not v_left else None
                if op == '>':
                    return ('NN' + v_, False) if not v_left else None
            if {ta, tb} == {v_, cdims[v_]}:
                v_left = ta == v_
                if op == '<':
                    return ('IN' + v_, True) if v_left else None
                if op == '>=':
                    return ('IN' + v_, False) if v_left else None
                if op == '>':
                    return ('IN' + v_, True) if not v_left else None
                if op == '<=':
                    return ('IN' + v_, False) if not v_left else None
        return None
    names = ['NNi', 'INi', 'NNj', 'INj', 'NNk', 'INk']
    T = dtab.Table(names, classify)
    tab = T.tabulate(v2)
    badrows = []
    idx_ok = True
    for env in T.rows():
        got = tab[tuple(env[n] for n in names)]
        inside = all(env.values())
        if inside:
            good = isinstance(got, I.St) and got.variant == 'Some' and as_rf(got.fields[0]) == want
            idx_ok = idx_ok and good
        else:
            good = isinstance(got, I.St) and got.variant == 'None'
        if not good:
            badrows.append('[%s] -> %s' % (dtab.fmt_env(env), repr(got)[:60]))
    ctx.check(rule, 'get_cid-index' + sfx, idx_ok, badrows[0] if not idx_ok and badrows else 'Some(i*cy*cz + j*cz + k) when all six range tests pass', 'i*cdim_y*cdim_z + j*cdim_z + k', where(g), key_extra='cid')
    ctx.check(rule, 'get_cid-range-check' + sfx, not [b for b in badrows if 'Some' in b or idx_ok], '%d of 64 rows wrong%s' % (len(badrows), (': ' + badrows[0]) if badrows else ''), 'Some iff 0 <= i < cdim_x, 0 <= j < cdim_y, 0 <= k < cdim_z; None otherwise', where(g), key_extra='cid-range')
    # binning
    ap = F.body_by_suffix('space::Space::add_parts')
    ip3 = I.Interp(F, no_inline=[g['path']])
    ip3.call_body(ap, [ip3.ref_to(sp, mut=True), I.Sym(nf.sym_atom('pos'), '&[glam::DVec3]')])
    ctx.evaluations += ip3.evaluations
    runs = [r for r in ip3.closure_runs if any(x.callee == g['path'] for x in r['events'])]
    if len(runs) != 1:
        raise AnalysisIncomplete('binning closures: %d' % len(runs))
    r = runs[0]
    ev = [x for x in r['events'] if x.callee == g['path']][0]
    pos = c3(I.get_field(r['item'], 1, 'glam::DVec3'))
    for c in range(3):
        anc = as_rf(I.get_field(I.get_field(sp, 'anchor'), AX[c], 'f64'))
        wd = as_rf(I.get_field(I.get_field(sp, 'width'), AX[c], 'f64'))
        cdc = as_rf(I.get_field(I.get_field(sp, 'cdim'), AX[c], 'u32'))
        want = nf.fn_app('trunc', nf.fn_app('floor', (pos[c] - anc) / wd * cdc))
        ctx.check(rule, 'binning-%s%s' % (AX[c], sfx), as_rf(ev.fargs[1 + c]) == want, repr(ev.fargs[1 + c])[:120], 'floor((x_%s - anchor_%s) / width_%s * cdim_%s)' % (AX[c], AX[c], AX[c], AX[c]), where(ap, ev.line), key_extra='bin:%s' % AX[c])
    part = r['result']
    okp = isinstance(part, I.St) and repr(I.get_field(part, 'cid')).startswith('unwrap(call:space::Space::get_cid(') and repr(I.frozen(I.get_field(part, 'x'))) == repr(I.frozen(I.get_field(r['item'], 1)))
    ctx.check(rule, 'part-records-its-cell-and-position' + sfx, okp, repr(part)[:100], 'Part::new(position, cid, id)', where(ap), key_extra='part')


def resolve_by_order(x, oracle, depth=0):
    """Resolve every ite / min / max / clamp-like atom of the scalar x with `oracle(difference) -> -1 | 0 | +1 | None` (sign of a difference of two
    scalars under the ordering considered).  A comparison the oracle cannot decide raises AnalysisIncomplete."""
    if depth > 12:
        raise AnalysisIncomplete('nesting too deep')
    x = as_rf(x)
    for _ in range(32):
        ats = [a for a in I.atoms_deep(x).values() if a.kind == 'app' and a.name in ('ite', 'min', 'max')]
        # innermost first: an atom none of whose arguments contains another such atom
        pick = None
        for a in ats:
            inner = False
            for arg in a.args:
                if isinstance(arg, RF) and any(b.kind == 'app' and b.name in ('ite', 'min', 'max') for b in I.atoms_deep(arg).values()):
                    inner = True
            if not inner:
                pick = a
                break
        if pick is None:
            if ats:
                raise AnalysisIncomplete('unresolvable nesting')
            return x
        a = pick
        if a.name in ('min', 'max'):
            p_, q_ = as_rf(a.args[0]), as_rf(a.args[1])
            sg = oracle(p_ - q_)
            if sg is None:
                raise AnalysisIncomplete('%s(%r, %r)' % (a.name, p_, q_))
            val = (p_ if sg <= 0 else q_) if a.name == 'min' else (p_ if sg >= 0 else q_)
        else:
            cnd, t_, e_ = a.args

            def val_leaf(leaf):
                if leaf.op != 'cmp':
                    raise AnalysisIncomplete('condition %r' % (leaf,))
                sg = oracle(as_rf(leaf.args[1]) - as_rf(leaf.args[2]))
                if sg is None:
                    raise AnalysisIncomplete('comparison %r' % (leaf,))
                return {'<': sg < 0, '<=': sg <= 0, '==': sg == 0, '!=': sg != 0, '>': sg > 0, '>=': sg >= 0}[leaf.args[0]]
            val = as_rf(t_) if dtab.evaluate(cnd, val_leaf) else as_rf(e_)
        x = I.subst(x, {a: val})
    raise AnalysisIncomplete('too many piecewise atoms')


def r2(ctx, F, rule, sfx):
    cl = F.body_by_suffix('space::Cell::closest_loc')
    cell = I.St('space::Cell', 'Cell', {'loc': I.sym_vec3('l'), 'width': I.sym_vec3('w')})
    ip = I.Interp(F)
    v, _ = ip.call_body(cl, [ip.ref_to(cell), I.sym_vec3('p')])
    ctx.evaluations += ip.evaluations
    got = c3(v)
    for c in range(3):
        l, w_, p = RF.sym('l.' + AX[c]), RF.sym('w.' + AX[c]), RF.sym('p.' + AX[c])
        # decided case by case over the five orderings of p against lo = l and hi = l + w (w > 0): in each, every comparison / min / max of the
        # extracted form is resolved by the ordering and what is left must be the clamp's value there — `>` or `>=`, nested min/max, an if-chain
        # or f64::clamp are then one and the same function
        cases = [('p<lo', -1, -1, l, {}), ('p=lo', 0, -1, l, {p: l}), ('lo<p<hi', 1, -1, p, {}), ('p=hi', 1, 0, l + w_, {p: l + w_}), ('p>hi', 1, 1, l + w_, {})]
        bad = []
        foreign = sorted(a.name for a in I.atoms_deep(as_rf(got[c])).values() if a.kind == 'sym' and a.name not in ('l.' + AX[c], 'w.' + AX[c], 'p.' + AX[c]))
        if foreign:
            ctx.bad(rule, 'closest-point-is-clamp-%s%s' % (AX[c], sfx), 'component %s depends on %s: %s' % (AX[c], foreign, repr(got[c])[:80]), 'clamp(p_%s, loc_%s, loc_%s + width_%s): quantities of this axis only' % (AX[c], AX[c], AX[c], AX[c]), where(cl), key_extra='clamp:%s' % AX[c])
            continue
        for name, s_lo, s_hi, want, eq in cases:
            def oracle(d, s_lo=s_lo, s_hi=s_hi):
                if d.is_zero():
                    return 0
                for base, sg in ((p - l, s_lo), (p - l - w_, s_hi), (w_, 1)):
                    q = d / base
                    if q.is_const() and q.const_value() != 0:
                        return sg * (1 if q.const_value() > 0 else -1)
                return None
            try:
                r = resolve_by_order(as_rf(got[c]), oracle)
            except AnalysisIncomplete as e:
                raise AnalysisIncomplete('closest_loc.%s compares quantities other than p, loc and loc + width: %s' % (AX[c], e))
            sub = {I.single_atom(k): v_ for k, v_ in eq.items()}
            r2_, w2_ = (I.subst(r, sub), I.subst(want, sub)) if sub else (r, want)
            if as_rf(r2_) != as_rf(w2_):
                bad.append('%s -> %r' % (name, r))
        ctx.check(rule, 'closest-point-is-clamp-%s%s' % (AX[c], sfx), not bad, '; '.join(bad)[:140] or repr(got[c])[:100], 'clamp(p_%s, loc_%s, loc_%s + width_%s) in each of the five orderings' % (AX[c], AX[c], AX[c], AX[c]), where(cl), key_extra='clamp:%s' % AX[c])
    md = F.body_by_suffix('space::Cell::min_distance_squared')
    ip = I.Interp(F, no_inline=[cl['path']])
    v, _ = ip.call_body(md, [ip.ref_to(cell), I.sym_vec3('p')])
    ctx.evaluations += ip.evaluations
    q = c3(I.mk_sym(nf.app_atom('call:space::Cell::closest_loc', I.frozen(cell), I.frozen(I.sym_vec3('p'))), 'glam::DVec3'))
    want = sum(((q[c] - RF.sym('p.' + AX[c])) ** 2 for c in range(3)), RF.const(0))
    ctx.check(rule, 'cell-bound-is-distance-to-clamped-point' + sfx, as_rf(v) == want, repr(v)[:120], '|closest_loc(p) - p|^2', where(md), key_extra='mind2')
    mf = F.body_by_suffix('space::Cell::min_distance_to_face')
    ip = I.Interp(F)
    v, _ = ip.call_body(mf, [ip.ref_to(cell), I.sym_vec3('p')])
    ctx.evaluations += ip.evaluations
    want = None
    for c in range(3):
        l, w_, p = RF.sym('l.' + AX[c]), RF.sym('w.' + AX[c]), RF.sym('p.' + AX[c])
        for t in (p - l, l + w_ - p):
            want = t if want is None else nf.fn_min(want, t)
    terms = set()

    def flat(x):
        at = I.single_atom(x)
        if at is not None and at.kind == 'app' and at.name == 'min':
            flat(as_rf(at.args[0]))
            flat(as_rf(at.args[1]))
        else:
            terms.add(repr(x))
    flat(as_rf(v))
    wterms = set()
    for c in range(3):
        l, w_, p = RF.sym('l.' + AX[c]), RF.sym('w.' + AX[c]), RF.sym('p.' + AX[c])
        wterms.add(repr(p - l))
        wterms.add(repr(l + w_ - p))
    ctx.check(rule, 'distance-to-nearest-own-face' + sfx, terms == wterms, sorted(terms), 'min over the six face distances', where(mf), key_extra='face')
    # the distance candidates are ranked by: squared Euclidean distance between the two particle positions
    pd = F.body_by_suffix('part::Part::distance_squared')
    ipd = I.Interp(F)
    pa = I.St('part::Part', 'Part', {'x': I.sym_vec3('a')}, I.Sym(nf.sym_atom('pa'), 'part::Part'))
    pb = I.St('part::Part', 'Part', {'x': I.sym_vec3('b')}, I.Sym(nf.sym_atom('pb'), 'part::Part'))
    dv, _ = ipd.call_body(pd, [ipd.ref_to(pa), ipd.ref_to(pb)])
    ctx.evaluations += ipd.evaluations
    A_, B_ = c3(I.sym_vec3('a')), c3(I.sym_vec3('b'))
    wantd = sum(((A_[c] - B_[c]) ** 2 for c in range(3)), RF.const(0))
    ctx.check(rule, 'candidate-distance-is-squared-euclid' + sfx, as_rf(dv) == wantd, repr(dv)[:120], '|x_a - x_b|^2 over all three axes', where(pd), key_extra='part-distance')
    # knn: stop test and skip test
    kb = F.body_by_suffix('space::Space::knn')
    no = [x['path'] for x in F.bodies if strip_generics(x['path']).endswith(('Space::get_r_ring', 'Cell::min_distance_squared', 'Cell::min_distance_to_face', 'Part::distance_squared'))]
    ip = I.Interp(F, no_inline=no)
    sp = I.Sym(nf.sym_atom('sp'), 'space::Space')
    ip.call_body(kb, [ip.ref_to(sp), RF.sym('k')])
    ctx.evaluations += ip.evaluations
    w = where(kb)
    fc = foreign_conditions(ip, DECISION_INPUTS)
    ctx.check(rule, 'search-decisions-depend-on-the-search-state-only' + sfx, not fc, fc[:3] or 'every condition in knn reads the heap, the distances, the grid or an iterator', 'no decision of the search consults anything else', w, key_extra='foreign')
    # find comparisons against peek().d_2
    peeks = [e for e in ip.events if e.callee and e.callee.endswith('BinaryHeap::<T, A>::peek') and e.body is kb]
    mds = [e for e in ip.events if e.callee and strip_generics(e.callee).endswith('Cell::min_distance_squared') and e.body is kb]
    mfs = [e for e in ip.events if e.callee and strip_generics(e.callee).endswith('Cell::min_distance_to_face') and e.body is kb]
    ok = len(mfs) == 1 and 'sp.cells[' in repr(mfs[0].fargs[0]) and '.cid' in repr(mfs[0].fargs[0]) and repr(mfs[0].fargs[1]).endswith('.x')
    ctx.check(rule, 'face-distance-of-own-cell' + sfx, ok, [repr(a)[-70:] for a in mfs[0].fargs] if mfs else 'none', 'self.cells[part.cid()].min_distance_to_face(part.x())', w, key_extra='own-face')
    # the stop test: some guard of a post-ring event has form (peek.d_2 < (dtf + r*thick)^2)
    leaves = {}
    for e in ip.events:
        if e.body is kb:
            for g in e.guard:
                dtab.b_leaves(g, leaves)
    for L in ip.loops:
        if L['body'] is kb:
            for g, vals in L['back']:
                for c in g:
                    dtab.b_leaves(c, leaves)
    dtf = as_rf(mfs[0].result) if mfs else None
    thick = None
    stop = None
    for l in leaves.values():
        if l.op == 'cmp' and l.args[0] in ('<', '<='):
            for side in (1, 2):
                x = l.args[side]
                if isinstance(x, RF) and dtf is not None and any(a.id == I.single_atom(dtf).id for a in I.atoms_deep(x).values()):
                    stop = (l, side)
    if stop is None:
        ctx.bad(rule, 'termination-bound' + sfx, 'no comparison involving the distance to the own cell\'s face', '(dist_to_face + r*thickness)^2 > k-th best distance', w, key_extra='no-stop-test')
        return
    l, side = stop
    bound = l.args[side]
    other = l.args[3 - side]
    # the leaf is either the stop test (kth < bound) or its negation, the continue test (bound <= kth)
    form_ok = (side == 2 and l.args[0] == '<') or (side == 1 and l.args[0] == '<=')
    # bound == (dtf + r*T)^2 with T = min over the three components of a grid cell's width
    cw0 = I.get_field(I.get_index(I.get_field(sp, 'cells'), RF.const(0), 'space::Cell'), 'width', 'glam::DVec3')
    want_terms = {repr(x) for x in c3(cw0)}
    okb = False
    for ta in [a for a in I.atoms_deep(bound).values() if a.kind == 'app' and a.name == 'min']:
        terms = set()
        flat_min(RF.atom(ta), terms)
        if terms != want_terms:
            continue
        for ra in [a for a in I.atoms_deep(bound).values() if a.kind == 'sym' and a.name.startswith('phi')]:
            if bound == (dtf + RF.atom(ra) * RF.atom(ta)) ** 2:
                okb = True
    ctx.check(rule, 'termination-bound' + sfx, okb and form_ok, 'stop when %s %s %s' % (repr(other)[-60:], l.args[0], repr(bound)[:160]),
              'k-th best d^2 < (dist_to_face + r * min_c(cell width_c))^2, cell width taken from the grid cells', w, key_extra='stop-bound')
    ctx.check(rule, 'termination-compares-with-kth-best' + sfx, 'peek' in repr(other) and repr(other).endswith('.d_2'), repr(other)[-80:], 'h.peek().d_2', w, key_extra='stop-rhs')
    # skip test: guard containing min_distance_squared result
    skip = None
    if mds:
        m = as_rf(mds[0].result)
        for l2 in leaves.values():
            if l2.op == 'cmp' and l2.args[0] in ('<', '<=') and isinstance(l2.args[2], RF) and l2.args[2] == m:
                skip = l2
    oks = skip is not None and skip.args[0] == '<' and 'peek' in repr(skip.args[1]) and repr(skip.args[1]).endswith('.d_2')
    ctx.check(rule, 'cell-skip-test' + sfx, oks, repr(skip)[:160] if skip else 'none', 'skip iff k-th best d^2 < min_distance_squared(cell, part.x())', w, key_extra='skip')
    if mds:
        a = mds[0].fargs
        ctx.check(rule, 'cell-bound-for-the-query' + sfx, 'sp.cells[' in repr(a[0]) and repr(a[1]) == repr(mfs[0].fargs[1]), [repr(x)[-60:] for x in a], 'the ring cell and the query position', w, key_extra='skip-args')
    # the two pruning decisions are the ONLY ways to prune: tabulate, over every condition the loop tests, when the search goes on
    # to the next ring and when a ring cell's particles are examined.  Conditions other than the ones named here are free atoms:
    # the requirement has to hold whichever way they fall.
    free = {}
    free_txt = {}

    def classify(leaf):
        t = repr(leaf)
        d = dtab.is_discr_eq(leaf)
        if d is not None and '::next(' in repr(d[0]):
            return ('const', (d[1] == 1) == d[2])
        if leaf.op == 'cmp':
            op, a, b = leaf.args
            ta, tb = repr(a), repr(b)
            if {ta, tb} == {'k', '0'} and op in ('==', '!='):
                return ('K0', op == '==')
            pure_len = lambda x_: isinstance(x_, RF) and I.single_atom(x_) is not None and 'BinaryHeap::len' in str(I.single_atom(x_).name) and x_ == RF.atom(I.single_atom(x_))
            if (pure_len(a) and tb == 'k') or (pure_len(b) and ta == 'k'):      # exactly len(heap) against k (len(heap) + 1 == k is another condition)
                lhs_len = pure_len(a)
                full = {'==': True, '!=': False, '<': not lhs_len, '>=': lhs_len, '>': None, '<=': None}[op]
                if full is not None:
                    return ('FULL', full)
            if leaf.key() == l.key():
                return ('STOP', True)
            if stop_neg is not None and leaf.key() == stop_neg.key():
                return ('STOP', False)
            if skip is not None and leaf.key() == skip.key():
                return ('SKIP', True)
            if skip_neg is not None and leaf.key() == skip_neg.key():
                return ('SKIP', False)
            if ta.endswith('.id') and tb.endswith('.id') and op in ('==', '!='):
                return ('const', op == '!=')          # another particle (the particle itself is never its own neighbour)
            if (ta.endswith('.count') and tb == '0') or (tb.endswith('.count') and ta == '0'):
                cnt_left = ta.endswith('.count')
                empty = {'==': True, '!=': False, '<=': cnt_left, '>': not cnt_left, '<': (not cnt_left) and None, '>=': None}.get(op)
                if empty is not None:
                    return ('EMPTY', empty)
        k_ = leaf.key()
        if k_ not in free:
            free[k_] = 'X%d' % len(free)
            free_txt[free[k_]] = repr(leaf)
        return (free[k_], True)

    def negation_of(x):
        if x is None:
            return None
        for cand in leaves.values():
            if cand.op == 'cmp' and cand.key() != x.key():
                o1, a1, b1 = x.args
                o2, a2, b2 = cand.args
                if repr(a1) == repr(b2) and repr(b1) == repr(a2) and (o1, o2) in (('<', '<='), ('<=', '<')):
                    return cand
        return None
    # l is "kth < bound" (stop) or "bound <= kth" (continue): normalise
    if not ((side == 2 and l.args[0] == '<') or (side == 1 and l.args[0] == '>')):
        stop_pos, stop_neg = negation_of(l), l
        if stop_pos is None:
            stop_pos = l
            stop_neg = None
            pol_stop = False
        else:
            l = stop_pos
            pol_stop = True
    else:
        stop_neg = negation_of(l)
        pol_stop = True
    skip_neg = negation_of(skip)

    def dnf_rows(guards, names_needed):
        # guards: list of guard tuples (each a conjunction); -> list of (env, value)
        for g in guards:
            for c in g:
                for lf in dtab.b_leaves(c).values():
                    classify(lf)
        names = ['K0', 'FULL', 'STOP', 'SKIP', 'EMPTY'] + sorted(set(free.values()))
        T2 = dtab.Table(names, classify)
        out = []
        for env in T2.rows():
            unknown = []
            val = T2.valuation(env, unknown)
            out.append((env, any(dtab.conj(g, val) for g in guards)))
        return out
    ringL = None
    for L in ip.loops:
        if L['body'] is kb and any(l.key() in dtab.b_leaves(c) or (stop_neg is not None and stop_neg.key() in dtab.b_leaves(c)) for g, _v in L['back'] for c in g):
            ringL = L
    if ringL is None:
        ctx.bad(rule, 'search-continues-unless-bound-exceeded' + sfx, 'the termination test does not control a loop back edge', 'ring loop continues iff not (heap full and bound exceeded)', w, key_extra='no-ring-loop')
    else:
        base = [g for g, _v in ringL['back']]
        badrows = []
        for env, taken in dnf_rows(base, None):
            stop_now = env['FULL'] and (env['STOP'] if pol_stop else not env['STOP'])
            if not env['K0'] and not stop_now and not taken:
                row = {k_: v_ for k_, v_ in env.items() if k_ not in ('STOP', 'SKIP', 'EMPTY') and (v_ or k_ == 'FULL')}
                row['BOUND-EXCEEDED'] = (env['STOP'] if pol_stop else not env['STOP'])
                badrows.append(dtab.fmt_env(row))
        inv = dict(free_txt)
        ctx.check(rule, 'search-continues-unless-bound-exceeded' + sfx, not badrows, ('search ends although the bound is not exceeded when [%s]%s' % (badrows[0], ''.join('; %s is %s' % (n, inv[n][:120]) for n in sorted(inv) if n in badrows[0]))) if badrows else 'next ring is searched in every row without (heap full and k-th best < bound)',
                  'the ring loop is left only when k == 0 or (heap full and k-th best d^2 < bound^2)', w, key_extra='stop-only')
    dse = [e for e in ip.events if e.body is kb and e.callee and strip_generics(e.callee).endswith('Part::distance_squared')]
    if dse and skip is not None:
        free.clear()
        free_txt.clear()
        # only the conditions up to the cell level: drop the leaves introduced inside the particle loop (self test, iteration)
        badrows = []
        for env, examined in dnf_rows([e.guard for e in dse], None):
            skip_now = env['FULL'] and env['SKIP']
            if not env['K0'] and not env['EMPTY'] and not skip_now and not examined:
                row = {k_: v_ for k_, v_ in env.items() if k_ not in ('STOP', 'SKIP') and (v_ or k_ == 'FULL')}
                row['CELL-BOUND-EXCEEDED'] = env['SKIP']
                badrows.append(dtab.fmt_env(row))
        inv = dict(free_txt)
        ctx.check(rule, 'cell-examined-unless-bound-exceeded' + sfx, not badrows, ('a ring cell is not examined although its bound does not exceed the k-th best when [%s]%s' % (badrows[0], ''.join('; %s is %s' % (n, inv[n][:120]) for n in sorted(inv) if n in badrows[0]))) if badrows else 'particles of a ring cell are examined in every row without (heap full and k-th best < cell bound)',
                  'a non-empty ring cell is skipped only when heap full and k-th best d^2 < min_distance_squared(cell)', w, key_extra='skip-only')
    # "its k nearest OTHER particles", "all 0 <= k < n": the particle itself never reaches the heap, and for k == 0 no ring is searched at all
    # (with an empty heap `h.len() == k` holds at once and the k-th best is asked of an empty heap)
    def rows_reaching(events, forced):
        fr = {}

        def cls(leaf):
            if leaf.op == 'cmp':
                op, a, b = leaf.args
                ta, tb = repr(a), repr(b)
                if ta.endswith('.id') and tb.endswith('.id') and op in ('==', '!='):
                    return ('SELF', op == '==')
                if {ta, tb} == {'k', '0'} and op in ('==', '!='):
                    return ('K0', op == '==')
            d = dtab.is_discr_eq(leaf)
            if d is not None and '::next(' in repr(d[0]):
                return ('const', (d[1] == 1) == d[2])
            k_ = leaf.key()
            if k_ not in fr:
                fr[k_] = 'Y%d' % len(fr)
            return (fr[k_], True)
        for e in events:
            for c in e.guard:
                for lf in dtab.b_leaves(c).values():
                    cls(lf)
        if len(fr) > 12:
            raise AnalysisIncomplete('knn: %d independent conditions on the way to the heap' % len(fr))
        T3 = dtab.Table(['SELF', 'K0'] + sorted(set(fr.values())), cls)
        hits = []
        for env in T3.rows():
            if all(env[k_] == v_ for k_, v_ in forced.items()):
                val = T3.valuation(env, [])
                if any(dtab.conj(e.guard, val) for e in events):
                    hits.append(dtab.fmt_env({k_: v_ for k_, v_ in env.items() if v_}))
        return hits
    heap_mut = [e for e in ip.events if e.callee and re.search(r'BinaryHeap(::<[^>]*>)?::push$|PeekMut', e.callee)]      # (every replacement pushes; the final drain pops)
    if not heap_mut:
        raise AnalysisIncomplete('knn: no heap insertion found')
    hits = rows_reaching(heap_mut, {'SELF': True})
    ctx.check(rule, 'own-particle-never-a-candidate' + sfx, not hits, ('the heap is changed for the particle itself when [%s]' % hits[0]) if hits else '%d heap operations, none reachable with ngb.id == part.id' % len(heap_mut),
              'candidates are the OTHER particles: nothing is pushed / replaced when the ids are equal', w, key_extra='self-candidate')
    rings = [e for e in ip.events if e.body is kb and e.callee and strip_generics(e.callee).endswith('Space::get_r_ring')]
    if rings:
        hits = rows_reaching(rings + peeks, {'K0': True})
        ctx.check(rule, 'nothing-searched-for-k-zero' + sfx, not hits, ('a ring is searched / the k-th best is read for k == 0 when [%s]' % hits[0]) if hits else 'no ring is enumerated and no k-th best is read when k == 0',
                  'k == 0 leaves the search at once (an empty heap has no k-th best)', w, key_extra='k0')
    # heap order
    cmpb = [b for b in F.bodies if b.get('impl_trait') == 'std::cmp::Ord' and b['path'].endswith('::cmp') and 'knn' in b['path']]
    if len(cmpb) == 1:
        ipc = I.Interp(F)
        A = I.St('H', 'H', {'d_2': RF.sym('da')}, I.Sym(nf.sym_atom('a'), 'H'))
        B_ = I.St('H', 'H', {'d_2': RF.sym('db')}, I.Sym(nf.sym_atom('b'), 'H'))
        v, _ = ipc.call_body(cmpb[0], [ipc.ref_to(A), ipc.ref_to(B_)])
        ev = [e for e in ipc.events if e.callee and e.callee.endswith('partial_cmp')]
        ok = len(ev) == 1 and [repr(z) for z in ev[0].fargs] == ['da', 'db'] and 'reverse' not in repr(v)
        ctx.check(rule, 'heap-keeps-largest-on-top' + sfx, ok, repr(v)[:80], 'natural order on d_2 (max-heap: peek is the k-th best)', where(cmpb[0]), key_extra='heap')
    else:
        ctx.incomplete(rule, 'heap-keeps-largest-on-top' + sfx, 'Ord impls of the heap entry: %d' % len(cmpb), w)


# what the decisions of the grid search and of the sphere solvers may read (names of uninterpreted calls inside conditions)
DECISION_INPUTS = '^(call|mut):(<std::iter::Rev<I> as std::iter::Iterator>::next|<std::slice::Iter<.a, T> as std::iter::Iterator>::next|<std::vec::IntoIter<T, A> as std::iter::Iterator>::next|<std::iter::Enumerate<I> as std::iter::Iterator>::next|std::iter::range::<impl std::iter::Iterator for std::ops::Range(Inclusive)?<A>>::next|std::collections::BinaryHeap::(len|peek|pop)|space::|part::|core::slice::<impl \\[T\\]>::iter|std::iter::Iterator::(enumerate|rev|map|collect)|std::vec::Vec::(is_empty|pop|len)|std::slice::<impl \\[T\\]>::to_vec|bounding_sphere::|geometry::Sphere::|<std::collections::HashSet|std::ops::RangeInclusive|<glam::)'


def flat_min(x, terms, name='min'):
    at = I.single_atom(x) if isinstance(x, RF) else None
    if at is not None and at.kind == 'app' and at.name == name:
        flat_min(as_rf(at.args[0]), terms, name)
        flat_min(as_rf(at.args[1]), terms, name)
    else:
        terms.add(repr(x))


def ring_range_ok(rng, base, cdim_c):
    """The offsets of one axis: -r..=r, or that range intersected with the offsets d for which base + d is a grid index of this axis (0 <= base + d <
    cdim): a cell outside the grid is no cell (get_cid gives None for it), so dropping exactly those offsets changes nothing."""
    if isinstance(rng, str):
        return 'RangeInclusive::new(-r, r)' in rng
    txt = repr(rng)
    if 'RangeInclusive::new(-r, r)' in txt:
        return True
    at = rng.atom if isinstance(rng, I.Sym) else None
    for _ in range(3):          # look through into_iter
        if at is not None and at.kind == 'app' and str(at.name).endswith('into_iter') and len(at.args) == 1 and isinstance(at.args[0], I.Sym):
            at = at.args[0].atom
    if at is None or at.kind != 'app' or not str(at.name).endswith('RangeInclusive::<Idx>::new') and not str(at.name).endswith('RangeInclusive::new'):
        return False
    if len(at.args) != 2 or not all(isinstance(x, RF) for x in at.args):
        return False
    lo, hi = at.args
    r = RF.sym('r')
    tl, th = set(), set()
    flat_min(lo, tl, 'max')
    flat_min(hi, th, 'min')
    lo_ok = tl == {repr(-r)} or tl == {repr(-r), repr(-base)}
    hi_ok = th == {repr(r)} or th == {repr(r), repr(cdim_c - RF.const(1) - base)}
    return lo_ok and hi_ok


def r3(ctx, F, rule, sfx):
    rb = F.body_by_suffix('space::Space::get_r_ring')
    g = F.body_by_suffix('space::Space::get_cid')
    ip = I.Interp(F, no_inline=[g['path']])
    sp = I.Sym(nf.sym_atom('sp'), 'space::Space')
    ip.call_body(rb, [ip.ref_to(sp), RF.sym('cid'), RF.sym('r')])
    ctx.evaluations += ip.evaluations
    w = where(rb)
    fc = foreign_conditions(ip, DECISION_INPUTS)
    ctx.check(rule, 'ring-decisions-depend-on-offsets-and-grid-only' + sfx, not fc, fc[:3] or 'every condition in get_r_ring reads the offsets or the grid', 'no decision of the ring enumeration consults anything else', w, key_extra='foreign')
    ev = [e for e in ip.events if e.callee == g['path']]
    nexts = next_events(ip, rb)
    # the offsets: loop counters (nested `for`) or elements of ranges combined by flat_map / map / filter / filter_map
    counters = []         # (offset symbol as RF, text of its range)
    chain_guards = None
    if not [x for x in nexts if x.in_loop]:
        ip = I.Interp(F, no_inline=[g['path']])
        v, _ = ip.call_body(rb, [ip.ref_to(sp), RF.sym('cid'), RF.sym('r')])
        streams = [leaf for conds, leaf in cases(v) if isinstance(leaf, I.Sym) and 'RangeInclusive' in repr(leaf)]
        if len(streams) != 1:
            raise AnalysisIncomplete('get_r_ring neither loops over offsets nor returns a stream over offset ranges')
        n0 = len(ip.events)
        item, chain_guards, sources = expand_stream(ip, streams[0])
        ev = [e for e in ip.events[n0:] if e.callee == g['path']]
        counters = [(sym, txt) for sym, txt in sources]
    else:
        for x in nexts:
            rec, li = loop_record_of(ip, x)
            counters.append((as_rf(I.get_field(I.downcast(x.result, 'Some'), 0, 'i32')), I.frozen(rec['init'][li])))
    if len(ev) != 1:
        raise AnalysisIncomplete('get_cid calls in get_r_ring: %d' % len(ev))
    e = ev[0]
    rngs = []
    offs = []
    for c in range(3):
        a = as_rf(e.fargs[1 + c])
        # a == base_c + d_c with d_c an offset running over -r..=r
        found = None
        for it, rng_txt in counters:
            rest = a - it
            if not any(at.id == I.single_atom(it).id for at in I.atoms_deep(rest).values()):
                found = (it, rng_txt, rest)
        if found is None:
            ctx.bad(rule, 'ring-offset-%s%s' % (AX[c], sfx), repr(a)[:100], 'cell index + d with d in -r..=r', w, key_extra='offset:%s' % AX[c])
            continue
        it, rng, rest = found
        ok = ring_range_ok(rng, rest, as_rf(I.get_field(I.get_field(sp, 'cdim'), AX[c], 'u32')))
        ctx.check(rule, 'ring-offset-%s%s' % (AX[c], sfx), ok, 'd over %s' % repr(rng)[-90:], 'd in -r..=r (or that range cut to the offsets that stay inside the grid on this axis: max(-r, -i) ..= min(r, cdim - 1 - i))', w, key_extra='range:%s' % AX[c])
        offs.append((c, rest, it))
    # base indices decode cid consistently with get_cid
    if len(offs) == 3:
        cx, cy, cz = [as_rf(I.get_field(I.get_field(sp, 'cdim'), c, 'u32')) for c in AX]
        cid = RF.sym('cid')
        want = [nf.fn_app('idiv', cid, cy * cz), nf.fn_app('idiv', nf.fn_app('rem', cid, cy * cz), cz), nf.fn_app('rem', cid, cz)]
        ok = all(offs[c][1] == want[c] for c in range(3))
        ctx.check(rule, 'ring-centre-decodes-cid' + sfx, ok, [repr(o[1])[:60] for o in offs], 'i = cid / (cy*cz), j = (cid % (cy*cz)) / cz, k = cid % cz', w, key_extra='decode')
        # the Chebyshev filter: skipped iff max(|di|,|dj|,|dk|) < r
        ds = [o[2] for o in offs]
        want_terms = {repr(nf.fn_abs(d)) for d in ds}
        keep = None
        all_guards = list(e.guard) + [x for x in (chain_guards or []) if not (x.op == 'atom' and 'get_cid' in repr(x))]
        for gd in all_guards:
            if gd.op == 'cmp' and gd.args[0] == '<=' and repr(gd.args[1]) == 'r' and isinstance(gd.args[2], RF):
                terms = set()
                flat_min(gd.args[2], terms, 'max')
                if terms == want_terms:
                    keep = gd
        ok = keep is not None
        extra = [gd for gd in all_guards if gd is not keep and repr(gd) != '(r != 0)' and not (dtab.is_discr_eq(gd) and '::next(' in repr(gd))]
        ctx.check(rule, 'ring-is-chebyshev-shell' + sfx, ok and not extra, [repr(gd)[:90] for gd in all_guards if not ('::next(' in repr(gd))], 'offset kept iff max(|di|,|dj|,|dk|) >= r', w, key_extra='shell')


def r4(ctx, F, rule, sfx):
    b = F.body_by_suffix('Sphere::from_boundary_points')
    ctors = {2: 'Sphere::from_two_points', 3: 'Sphere::from_three_points', 4: 'Sphere::from_four_points'}
    no = [x['path'] for x in F.bodies if x['path'].endswith(tuple(ctors.values()))]
    w = where(b)
    for k in range(0, 5):
        ip = I.Interp(F, no_inline=no)
        pts = I.arr([I.sym_vec3('p%d' % i) for i in range(k)])
        try:
            v, _ = ip.call_body(b, [ip.ref_to(pts)])
        except I.Diverge:
            ctx.bad(rule, 'boundary-points-%d%s' % (k, sfx), 'panics', 'a sphere', w, key_extra='k%d:diverge' % k)
            continue
        ctx.evaluations += ip.evaluations
        t = repr(I.frozen(v)).replace(' ', '')
        if k >= 2:
            # the sphere through k points does not depend on the order they are named in: every point once, any order
            pts_txt = ['DVec3{x:p%d.x,y:p%d.y,z:p%d.z}' % (i, i, i) for i in range(k)]
            head = 'call:geometry::%s(' % ctors[k]
            ok_k = t.startswith(head) and t.endswith(')') and sorted(re.findall(r'DVec3\{x:p\d\.x,y:p\d\.y,z:p\d\.z\}', t[len(head):-1])) == sorted(pts_txt) \
                and re.sub(r'DVec3\{x:p\d\.x,y:p\d\.y,z:p\d\.z\}', '', t[len(head):-1]).strip(',') == ''
            ctx.check(rule, 'boundary-points-%d%s' % (k, sfx), ok_k, t[:120], '%s(points[0], .., points[%d]) (each point once)' % (ctors[k], k - 1), w, key_extra='k%d' % k)
        elif k == 1:
            ok = False
            detail = t[:120]
            if isinstance(v, I.St):
                c = c3(I.get_field(v, 'center'))
                r_ = as_rf(I.get_field(v, 'radius'))
                ok = [repr(x) for x in c] == ['p0.x', 'p0.y', 'p0.z'] and r_.is_zero()
            ctx.check(rule, 'boundary-points-1%s' % sfx, ok, detail, 'the sphere of radius 0 centred at the point (it must contain its boundary point)', w, key_extra='k1:%s' % ('empty' if 'EMPTY' in t else 'other'))
        else:
            ctx.check(rule, 'boundary-points-0%s' % sfx, 'EMPTY' in t or (isinstance(v, I.St) and as_rf(I.get_field(v, 'radius')).is_zero()), t[:80], 'the empty sphere', w, key_extra='k0')


def r5(ctx, F, rule, sfx):
    wb = F.body_by_suffix('Welzl::bounding_sphere_recursive')
    no = [x['path'] for x in F.bodies if x['path'].endswith(('Sphere::from_boundary_points', 'Sphere::contains'))]
    ip = I.Interp(F, no_inline=no)
    pts = I.Sym(nf.sym_atom('pts'), 'std::vec::Vec<glam::DVec3>')
    bnd = I.Sym(nf.sym_atom('bnd'), 'std::vec::Vec<glam::DVec3>')
    v, _ = ip.call_body(wb, [ip.ref_to(pts, mut=True), ip.ref_to(bnd, mut=True)])
    ctx.evaluations += ip.evaluations
    w = where(wb)
    fc = foreign_conditions(ip, DECISION_INPUTS)
    ctx.check(rule, 'recursion-decisions-depend-on-points-and-spheres-only' + sfx, not fc, fc[:3] or 'every condition reads the two vectors or a sphere', 'no decision of the recursion consults anything else', w, key_extra='foreign')
    ev = [e for e in ip.events if e.body is wb]
    name = lambda e: e.callee.rsplit('::', 1)[-1]
    EMPTY = 'b:call:std::vec::Vec::is_empty(pts)'
    FULL = '(len(bnd) == 4)'
    base = [e for e in ev if name(e) == 'from_boundary_points']
    gsets = sorted(tuple(repr(g) for g in e.guard) for e in base)
    ok = len(base) == 2 and all(repr(e.fargs[0]) == 'bnd' for e in base) and gsets == sorted([(EMPTY,), ('!' + EMPTY, FULL)])
    ctx.check(rule, 'base-case%s' % sfx, ok, gsets, 'from_boundary_points(boundary) iff points is empty or boundary.len() == 4', w, key_extra='base')
    rec = [e for e in ev if name(e) == 'bounding_sphere_recursive']
    con = [e for e in ev if name(e) == 'contains']
    pops = [e for e in ev if name(e) == 'pop']
    pushes = [e for e in ev if name(e) == 'push']
    pt = 'unwrap(call:std::vec::Vec::pop(pts))'
    ok = len(con) == 1 and repr(con[0].fargs[1]) == pt and len(rec) == 2 and repr(con[0].fargs[0]) == repr(I.frozen(rec[0].result))
    ctx.check(rule, 'tests-the-removed-point-against-the-rest%s' % sfx, ok, [repr(a)[-60:] for a in con[0].fargs] if con else 'no containment test', 'solution(rest).contains(point taken off)', w, key_extra='test')
    notc = '!' + repr(I.B('atom', nf.app_atom('call:geometry::Sphere::contains', *[x for x in con[0].fargs]))) if con else None
    notcont = lambda e: any(repr(g).startswith('!b:call:geometry::Sphere::contains(') for g in e.guard)
    bp = [e for e in pushes if repr(e.fargs[1]) == pt and notcont(e)]
    ok = len(bp) == 1 and len(rec) == 2 and any(repr(g).startswith('!b:call:geometry::Sphere::contains(') for g in bp[0].guard) and any(repr(g).startswith('!b:call:geometry::Sphere::contains(') for g in rec[1].guard)
    # ... and under no further condition: "not contained" alone decides (a point that is not in the sphere of the rest lies on the boundary of the
    # minimal sphere — Welzl's lemma has no exception for points close to, or equal to, a boundary point)
    extra = []
    if ok:
        # (the conditions of the first recursive call are those of "not a base case")
        for e in (bp[0], rec[1]):
            extra += [repr(g) for g in e.guard if repr(g) not in {repr(x) for x in rec[0].guard} and not repr(g).startswith('!b:call:geometry::Sphere::contains(')]
        ok = not extra
    ctx.check(rule, 'point-joins-boundary-iff-not-contained%s' % sfx, ok, '%d boundary push(es)%s' % (len(bp), '; further conditions: %s' % [x[:80] for x in extra[:2]] if extra else ''), 'boundary.push(point); re-solve — exactly when !solution.contains(point)', w, key_extra='retry')
    # restoration: boundary.pop() on the retry path, points.push(point) on every non-base path
    bpop = [e for e in pops if 'bounding_sphere_recursive' in repr(e.fargs[0]) and any(repr(g).startswith('!b:call:geometry::Sphere::contains(') for g in e.guard)]
    ppush = [e for e in pushes if repr(e.fargs[1]) == pt and e not in bp]
    ok = len(bpop) == 1 and len(ppush) == 1 and not any('contains' in repr(g) for g in ppush[0].guard)
    ctx.check(rule, 'vectors-restored%s' % sfx, ok, 'boundary pops on the retry path: %d; points pushes: %d' % (len(bpop), len(ppush)), 'boundary.pop() after the retry, points.push(point) before returning', w, key_extra='restore')
    # entry: starts with an empty boundary and all points
    eb = F.body('<bounding_sphere::Welzl as bounding_sphere::BoundingSphereSolver>::bounding_sphere')
    ip2 = I.Interp(F, no_inline=[wb['path']] + [x['path'] for x in F.bodies if x['path'].endswith('Sphere::from_boundary_points')])
    rv2, rets2 = ip2.call_body(eb, [I.Sym(nf.sym_atom('points'), '&[glam::DVec3]')])
    ctx.evaluations += ip2.evaluations
    r0 = [e for e in ip2.events if e.callee == wb['path']]
    empty_vec = lambda t: t.replace(' ', '') == 'array{}' or re.match(r'^call:std::vec::Vec(::<[^>]*>)?::(new|with_capacity)\(', t) is not None
    ok = len(r0) == 1 and repr(r0[0].fargs[0]) == 'call:std::slice::<impl [T]>::to_vec(points)' and empty_vec(repr(r0[0].fargs[1]))
    ctx.check(rule, 'starts-from-all-points-and-empty-boundary%s' % sfx, ok, [repr(a)[:60] for a in r0[0].fargs] if r0 else 'no call', 'recursive(points.to_vec(), [])', where(eb), key_extra='entry')
    # ... for EVERY input: no shortcut around the recursion (a set of <= 4 points is not the boundary of its own minimal sphere)
    if r0:
        unguarded = not r0[0].guard
        leaves2 = [lf for _g, v, _s in rets2 for _cs, lf in cases(v)]
        rets2 = [(None, lf, None) for lf in leaves2]
        all_from_rec = all(I.vkey(I.frozen(v)) == I.vkey(I.frozen(r0[0].result)) for _g, v, _s in rets2)
        if not unguarded and len(r0[0].guard) == 1:
            # a shortcut for point sets that ARE the boundary of their minimal sphere whatever they are: 0, 1 or 2 points, handed to the k-point constructor
            g = r0[0].guard[0]
            small = g.op == 'cmp' and g.args[0] == '<' and isinstance(g.args[1], RF) and g.args[1].is_const() and g.args[1].const_value() <= 2 and repr(g.args[2]) == 'len(points)'
            others = [v for _g, v, _s in rets2 if I.vkey(I.frozen(v)) != I.vkey(I.frozen(r0[0].result))]
            direct = all(re.match(r'^call:geometry::Sphere::from_boundary_points\((points|call:std::slice::<impl \[T\]>::to_vec\(points\)|call:.*deref\(.*points.*\))\)$', repr(I.frozen(v))) for v in others)
            if small and direct:
                unguarded = all_from_rec = True
        ctx.check(rule, 'every-input-goes-through-the-recursion%s' % sfx, unguarded and all_from_rec and len(rets2) >= 1,
                  'recursion reached under %s; %d return path(s), all returning its result: %s' % ([repr(g)[:60] for g in r0[0].guard] or 'no condition', len(rets2), all_from_rec),
                  'the exact solver returns the result of the recursion for every point set, unconditionally', where(eb), key_extra='shortcut')


def r6(ctx, F, rule, sfx):
    eb = F.body('<bounding_sphere::Epos6 as bounding_sphere::BoundingSphereSolver>::bounding_sphere')
    no = [x['path'] for x in F.bodies if x['path'].endswith(('Sphere::extend', 'BoundingSphereSolver>::bounding_sphere')) and x is not eb]
    ip = I.Interp(F, no_inline=no)
    v, _ = ip.call_body(eb, [I.Sym(nf.sym_atom('points'), '&[glam::DVec3]')])
    ctx.evaluations += ip.evaluations
    w = where(eb)
    fc = foreign_conditions(ip, DECISION_INPUTS)
    ee = early_exits(ip, None, body=eb)
    ctx.check(rule, 'growth-runs-over-all-inputs-unconditionally' + sfx, not fc and not ee, (fc[:2] + ee[:2]) or 'no foreign condition, no loop left with an item in hand', 'every input is looked at; no decision consults anything but the inputs and the sphere', w, key_extra='foreign')
    ext = [e for e in ip.events if e.body is eb and e.callee and e.callee.endswith('Sphere::extend')]
    ok = len(ext) == 1 and ext[0].in_loop
    detail = '%d extend call(s)' % len(ext)
    if ok:
        nx = [x for x in next_events(ip, eb) if x.in_loop and repr(I.frozen(I.get_field(I.downcast(x.result, 'Some'), 0))) == repr(ext[0].fargs[1])]
        ok = len(nx) == 1
        if ok:
            chain, src = loop_stream(ip, nx[0])
            names = [n for n, _ in chain]
            ok = names in (['into_iter'], ['into_iter', 'iter'], ['iter']) and repr(src) == 'points'
            detail = 'extend(item) over %s of %r' % (' <- '.join(names), src)
            extra = [g for g in ext[0].guard if not (dtab.is_discr_eq(g) and '::next(' in repr(g))]
            ok = ok and not extra
            # loop-carried sphere: the extended sphere becomes the current one
            L, li = loop_record_of(ip, nx[0])
            carried = [i for i, p_ in enumerate(L['phi']) if p_ is not None and repr(I.frozen(p_)) == repr(ext[0].fargs[0])]
            ok = ok and len(carried) == 1 and all(repr(I.frozen(vals.get(carried[0]))) == repr(I.frozen(ext[0].result)) for g, vals in L['back'])
            ok = ok and repr(I.frozen(v)) == repr(ext[0].fargs[0])
    ctx.check(rule, 'points:grown-over-every-input%s' % sfx, ok, detail, 'for point in points { sphere = sphere.extend(*point) } and the loop-carried sphere is returned', w, key_extra='points')
    # spheres: the extension step
    sb = F.body('<bounding_sphere::Epos6 as bounding_sphere::BoundingSphereSolver>::bounding_sphere_of_spheres')
    ip = I.Interp(F, no_inline=[x['path'] for x in F.bodies if x['path'].endswith('BoundingSphereSolver>::bounding_sphere') or 'bounding_sphere_of_spheres::{closure' in x['path']])
    v, _ = ip.call_body(sb, [I.Sym(nf.sym_atom('spheres'), '&[geometry::Sphere]')])
    ctx.evaluations += ip.evaluations
    ws = where(sb)
    fc = foreign_conditions(ip, DECISION_INPUTS)
    ee = early_exits(ip, None, body=sb)
    ctx.check(rule, 'spheres:growth-runs-over-all-inputs-unconditionally' + sfx, not fc and not ee, (fc[:2] + ee[:2]) or 'no foreign condition, no loop left with an item in hand', 'every sphere is looked at; no decision consults anything but the inputs and the bounding sphere', ws, key_extra='foreign-spheres')
    # the last loop of the function: its back-edge value of the bounding sphere
    loops = [L for L in ip.loops if L['body'] is sb and L['depth'] == 1]
    last = None
    for L in loops:
        for i, p_ in enumerate(L['phi']):
            if p_ is not None and 'Sphere' in (sb['locals'][i]['ty']) and L['init'][i] is not None and 'bounding_sphere(' in repr(I.frozen(L['init'][i])):
                last = (L, i)
    if last is None:
        raise AnalysisIncomplete('the extension loop over the spheres was not identified')
    L, bi = last
    cur = L['phi'][bi]
    backs = [vals.get(bi) for g, vals in L['back']]
    if len(backs) != 1:
        raise AnalysisIncomplete('extension loop has %d back edges' % len(backs))
    nxt = backs[0]
    R = as_rf(I.get_field(cur, 'radius', 'f64'))
    C = c3(I.get_field(cur, 'center', 'glam::DVec3'))
    nx = [x for x in next_events(ip, sb) if blk_of_loop(sb, x, L)]
    if len(nx) != 1:
        raise AnalysisIncomplete('extension loop has %d stream reads' % len(nx))
    chain, src = loop_stream(ip, nx[0])
    ok_stream = [n for n, _ in chain] in (['into_iter'], ['into_iter', 'iter'], ['iter']) and repr(src) == 'spheres'
    ctx.check(rule, 'spheres:grown-over-every-input%s' % sfx, ok_stream, '%s over %r' % (' <- '.join(n for n, _ in chain), src), 'for sphere in spheres', ws, key_extra='spheres-stream')
    it = I.get_field(I.downcast(nx[0].result, 'Some'), 0)
    sc = c3(I.get_field(it, 'center', 'glam::DVec3'))
    sr = as_rf(I.get_field(it, 'radius', 'f64'))
    d = [sc[i] - C[i] for i in range(3)]
    dist = nf.fn_sqrt(d[0] * d[0] + d[1] * d[1] + d[2] * d[2])
    delta = (dist - R + sr) / 2
    grow = I.b_cmp('<', RF.const(0), delta)

    Rn = as_rf(I.get_field(nxt, 'radius', 'f64'))
    Cn = c3(I.get_field(nxt, 'center', 'glam::DVec3'))
    # the one condition the step tests: must be equivalent to "0 < d" with d = (dist - R + r)/2 (any positive multiple, either polarity)
    leaves = {}
    for x in [Rn] + list(Cn):
        leaves.update(dtab.b_leaves(x))
    cmpl = [l for l in leaves.values() if l.op == 'cmp' and l.args[0] in ('<', '<=')]
    polarity = {}
    for l in cmpl:
        diff = as_rf(l.args[2]) - as_rf(l.args[1])          # lhs < rhs  <=>  diff > 0
        q = diff / delta
        if q.is_const() and q.const_value() != 0:
            # diff = q*d: (lhs < rhs) <=> d > 0 when q > 0;  (lhs <= rhs) with q < 0 <=> d <= 0
            if q.const_value() > 0 and l.args[0] == '<':
                polarity[l.key()] = True
            elif q.const_value() < 0 and l.args[0] == '<=':
                polarity[l.key()] = False
    unknown = [l for l in leaves.values() if l.key() not in polarity]
    if unknown and all(l.op == 'cmp' for l in unknown) and len(unknown) == 1:
        l = unknown[0]
        ctx.bad(rule, 'spheres:step-taken-exactly-when-not-contained%s' % sfx, 'the step is taken when %s' % repr(l)[:120], 'exactly when (dist - R + r)/2 > 0, i.e. when the sphere is not yet contained', ws, key_extra='cond')
        polarity[l.key()] = True          # go on with the two arms as they are

    def val_for(b_):
        def val(leaf):
            if leaf.key() in polarity:
                return b_ == polarity[leaf.key()]
            raise AnalysisIncomplete('sphere extension depends on %r' % (leaf,))
        return val
    R1 = as_rf(dtab.evaluate(Rn, val_for(True)))
    C1 = [as_rf(dtab.evaluate(x, val_for(True))) for x in Cn]
    R0 = as_rf(dtab.evaluate(Rn, val_for(False)))
    C0 = [as_rf(dtab.evaluate(x, val_for(False))) for x in Cn]
    ok_keep = R0 == R and all(C0[i] == C[i] for i in range(3))
    ok_grow = R1 == R + delta and all(C1[i] == C[i] + delta * d[i] / dist for i in range(3))
    tangent = ok_grow and (dist - delta + sr) == R1
    ctx.check(rule, 'spheres:step-unchanged-when-contained%s' % sfx, ok_keep, 'R -> %r' % (R0,), 'unchanged when (dist - R + r)/2 <= 0', ws, key_extra='keep')
    ctx.check(rule, 'spheres:step-is-smallest-enclosing%s' % sfx, ok_grow and tangent, 'R -> %s' % repr(R1)[:100], 'R + d, centre moved by d towards the sphere, d = (dist - R + r)/2 (then R\' == dist - d + r)', ws, key_extra='grow')


def blk_of_loop(b, ev, L):
    for bl in b['blocks']:
        if bl['term'] is ev.term:
            return bl['id'] in L['blocks']
    return False


def r7(ctx, F, rule, sfx):
    b = F.body_by_suffix('space::Space::add_parts')
    cid_b = F.body_by_suffix('part::Part::cid')
    ip = I.Interp(F, no_inline=[x['path'] for x in F.bodies if x['path'].endswith(('Space::get_cid', 'Part::new', 'Part::cid'))])
    sp = I.Sym(nf.sym_atom('space'), 'space::Space')
    spref = ip.ref_to(sp, b['locals'][1]['ty'], mut=True)
    ip.call_body(b, [spref, I.Sym(nf.sym_atom('positions'), '&[glam::DVec3]')])
    ctx.evaluations += ip.evaluations
    w = where(b)
    fc = foreign_conditions(ip, DECISION_INPUTS)
    ee = early_exits(ip, None, body=b)
    ctx.check(rule, 'bucketing-runs-over-all-particles-unconditionally' + sfx, not fc and not ee, (fc[:2] + ee[:2]) or 'no foreign condition, no loop left with an item in hand', 'every particle is bucketed; no decision consults anything but the particles and the grid', w, key_extra='foreign')
    cid_name = 'call:' + strip_generics(cid_b['path'])

    def is_cid(v):
        at = I.single_atom(as_rf(v)) if isinstance(v, (RF, I.Sym)) else None
        return at if (at is not None and at.kind == 'app' and at.name == cid_name and len(at.args) == 1) else None
    # --- the sort
    sorts = [e for e in ip.events if e.body is b and e.callee and re.search(r'::(sort_by_key|sort_unstable_by_key|sort_by_cached_key)$', e.callee)]
    if len(sorts) != 1 or sorts[0].in_loop:
        ctx.bad(rule, 'sorted-by-cell-index' + sfx, '%d sort call(s) on the particle vector before the run-length pass' % len(sorts), 'parts.sort_by_key(|p| p.cid()) once, before the pass', w, key_extra='sort')
        return
    se = sorts[0]
    probe = I.Sym(nf.sym_atom('part'), 'part::Part')
    from ..tables import call_fn_value
    try:
        key = call_fn_value(ip, se.args[1], [ip.ref_to(probe)], 'usize')
    except (AnalysisIncomplete, I.Diverge):
        key = None
    kat = is_cid(key) if key is not None else None
    ok = kat is not None and I.vkey(kat.args[0]) == I.vkey(I.frozen(probe))
    ctx.check(rule, 'sorted-by-cell-index' + sfx, ok, 'sort key: %s' % (repr(key)[:80] if key is not None else 'not evaluated'), 'the particle\'s cell index', where(b, se.line), key_extra='sortkey')
    sorted_vec = I.read_lv(se.args[0].lv) if isinstance(se.args[0], I.Ref) else None       # the vector as the sort left it
    # --- the run-length loop
    Ls = [L for L in ip.loops if L['body'] is b]
    if len(Ls) != 1:
        raise AnalysisIncomplete('add_parts: %d loops (expected the run-length pass)' % len(Ls))
    L = Ls[0]
    nx = [e for e in next_events(ip, b) if e.in_loop]
    if len(nx) != 1:
        raise AnalysisIncomplete('add_parts: %d stream reads in the pass' % len(nx))
    rec, li = loop_record_of(ip, nx[0])
    cur = I.frozen(rec['init'][li])
    names = []
    for _ in range(4):
        at = cur.atom if isinstance(cur, I.Sym) else None
        if at is None or at.kind != 'app' or len(at.args) != 1:
            break
        short = str(at.name).rsplit('::', 1)[-1]
        if short not in ('into_iter', 'iter', 'deref', 'as_slice'):
            break
        names.append(short)
        cur = at.args[0]
    src = cur
    item = I.get_field(I.downcast(nx[0].result, 'Some'), 0)
    ok_stream = 'iter' in names and sorted_vec is not None and I.vkey(I.frozen(src)) == I.vkey(I.frozen(sorted_vec))
    ctx.check(rule, 'pass-over-the-sorted-particles' + sfx, ok_stream, '%s over the %s vector' % (' <- '.join(names), 'sorted' if ok_stream else 'other'), 'iter() over the vector the sort was applied to, all of it, in order', where(b, nx[0].line), key_extra='stream')
    CID = None
    for e in ip.events:
        if e.body is b and e.in_loop and e.callee == cid_b['path'] and I.vkey(e.fargs[0]) == I.vkey(I.frozen(item)):
            CID = as_rf(e.result)
    if CID is None:
        raise AnalysisIncomplete('the pass does not read the cell index of its particle')
    # loop-carried scalars: classify by their recurrences under changed / unchanged
    carried = [i for i, (a, p) in enumerate(zip(L['init'], L['phi'])) if a is not None and p is not None and a is not p and isinstance(p, RF)]

    def arms(v, P):
        """value of v when cid(item) == P and when it differs"""
        out = []
        for same in (True, False):
            def val(leaf, same=same):
                if leaf.op == 'cmp' and leaf.args[0] in ('==', '!=') and {I.vkey(leaf.args[1]), I.vkey(leaf.args[2])} == {I.vkey(CID), I.vkey(P)}:
                    return same == (leaf.args[0] == '==')
                raise AnalysisIncomplete('the pass tests %r' % (leaf,))
            out.append(dtab.evaluate(v, val))
        return out
    roles = {}
    backs = {}
    for i in carried:
        vs = [vals.get(i) for g, vals in L['back']]
        if len(vs) != 1:
            raise AnalysisIncomplete('run-length pass has %d back edges' % len(vs))
        backs[i] = vs[0]
    # prev: the one whose "changed" arm is the particle's cell index
    for i in carried:
        P = L['phi'][i]
        try:
            same, diff = arms(backs[i], P)
        except AnalysisIncomplete:
            continue
        if as_rf(diff) == CID and as_rf(same) == P:
            roles['prev'] = i
    if 'prev' not in roles:
        ctx.bad(rule, 'run-recurrence' + sfx, 'no loop-carried "current cell" (kept while the cell index repeats, replaced by the particle\'s cell index when it changes)', 'prev = cid(part) on a change', w, key_extra='prev')
        return
    P = L['phi'][roles['prev']]
    for i in carried:
        if i == roles['prev']:
            continue
        X = L['phi'][i]
        same, diff = arms(backs[i], P)
        same, diff = as_rf(same), as_rf(diff)
        if same == X + RF.const(1) and diff == RF.const(1):
            roles['count'] = i
    if 'count' not in roles:
        ctx.bad(rule, 'run-recurrence' + sfx, 'no run counter with count\' = count + 1 / 1', 'count + 1 while the cell repeats, 1 for the first particle of the next cell', w, key_extra='count')
        return
    C = L['phi'][roles['count']]
    for i in carried:
        if i in roles.values():
            continue
        X = L['phi'][i]
        same, diff = arms(backs[i], P)
        if as_rf(same) == X and as_rf(diff) == X + C:
            roles['offset'] = i
    ctx.check(rule, 'run-recurrence' + sfx, 'offset' in roles, 'roles found: %s' % sorted(roles), 'prev / count / offset with offset\' = offset + count exactly when the cell index changes', w, key_extra='offset')
    if 'offset' not in roles:
        return
    O = L['phi'][roles['offset']]
    # initial values
    i0 = {k: L['init'][v] for k, v in roles.items()}
    pat = is_cid(i0['prev'])
    first = None
    if pat is not None and sorted_vec is not None:
        first = I.vkey(pat.args[0]) == I.vkey(I.frozen(I.get_index(sorted_vec, RF.const(0))))
    ok = isinstance(i0['offset'], RF) and i0['offset'].is_zero() and isinstance(i0['count'], RF) and i0['count'].is_zero() and bool(first)
    ctx.check(rule, 'run-start' + sfx, ok, 'offset0 = %r, count0 = %r, prev0 is the cell of the first sorted particle: %s' % (i0['offset'], i0['count'], first), '(0, 0, cid(parts[0]))', w, key_extra='init')
    # the stores: closing a run writes (offset, count) into cells[prev] and nothing else
    def cell_writes(new_cells, old_cells):
        """-> list of (index, value) of the store chain from old to new, or None"""
        out = []
        cur = new_cells
        for _ in range(8):
            if I.vkey(I.frozen(cur)) == I.vkey(I.frozen(old_cells)):
                return out
            if isinstance(cur, I.Sym) and cur.atom.kind == 'app' and cur.atom.name == 'store':
                base, j, val = cur.atom.args
                out.append((j, val))
                cur = base
                continue
            return None
        return None
    ext = [x for x in L['ext'] if x['cell'] is spref.lv.cell]
    if len(ext) != 1 or len(ext[0]['back']) != 1:
        raise AnalysisIncomplete('the pass does not update the grid through the &mut self argument')
    x = ext[0]
    old_cells = I.get_field(x['phi'], 'cells')
    new_cells = I.get_field(x['back'][0][1], 'cells')
    same_c, diff_c = arms(new_cells, P)
    wr_same = cell_writes(same_c, old_cells)
    wr_diff = cell_writes(diff_c, old_cells)

    def closes_run(wr, cells0):
        if not wr or any(I.vkey(j) != I.vkey(P) for j, _v in wr):
            return False
        v = wr[0][1]        # outermost store = final value of cells[prev]
        try:
            return as_rf(I.get_field(v, 'offset')) == O and as_rf(I.get_field(v, 'count')) == C
        except (AnalysisIncomplete, KeyError, TypeError):
            return False
    ok = wr_same == [] and wr_diff is not None and closes_run(wr_diff, old_cells)
    ctx.check(rule, 'run-closed-into-its-cell' + sfx, ok, 'writes while the cell repeats: %s; on a change: %s' % (len(wr_same) if wr_same is not None else '?', [repr(j)[-30:] for j, _ in (wr_diff or [])]),
              'cells[prev].offset = offset, cells[prev].count = count exactly when the cell index changes', w, key_extra='store')
    # after the loop: the last run
    fin = I.read_lv(spref.lv)
    wr_fin = cell_writes(I.get_field(fin, 'cells'), old_cells)
    ok = wr_fin is not None and closes_run(wr_fin, old_cells)
    ctx.check(rule, 'last-run-closed' + sfx, ok, 'stores after the loop: %s' % (len(wr_fin) if wr_fin is not None else 'not a store chain'), 'cells[prev] = (offset, count) once more after the loop', w, key_extra='last')
    stored = I.get_field(fin, 'parts')
    ok = sorted_vec is not None and I.vkey(I.frozen(stored)) == I.vkey(I.frozen(sorted_vec))
    ctx.check(rule, 'sorted-particles-stored' + sfx, ok, 'self.parts is the sorted vector: %s' % ok, 'self.parts = the vector the offsets were computed for', w, key_extra='parts')
