"""C14 — custom integrals receive an exact signed decomposition of the cell (structural clauses)."""
from .. import interp as I, nf, dtab, witness
from ..nf import RF, as_rf
from ..tables import c3
from ..facts import AnalysisIncomplete, strip_generics, calls, callee_name
from .util import *
from . import c13, c03, c01, faces

META = {
    'level': 'other',
    'configs': {'quick': ['default', 'norayon'], 'thorough': ['default', 'norayon', 'default_nodebug']},
    'rules': {
        'R1': 'nameability (downstream witnesses, type-checked only): a crate outside the repository can implement CellIntegral and FaceIntegral and evaluate them through every '
              'compute_* entry point of VoronoiIntegrator and ConvexCell; and it can implement the *WithData traits with real per-cell data',
        'R2': 'data alignment: in every *_with_data entry point the per-cell data is zipped with the UNFILTERED cell list before inactive cells are dropped, and the closure hands '
              'the data element of a slot to the cell of the same slot; every producer of a VoronoiIntegrator keeps `cells` slot-aligned with the generators (element-wise adaptors only); '
              'get_cell_at(i) reads slot i',
        'R3': 'provenance: compute_cell_integral initialises with (this cell, its data) and feeds each tetrahedron of this cell\'s decomposition as (v0, v1, v2, this cell\'s generator); '
              'the loop runs to the end of the stream; face integrals are initialised for and fed by the plane index of the tetrahedron (C03.R6)',
        'R6': 'decomposition with stored faces (structure): a fan per face — state (face f, corner j) yields the tetrahedron with base (w[0], w[j], w[j+1]), w = face_vertices(f), '
              'all three looked up in the cell\'s vertex list, labelled with faces[f].clipping_plane (the plane all of the face\'s vertices lie in, C15.R7); j runs 1 .. count(f)-2 '
              '(count-2 triangles per face, none skipped or repeated), then the next face starts at j = 1; None exactly when no face is left; the walk starts at (0, 1)',
        'R7': 'the base triangles handed to a face integral cover the whole surface of the cell (C03.R2): compute_face_integrals reports every plane with a normal inside the active '
              'subspace; the symmetric variant leaves out exactly the planes whose other side is a constructed lower-index cell without shift — decided as decision tables over '
              '(valid normal, right present, shift absent, right > idx, mask present, mask[right]); a plane dropped for any other reason leaves the surface open (flux integrals wrong)',
        'R5': 'decomposition without stored faces (structure): every vertex of the cell is visited once, in storage order, and yields exactly six tetrahedra t = 0..5 with base '
              '(proj[t], proj[t-1 mod 6], vertex) and label dual[t div 2], where proj[2i] is the projection of the generator onto plane dual[i] and proj[2i+1] its projection onto the '
              'intersection line of planes dual[i+1] and dual[i]; hence all three base points of a tetrahedron lie in the plane it is labelled with (given C19.R2/R3 and C01.R5)',
        'R4': 'cells with and without stored faces go through the same integral drivers; only the decomposition iterator differs and it is selected by the cell\'s type state (C15.R3)',
    },
    'explanation': 'Decides who can implement and call what (by type-checking downstream witnesses against the current tree), that extra data and cells stay aligned by slot under masks, '
                   'and the provenance of what an integral is fed. Not decided: that the signed tetrahedra form an exact decomposition (numeric/topological, runtime-value dependent) '
                   'and that face triangles lie in the face plane.',
    'trusted_base': ['rustc type checking of the witness crate', 'std/rayon zip pairs elements of equal position', 'E0 extractor'],
    'assumptions': ['extra_data.len() == generators.len()'],
}


def run(ctx):
    for cfg in ctx.configs_used:
        F = ctx.facts(cfg)
        sfx = '' if cfg == 'default' else '@' + cfg
        fns = (r1, r2, r3, r4, r5, r6, r7) if cfg == 'default' else (r2,)
        for fn in fns:
            rule = 'C14.' + fn.__name__.upper()
            ctx.guarded(rule, 'evaluate' + sfx, lambda: fn(ctx, F, rule, sfx))


def private_bounds_lint(repo):
    """rustc's own `private_bounds` / `private_interfaces` lints (forced on) for the library target -> [(code, message, file, line)]."""
    import subprocess, json as _json, glob, shutil, os
    from ..framework import WORK
    tdir = os.path.join(WORK, 'target-lint')
    for d in glob.glob(os.path.join(tdir, 'debug', '.fingerprint', 'meshless_voronoi-*')):
        shutil.rmtree(d, ignore_errors=True)
    env = dict(os.environ, CARGO_TARGET_DIR=tdir, CARGO_NET_OFFLINE='true', CARGO_INCREMENTAL='0')
    p = subprocess.run(['cargo', '+nightly', 'rustc', '--offline', '--lib', '--message-format=json', '--', '--force-warn', 'private_bounds', '--force-warn', 'private_interfaces'],
                       cwd=repo, env=env, capture_output=True, text=True)
    hits, finished = [], False
    for line in p.stdout.splitlines():
        try:
            m = _json.loads(line)
        except ValueError:
            continue
        if m.get('reason') == 'build-finished':
            finished = bool(m.get('success'))
        if m.get('reason') == 'compiler-message':
            msg = m['message']
            code = (msg.get('code') or {}).get('code')
            if code in ('private_bounds', 'private_interfaces'):
                sp = (msg.get('spans') or [{}])[0]
                hits.append((code, msg.get('message', ''), sp.get('file_name'), sp.get('line_start')))
    if not finished:
        raise AnalysisIncomplete('cargo rustc (lint run) did not finish: %s' % p.stderr[-300:])
    return hits


def r1_lint(ctx, rule):
    """(thorough tier) no public trait method / impl item of the integral API has a bound or type less visible than itself."""
    import tempfile, shutil, subprocess, os
    from ..framework import REPO
    hits = [h for h in private_bounds_lint(REPO) if 'integrals' in (h[2] or '') or 'Integral' in h[1] or 'ConvexCell' in h[1]]
    ctx.evaluations += 1
    if hits:
        seen = set()
        for code, msg, f, ln in hits:
            k = msg.split(' is more private than ')[0]
            if k in seen:
                continue
            seen.add(k)
            ctx.bad(rule, 'lint:%s:%s' % (code, k[:80]), '%s (%s:%s; %d such items)' % (msg, f, ln, len(hits)), 'every bound of the integral traits can be named by a downstream crate', '%s:%s' % (f, ln), key_extra='lint')
    else:
        ctx.ok(rule, 'lint:private_bounds', 'rustc private_bounds / private_interfaces: 0 hits on the integral API', 'every bound of the integral traits can be named by a downstream crate')
    V_ = os.path.dirname(os.path.dirname(os.path.dirname(os.path.abspath(__file__))))
    tmp = tempfile.mkdtemp(prefix='mv-lint-')
    try:
        dst = os.path.join(tmp, 'repo')
        shutil.copytree(REPO, dst, ignore=shutil.ignore_patterns('target', '.git', '_out'))
        pp = subprocess.run(['patch', '-p1', '-s', '-i', os.path.join(V_, 'lintcfg', 'positive_private_bounds.diff')], cwd=dst, capture_output=True, text=True)
        if pp.returncode != 0:
            ctx.notes.append('C14.R1 lint positive control does not apply to the current tree (skipped)')
            return
        h2 = private_bounds_lint(dst)
        ctx.evaluations += 1
        ctx.check(rule, 'lint:positive-control', len(h2) >= 1, '%d hit(s) with the marker trait made pub(crate) again' % len(h2), 'the lint reports the unnameable bound', None, key_extra='lint-control')
    finally:
        shutil.rmtree(tmp, ignore_errors=True)


def r1(ctx, F, rule, sfx):
    import os
    if ctx.tier == 'thorough' and not os.environ.get('VERIF_SELFTEST_CHILD'):
        ctx.guarded(rule, 'lint', lambda: r1_lint(ctx, rule))
    witness.expect_pass(ctx, rule, 'pass_c14_custom_integrals', 'downstream CellIntegral/FaceIntegral implementations type-check and can be evaluated through every entry point')
    witness.expect_pass(ctx, rule, 'pass_c14_integrals_with_data', 'downstream integrals with Data = f64 implement CellIntegralWithData / FaceIntegralWithData')
    # the bound named in the trait signatures is exported
    a = None
    for t in F.traits:
        if t['path'].endswith('ConvexCellMarker'):
            a = t
    if a is None:
        raise AnalysisIncomplete('marker trait not found in the fact file')
    ctx.check(rule, 'marker-trait-exported' + sfx, bool(a.get('exported')), 'ConvexCellMarker exported=%s vis=%s' % (a.get('exported'), a.get('vis')), 'nameable by downstream crates (it bounds every integral trait method)', '%s:%s' % (a.get('file'), a.get('line')), key_extra='marker')


WITH_DATA = ('compute_cell_integrals_with_data', 'compute_face_integrals_with_data', 'compute_face_integrals_sym_with_data')


def r2(ctx, F, rule, sfx):
    for name in WITH_DATA:
        b, ip, v, names, src, ch = c13.integrator_chain(ctx, F, name)
        w = where(b)
        # zip must come before (i.e. be nested inside) every filtering adaptor
        filt = [i for i, n in enumerate(names) if n in ('filter_map', 'filter', 'flatten', 'flat_map', 'skip', 'take', 'step_by', 'skip_while', 'take_while')]
        zi = [i for i, n in enumerate(names) if n == 'zip']
        ok = len(zi) == 1 and repr(src) == 'vi.cells' and all(n in ('iter', 'into_iter') for n in names[zi[0] + 1:]) if zi else False
        partner = None
        if zi:
            partner = stream_shape(ch[zi[0]][1][0])
        ctx.check(rule, '%s:data-zipped-with-unfiltered-cells%s' % (name, sfx), ok and partner == ('elem', 'extra'), '%s over %r; data partner %s' % (' <- '.join(names), src, partner),
                  'zip(self.cells, extra_data) innermost, both unfiltered', w, key_extra='zip:' + name)
        runs = [r for r in ip.closure_runs if r['adaptor'] == 'filter_map']
        if len(runs) != 1:
            ctx.incomplete(rule, '%s:per-slot-closure%s' % (name, sfx), '%d filter_map closures' % len(runs), w)
            continue
        r = runs[0]
        sh = stream_shape(r['stream'])
        callee = 'compute_cell_integral' if 'cell' in name else ('compute_face_integrals_sym' if 'sym' in name else 'compute_face_integrals')
        evs = [e for e in r['events'] if e.callee and strip_generics(e.callee).endswith('ConvexCell::' + callee)]
        ok = False
        detail = 'no call'
        if len(evs) == 1 and sh == ('pair', ('elem', 'vi.cells'), ('elem', 'extra')):
            e = evs[0]
            rc = resolve_item(e.fargs[0], r['item'], sh, prefix=())
            rd = resolve_item(e.fargs[1], r['item'], sh, prefix=())
            ok = rc is not None and rc[0] == ('elem', 'vi.cells') and rc[1] == ['Some', '0'] and rd is not None and rd[0] == ('elem', 'extra') and not rd[1]
            detail = '%s(%s, %s)' % (callee, rc, rd)
            if 'sym' in name:
                ok = ok and 'vi.cell_is_active' in repr(e.fargs[2])
        ctx.check(rule, '%s:data-of-slot-to-cell-of-slot%s' % (name, sfx), ok, detail[:200], 'cell payload and data element of the same zipped item', w, key_extra='slot:' + name)
    # producers of VoronoiIntegrator keep `cells` slot-aligned
    prods = []
    for b in F.bodies:
        if b['kind'] == 'Closure' or b['path'].endswith('::clone'):
            continue
        for bl in b['blocks']:
            for s in bl['stmts']:
                if s['k'] == 'assign' and s['rv']['k'] == 'aggregate' and s['rv'].get('agg') == 'adt' and str(s['rv'].get('adt', '')).endswith('voronoi::VoronoiIntegrator'):
                    if b not in prods:
                        prods.append(b)
    ctx.floor(rule, 'producers of VoronoiIntegrator' + sfx, len(prods), 2)
    for b in prods:
        no = [x['path'] for x in F.bodies if strip_generics(x['path']).endswith(('ConvexCell::with_faces', 'ConvexCell::build', 'SimulationBoundary::cuboid', 'rtree_nn::build_rtree', 'rtree_nn::nn_iter', 'rtree_nn::wrapping_nn_iter'))]
        ip = I.Interp(F, no_inline=no)
        args = []
        for i in range(1, b['arg_count'] + 1):
            ty = b['locals'][i]['ty']
            if ty == 'glam::DVec3':
                args.append(I.sym_vec3('v%d' % i))
            else:
                args.append(I.mk_sym(nf.sym_atom({'&[glam::DVec3]': 'generators'}.get(ty, 'vi' if 'VoronoiIntegrator' in ty else 'arg%d' % i)), ty))
        v, _ = ip.call_body(b, args)
        ctx.evaluations += ip.evaluations
        cells = I.get_field(v, 'cells')
        ch, src = stream_chain(I.frozen(cells))
        names = [n.replace('par_iter', 'iter') for n, _ in ch]
        bad = [n for n in names if n not in ('collect', 'map', 'enumerate', 'zip', 'iter', 'into_iter', 'iter_mut', 'into_iter_mut', 'collect_into_vec')]
        ok_src = repr(src) in ('vi.cells', 'generators') or 'generators' in repr(src)
        ctx.check(rule, '%s:cells-stay-slot-aligned%s' % (strip_generics(b['path']).split('::')[-1], sfx), not bad and ok_src, '%s over %s' % (' <- '.join(names), repr(src)[:60]),
                  'element-wise adaptors only (no filter/flatten): slot i of `cells` belongs to generator i', where(b), key_extra='align:%s' % ','.join(bad))
        act = repr(I.frozen(I.get_field(v, 'cell_is_active')))
        if 'vi.' in act:
            ctx.check(rule, '%s:activity-vector-carried-over%s' % (strip_generics(b['path']).split('::')[-1], sfx), act == 'vi.cell_is_active', act[:80], 'self.cell_is_active', where(b), key_extra='act')
    g = F.body_by_suffix('VoronoiIntegrator::get_cell_at')
    ip = I.Interp(F)
    v, _ = ip.call_body(g, [ip.ref_to(I.Sym(nf.sym_atom('vi'), 'voronoi::VoronoiIntegrator<M>')), RF.sym('i')])
    ctx.evaluations += ip.evaluations
    ctx.check(rule, 'get_cell_at-reads-slot' + sfx, repr(I.frozen(v)) == 'vi.cells[i]', repr(I.frozen(v))[:80], 'self.cells[index].as_ref()', where(g), key_extra='get')


def r3(ctx, F, rule, sfx):
    wrappers_forward(ctx, F, rule, sfx)
    cci = F.body_by_suffix('ConvexCell::compute_cell_integral')
    no = [x['path'] for x in F.bodies if strip_generics(x['path']).endswith('ConvexCell::decompose')]
    no += [x['path'] for x in F.bodies if 'ConvexCellDecomposition' in x['path'] and x['path'].endswith('::next')]
    ip = I.Interp(F, no_inline=no)
    cell = I.Sym(nf.sym_atom('cell'), 'voronoi::convex_cell::ConvexCell<M>')
    v, _ = ip.call_body(cci, [ip.ref_to(cell), I.Sym(nf.sym_atom('data'), 'D')])
    ctx.evaluations += ip.evaluations
    w = where(cci)
    init = [e for e in ip.events if e.callee and e.callee.endswith('init_with_data')]
    col = [e for e in ip.events if e.callee and e.callee.endswith('CellIntegral::collect')]
    fin = [e for e in ip.events if e.callee and e.callee.endswith('CellIntegral::finalize')]
    dec = [e for e in ip.events if e.callee and strip_generics(e.callee).endswith('ConvexCell::decompose')]
    nx = [e for e in ip.events if e.callee and 'ConvexCellDecomposition' in e.callee and e.callee.endswith('::next')]
    ok = len(init) == 1 and [repr(x) for x in init[0].fargs] == ['cell', 'data']
    ctx.check(rule, 'initialised-with-this-cell-and-its-data' + sfx, ok, [repr(x) for x in init[0].fargs] if init else 'no init', 'I::init_with_data(self, extra_data)', w, key_extra='init')
    ok = len(dec) == 1 and repr(dec[0].fargs[0]) == 'cell' and len(nx) == 1
    ctx.check(rule, 'decomposition-of-this-cell' + sfx, ok, 'decompose(%s)' % (repr(dec[0].fargs[0]) if dec else '?'), 'self.decompose() driven to exhaustion', w, key_extra='decompose')
    if len(nx) == 1 and len(col) == 1:
        tet = repr(I.get_field(I.downcast(nx[0].result, 'Some'), 0))
        a = [repr(x) for x in col[0].fargs]
        ok = a[1:4] == ['%s.vertices[%d]' % (tet, i) for i in range(3)] and a[4] == 'cell.loc'
        ctx.check(rule, 'fed-with-tetrahedron-and-generator' + sfx, ok, ', '.join(x[-22:] for x in a[1:5]), 'collect(tet.vertices[0], [1], [2], self.loc)', w, key_extra='collect')
        extra = [g for g in col[0].guard if not (dtab.is_discr_eq(g) and '::next(' in repr(g))]
        ctx.check(rule, 'every-tetrahedron-collected' + sfx, not extra, [repr(g)[:60] for g in extra], 'no tetrahedron skipped', w, key_extra='skip')
    else:
        ctx.incomplete(rule, 'fed-with-tetrahedron-and-generator' + sfx, 'collect calls %d, stream reads %d' % (len(col), len(nx)), w)
    early = early_exits(ip)
    ctx.check(rule, 'loop-runs-to-the-end-of-the-stream' + sfx, not early, ('the tetrahedron loop is left with a tetrahedron in hand when %s' % early[0]) if early else 'the loop over the tetrahedra ends only when the stream does',
              'every tetrahedron of the decomposition is handed to the integral', w, key_extra='early-exit')
    ok = len(fin) == 1 and I.vkey(I.frozen(v)) == I.vkey(I.frozen(fin[0].result))
    ctx.check(rule, 'result-is-finalised-integral' + sfx, ok, repr(v)[:80], 'integrator.finalize()', w, key_extra='finalize')
    c03.r6(ctx, F, rule, sfx)


def r4(ctx, F, rule, sfx):
    from . import c15
    c15.r3(ctx, F, rule, sfx)


def r5(ctx, F, rule, sfx):
    import re
    lv = [b for b in F.bodies if 'DecompositionWithoutFaces' in b['path'] and b['kind'] != 'Closure']
    load = [b for b in lv if b['path'].endswith('::load_vertex')]
    nxt = [b for b in lv if b['path'].endswith('::next')]
    new = [b for b in lv if b['path'].endswith('::new')]
    if len(load) != 1 or len(nxt) != 1 or len(new) != 1:
        raise AnalysisIncomplete('face-less decomposition bodies: load %d, next %d, new %d' % (len(load), len(nxt), len(new)))
    load, nxt, new = load[0], nxt[0], new[0]
    no = ['geometry::Plane::project_onto', 'geometry::Plane::project_onto_intersection']
    adt = F.adt_by_path.get('voronoi::convex_cell::DecompositionWithoutFaces')
    layout = sorted((f['name'], f['ty'].replace(' ', '')) for f in adt['variants'][0]['fields']) if adt else None
    if layout != [('cur_tet_idx', 'usize'), ('cur_vertex', 'voronoi::convex_cell::Vertex'), ('cur_vertex_idx', 'usize'), ('projections', '[glam::DVec3;6]')]:
        # another private layout of the iterator state: follow the iterator from its constructor instead of seeding a symbolic state
        return r5_sequential(ctx, F, rule, sfx, new, nxt, no)
    cell = I.Sym(nf.sym_atom('cell'), 'voronoi::convex_cell::ConvexCell<M>')
    DW = 'voronoi::convex_cell::DecompositionWithoutFaces'

    def state(t, vert, projs):
        return I.St(DW, 'DecompositionWithoutFaces', {'cur_vertex_idx': RF.sym('vi'), 'cur_tet_idx': t, 'cur_vertex': vert, 'projections': projs})
    # load_vertex: which projections are stored where
    ip = I.Interp(F, no_inline=no)
    ip.unroll_limit = 8
    r = ip.ref_to(state(RF.const(0), I.Sym(nf.sym_atom('oldv'), 'voronoi::convex_cell::Vertex'), I.arr([I.sym_vec3('p%d' % i) for i in range(6)])), mut=True)
    ip.call_body(load, [r, ip.ref_to(cell)])
    ctx.evaluations += ip.evaluations
    after = I.read_lv(r.lv)
    w = where(load)
    ctx.check(rule, 'loads-vertex-of-current-index' + sfx, repr(I.frozen(I.get_field(after, 'cur_vertex'))) == 'cell.vertices[vi]', repr(I.get_field(after, 'cur_vertex'))[:60], 'convex_cell.vertices[cur_vertex_idx]', w, key_extra='vertex')
    pr = I.get_field(after, 'projections')
    onplanes = {}
    pl = lambda k: 'cell.clipping_planes[cell.vertices[vi].dual[%d]].plane' % k
    for i in range(6):
        t = repr(I.frozen(I.get_index(pr, RF.const(i))))
        m1 = re.match(r'call:geometry::Plane::project_onto\((.*), cell\.loc\)$', t)
        m2 = re.match(r'call:geometry::Plane::project_onto_intersection\((.*\.plane), (.*\.plane), cell\.loc\)$', t)
        k = i // 2
        if i % 2 == 0:
            ok = bool(m1) and m1.group(1) == pl(k)
            onplanes[i] = {k} if ok else set()
            want = 'planes[dual[%d]].project_onto(generator)' % k
        else:
            ok = bool(m2) and m2.group(1) == pl((k + 1) % 3) and m2.group(2) == pl(k)
            onplanes[i] = {k, (k + 1) % 3} if ok else set()
            want = 'planes[dual[%d]].project_onto_intersection(planes[dual[%d]], generator)' % ((k + 1) % 3, k)
        ctx.check(rule, 'projection-%d%s' % (i, sfx), ok, t[-130:], want, w, key_extra='proj:%d' % i)
    # next: six tetrahedra per vertex
    for t in range(6):
        ip = I.Interp(F, no_inline=no + [load['path']])
        V_ = I.Sym(nf.sym_atom('V'), 'voronoi::convex_cell::Vertex')
        r2 = ip.ref_to(state(RF.const(t), V_, I.arr([I.sym_vec3('p%d' % i) for i in range(6)])), mut=True)
        v, _ = ip.call_body(nxt, [r2, ip.ref_to(cell)])
        ctx.evaluations += ip.evaluations
        some = None
        cond = None
        for conds, leaf in cases(v):
            if isinstance(leaf, I.St) and leaf.variant == 'Some':
                some, cond = leaf.fields[0], conds
        wn = where(nxt)
        if some is None:
            ctx.bad(rule, 'tetrahedron-%d%s' % (t, sfx), repr(v)[:120], 'a tetrahedron while vertices remain', wn, key_extra='tet:%d' % t)
            continue
        label = repr(I.frozen(I.get_field(some, 'plane_idx')))
        vs = [repr(I.frozen(I.get_index(I.get_field(some, 'vertices'), RF.const(i)))).replace(' ', '') for i in range(3)]
        pn = lambda i: 'DVec3{x:p%d.x,y:p%d.y,z:p%d.z}' % (i, i, i)
        ok = label == 'V.dual[%d]' % (t // 2) and vs == [pn(t), pn((t + 5) % 6), 'V.loc']
        ctx.check(rule, 'tetrahedron-%d%s' % (t, sfx), ok, 'label %s, base %s' % (label, [x[-12:] for x in vs]), 'label dual[%d], base (proj[%d], proj[%d], vertex)' % (t // 2, t, (t + 5) % 6), wn, key_extra='tet:%d' % t)
        # plane membership of the base points (by provenance of the projections)
        mem = (t // 2) in onplanes.get(t, set()) and (t // 2) in onplanes.get((t + 5) % 6, set())
        ctx.check(rule, 'base-in-labelled-plane-%d%s' % (t, sfx), mem, 'proj[%d] on planes %s, proj[%d] on planes %s' % (t, sorted(onplanes.get(t, ())), (t + 5) % 6, sorted(onplanes.get((t + 5) % 6, ()))),
                  'both projections lie on plane dual[%d] (the vertex lies on all three)' % (t // 2), wn, key_extra='member:%d' % t)
        okc = cond is not None and [repr(c) for c in cond] == ['(vi < len(cell.vertices))']
        ctx.check(rule, 'continues-while-vertices-remain-%d%s' % (t, sfx), okc, [repr(c) for c in (cond or [])], 'Some iff cur_vertex_idx < vertices.len()', wn, key_extra='cond:%d' % t)
        st = I.read_lv(r2.lv)
        nt = dtab.evaluate(as_rf(I.get_field(st, 'cur_tet_idx')), lambda leaf: True)
        nv = dtab.evaluate(as_rf(I.get_field(st, 'cur_vertex_idx')), lambda leaf: True)
        want_t, want_v = ((t + 1, RF.sym('vi')) if t < 5 else (0, RF.sym('vi') + 1))
        ctx.check(rule, 'advance-%d%s' % (t, sfx), as_rf(nt) == RF.const(want_t) and as_rf(nv) == want_v, 'next state: tet %r, vertex %r' % (nt, nv), 'tet %d, vertex %r' % (want_t, want_v), wn, key_extra='advance:%d' % t)
        if t == 5:
            reloaded = 'load_vertex' in repr(I.get_field(st, 'cur_vertex')) or 'load_vertex' in repr(I.get_field(st, 'projections'))
            ctx.check(rule, 'reloads-next-vertex' + sfx, reloaded, repr(I.get_field(st, 'cur_vertex'))[:100], 'load_vertex for the next vertex when one remains', wn, key_extra='reload')
    # new: starts at vertex 0, tetrahedron 0, loaded
    ip = I.Interp(F, no_inline=no + [load['path']])
    v, _ = ip.call_body(new, [ip.ref_to(cell)])
    ctx.evaluations += ip.evaluations
    lc = [e for e in ip.events if e.callee == load['path']]
    ok = len(lc) == 1 and as_rf(I.get_field(lc[0].fargs[0], 'cur_vertex_idx')).is_zero() and as_rf(I.get_field(lc[0].fargs[0], 'cur_tet_idx')).is_zero()
    ctx.check(rule, 'starts-at-first-vertex' + sfx, ok, '%d load(s)' % len(lc), 'cur_vertex_idx = 0, cur_tet_idx = 0, vertex loaded', where(new), key_extra='start')


def r6(ctx, F, rule, sfx):
    lv = [b for b in F.bodies if 'DecompositionWithFaces' in b['path'] and b['kind'] != 'Closure']
    nxt = [b for b in lv if b['path'].endswith('::next')]
    new = [b for b in lv if b['path'].endswith('::new')]
    if len(nxt) != 1 or len(new) != 1:
        raise AnalysisIncomplete('with-faces decomposition bodies: next %d, new %d' % (len(nxt), len(new)))
    nxt, new = nxt[0], new[0]
    no = [b['path'] for b in F.bodies if b['path'].endswith(('::face_vertices', '::faces', '::face_count', '::face_vertex_count')) and 'ConvexCell' in b['path']]
    ip = I.Interp(F, no_inline=no)
    cell = I.Sym(nf.sym_atom('cell'), 'voronoi::convex_cell::ConvexCell<voronoi::convex_cell::WithFaces>')
    adt = F.adt_by_path.get('voronoi::convex_cell::DecompositionWithFaces')
    if not adt:
        raise AnalysisIncomplete('DecompositionWithFaces not found')
    fs = adt['variants'][0]['fields']
    us = [f['name'] for f in fs if f['ty'] == 'usize']
    refs = [f['name'] for f in fs if 'ConvexCell' in f['ty']]
    if len(us) != 2 or len(refs) != 1:
        raise AnalysisIncomplete('unexpected layout of DecompositionWithFaces: %s' % [f['name'] for f in fs])
    # roles of the two counters from the constructor: the one starting at 0 is the face, the one starting at 1 the corner
    ipn = I.Interp(F, no_inline=no)
    v0, _ = ipn.call_body(new, [ipn.ref_to(cell)])
    init = {n: as_rf(I.get_field(v0, n)) for n in us}
    fname = [n for n in us if init[n].is_zero()]
    jname = [n for n in us if init[n].is_const() and init[n].const_value() == 1]
    ok0 = len(fname) == 1 and len(jname) == 1 and repr(I.frozen(I.get_field(v0, refs[0]))) in ('cell', '&cell')
    ctx.check(rule, 'starts-at-first-face-second-corner' + sfx, ok0, {n: repr(init[n]) for n in us}, 'face 0, corner 1, of the cell handed in', where(new), key_extra='start')
    if not ok0:
        return
    fname, jname = fname[0], jname[0]
    st = I.St('voronoi::convex_cell::DecompositionWithFaces', 'DecompositionWithFaces', {fname: RF.sym('f'), jname: RF.sym('j'), refs[0]: ip.ref_to(cell)})
    r = ip.ref_to(st, mut=True)
    v, _ = ip.call_body(nxt, [r])
    ctx.evaluations += ip.evaluations + ipn.evaluations
    wn = where(nxt)
    some, cond, none_cond = None, None, None
    for conds, leaf in cases(v):
        if isinstance(leaf, I.St) and leaf.variant == 'Some':
            some, cond = leaf.fields[0], conds
        elif isinstance(leaf, I.St) and leaf.variant == 'None':
            none_cond = conds
    FC = 'call:voronoi::convex_cell::ConvexCell::face_count(cell)'
    okc = cond is not None and [repr(c) for c in cond] in (['(f < %s)' % FC], ['(f != %s)' % FC])
    ctx.check(rule, 'continues-while-faces-remain' + sfx, okc and some is not None, [repr(c)[-90:] for c in (cond or [])], 'Some iff cur_face_idx < face_count()', wn, key_extra='cond')
    if some is None:
        return
    label = repr(I.frozen(I.get_field(some, 'plane_idx')))
    vs = [repr(I.frozen(I.get_index(I.get_field(some, 'vertices'), RF.const(i)))).replace(' ', '') for i in range(3)]
    FV = 'call:voronoi::convex_cell::ConvexCell::face_vertices(cell,f)'
    want = ['cell.vertices[%s[%s]].loc' % (FV, k) for k in ('0', 'j', '1+j')]
    ok = vs == want and label == 'call:voronoi::convex_cell::ConvexCell::faces(cell)[f].clipping_plane'
    ctx.check(rule, 'fan-triangle' + sfx, ok, 'label %s, base %s' % (label[-40:], [x[-28:] for x in vs]), 'label faces[f].clipping_plane, base (V[w[0]], V[w[j]], V[w[j+1]]) with w = face_vertices(f)', wn, key_extra='fan')
    # state update: a single decision "more corners left in this face"
    fin = I.read_lv(r.lv)
    nf_, nj_ = as_rf(I.get_field(fin, fname)), as_rf(I.get_field(fin, jname))
    leaves = {}
    dtab.b_leaves(nf_, leaves)
    dtab.b_leaves(nj_, leaves)
    CNT = 'call:voronoi::convex_cell::ConvexCell::faces(cell)[f].vertex_count'
    CNT2 = 'call:voronoi::convex_cell::ConvexCell::face_vertex_count(cell, f)'
    more = None      # (leaf, polarity): leaf true <=> another corner remains (j + 1 <= count - 2)
    thr = None
    live = None
    f_, j_ = RF.sym('f'), RF.sym('j')
    for l in leaves.values():
        if l.op != 'cmp':
            continue
        t = repr(l)
        if 'face_count' in t:
            live = l
            continue
        op, a, b = l.args
        a, b = as_rf(a), as_rf(b)
        d = a - b            # the comparison is  d op 0
        cnts = [x for x in I.atoms_deep(d).values() if repr(x) in (CNT, CNT2)]
        if len(cnts) != 1:
            continue
        c_ = RF.atom(cnts[0])
        # d = +-(j - count) + const;  normalise to  (j - count) <= T  (leaf true <=> more) or its complement
        for sign in (1, -1):
            k = d - sign * (j_ - c_)
            if not k.is_const():
                continue
            kv = k.const_value()
            o = op if sign == 1 else {'<': '>', '<=': '>=', '>': '<', '>=': '<=', '==': '==', '!=': '!='}[op]
            kk = kv if sign == 1 else -kv         # (j - count + kk) o 0
            if o == '<=':
                more, thr = (l, True), -kk
            elif o == '<':
                more, thr = (l, True), -kk - 1
            elif o == '>':
                more, thr = (l, False), -kk
            elif o == '>=':
                more, thr = (l, False), -kk - 1
    if more is None:
        ctx.bad(rule, 'advance' + sfx, 'no decision "corner j+1 <= count-2" found: next face %s, next corner %s' % (repr(nf_)[:120], repr(nj_)[:120]), 'j+1 while j+1 <= count(f)-2, else next face at corner 1', wn, key_extra='advance-shape')
        return
    rows = []
    okadv = True
    for m in (True, False):
        def val(leaf):
            if leaf.key() == more[0].key():
                return m == more[1]
            if leaf.op == 'cmp' and 'face_count' in repr(leaf):
                # a face is left (the Some arm): f < face_count holds
                op, a, b = leaf.args
                f_left = repr(a) == 'f'
                return {'<': f_left, '<=': f_left, '>': not f_left, '>=': not f_left, '!=': True, '==': False}[op]
            return True
        gf = as_rf(dtab.evaluate(nf_, val))
        gj = as_rf(dtab.evaluate(nj_, val))
        wf, wj = (f_, j_ + 1) if m else (f_ + 1, RF.const(1))
        rows.append('%s: face %r, corner %r' % ('more corners' if m else 'face done', gf, gj))
        okadv = okadv and gf == wf and gj == wj
    ctx.check(rule, 'advance' + sfx, okadv, '; '.join(rows), 'more corners: (f, j+1); face done: (f+1, 1)', wn, key_extra='advance')
    ctx.check(rule, 'fan-covers-every-corner' + sfx, thr == -3, 'stays on the face while j <= count %+d' % thr, 'while j + 1 <= count - 2 (last triangle (w[0], w[count-2], w[count-1]))', wn, key_extra='fan-range:%s' % thr)
    # nothing changes once the faces are exhausted
    def val_done(leaf):
        if live is not None and leaf.key() == live.key():
            op, a, b = leaf.args
            return op in ('>=', '<=') and not (op == '<')
        return True


def r5_sequential(ctx, F, rule, sfx, new, nxt, no):
    """Layout-independent form of R5: run new(cell) and then next() repeatedly on the state it returns (abstractly, the cell
    symbolic) and read the tetrahedra off: the first six belong to vertices[0], the seventh to vertices[1]."""
    import re
    cell = I.Sym(nf.sym_atom('cell'), 'voronoi::convex_cell::ConvexCell<M>')
    ip = I.Interp(F, no_inline=no)
    ip.unroll_limit = 8
    st0, _ = ip.call_body(new, [ip.ref_to(cell)])
    r = ip.ref_to(st0, mut=True)
    wn = where(nxt)
    PL = lambda v, k: 'cell.clipping_planes[cell.vertices[%d].dual[%d]].plane' % (v, k)

    def want_point(v, i):
        k = i // 2
        if i % 2 == 0:
            return 'call:geometry::Plane::project_onto(%s, cell.loc)' % PL(v, k)
        return 'call:geometry::Plane::project_onto_intersection(%s, %s, cell.loc)' % (PL(v, (k + 1) % 3), PL(v, k))
    for n in range(7):
        v, _ = ip.call_body(nxt, [r, ip.ref_to(cell)])
        ctx.evaluations += 1
        vi, t = (0, n) if n < 6 else (1, 0)
        some = None
        for conds, leaf in cases(v):
            if isinstance(leaf, I.St) and leaf.variant == 'Some':
                some, cond = leaf.fields[0], conds
        if some is None:
            ctx.bad(rule, 'tetrahedron-%d%s' % (n, sfx), repr(v)[:120], 'a tetrahedron while vertices remain', wn, key_extra='tet:%d' % n)
            return
        label = repr(I.frozen(I.get_field(some, 'plane_idx')))
        vs = [repr(I.frozen(I.get_index(I.get_field(some, 'vertices'), RF.const(i)))) for i in range(3)]
        vs = [re.sub(r'^DVec3\{x: (.*)\.x, y: \1\.y, z: \1\.z\}$', r'\1', x) for x in vs]
        want = [want_point(vi, t), want_point(vi, (t + 5) % 6), 'cell.vertices[%d].loc' % vi]
        ok = label == 'cell.vertices[%d].dual[%d]' % (vi, t // 2) and vs == want
        ctx.check(rule, 'tetrahedron-%d%s' % (n, sfx), ok, 'label %s, base %s' % (label[-30:], [x[-60:] for x in vs]),
                  'vertex %d, label dual[%d], base (proj[%d], proj[%d], vertex) with proj[2i] the foot on plane dual[i], proj[2i+1] the foot on the line of planes dual[i+1], dual[i]' % (vi, t // 2, t, (t + 5) % 6), wn, key_extra='tet:%d' % n)
        okc = [repr(c) for c in cond] == ['(%d < len(cell.vertices))' % vi]
        ctx.check(rule, 'continues-while-vertices-remain-%d%s' % (n, sfx), okc, [repr(c) for c in cond], 'Some iff the vertex index is below vertices.len()', wn, key_extra='cond:%d' % n)

        # continue on the arm on which a tetrahedron was returned (vertices remain)
        def val(leaf):
            t_ = repr(leaf)
            if leaf.op == 'cmp' and 'len(cell.vertices)' in t_:
                op, a, b = leaf.args
                lhs_len = 'len(' in repr(a)
                return {'<': not lhs_len, '<=': not lhs_len, '>': lhs_len, '>=': lhs_len}.get(op, False)
            raise AnalysisIncomplete('iterator state depends on %s' % t_[:100])
        I.write_lv(r.lv, dtab.evaluate(I.read_lv(r.lv), val))


def r7(ctx, F, rule, sfx):
    from . import c03
    c03.r2(ctx, F, rule, sfx)
