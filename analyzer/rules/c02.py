"""C02 — cells tile the domain: positive measures that sum to the box measure (structural clauses)."""
from fractions import Fraction
from .. import interp as I, nf, dtab
from ..nf import RF, as_rf
from ..tables import c3, dot3, det3
from ..facts import AnalysisIncomplete, strip_generics, calls, callee_name
from .util import *
from . import routes, c01

META = {
    'level': 'other',
    'configs': {'quick': ['default'], 'thorough': ['default', 'norayon', 'default_nodebug']},
    'rules': {
        'R7': 'periodic images are complete (C06.R1): every copy of the generator tree shifted by (i,j,k)*width, i,j,k in {-1,0,1} on active axes, is searched — a pruned or missing copy '
              'leaves cells near that side unclipped, and the measures sum to more than the box',
        'R6': 'no overlap or gap from the candidate loop (C01.R1, C01.R2): every candidate the stream delivers — own periodic images included — either clips the cell with the '
              'perpendicular bisector or ends the loop through the termination test; a dropped candidate leaves that cell too large and the measures sum to more than the box',
        'R1': 'unit thickness: for each dimensionality and at BOTH entry points the box reaching the boundary constructor, the wrapped search and the stored '
              'anchor/width has, on every inactive axis, width == 1 exactly and anchor < 0 < anchor + width, and on every active axis the caller\'s values; the two entry points agree',
        'R2': 'start cell == box: the boundary constructor yields six planes (+-e_c through A_c resp. A_c + W_c) with inward normals; the eight initial vertices take one plane per axis, '
              'cover the eight corners once each, and their plane triples all have the same orientation',
        'R3': 'periodic start box: on active axes the walls lie STRICTLY beyond A - W/2 and A + 3W/2 for every anchor A (the Wigner-Seitz bound of any periodic cell; strict because a generator on a periodic wall reaches the bound and a start wall there is never replaced by the face towards its own image); inactive axes are untouched',
        'R5': 'translation conditioning of the measure kernels: in signed_volume_tet, signed_area_tri, in_sphere_test, intersect_planes, the plane projections and the collect methods of '
              'the built-in integrals no multiplicative operation combines operands whose joint degree in a common translation of all input points exceeds 1 (absolute coordinates are '
              'never multiplied with one another; differences are formed first), so rounding errors scale with the cell size and not with the distance of the box from the origin',
        'R4': 'volume accumulation (C01.R6): volume = sum of signed tetrahedron volumes with the generator as apex',
    },
    'explanation': 'Decides, per (dimensionality x periodic) configuration by constant folding of the real code, that the start polytope is the simulation box with unit '
                   'thickness along unused axes at both entry points, correctly oriented, large enough for periodic cells; and that volumes are accumulated from the '
                   'documented signed tetrahedra. Not decided: positivity of each measure and the value of the sum (they follow from C01 as a whole: runtime geometry).',
    'trusted_base': ['glam table', 'E0 extractor'],
    'assumptions': ['real arithmetic', 'width > 0 per axis'],
}

AX = 'xyz'
NACT = {'OneD': 1, 'TwoD': 2, 'ThreeD': 3}


def run(ctx):
    for cfg in ctx.configs_used:
        F = ctx.facts(cfg)
        sfx = '' if cfg == 'default' else '@' + cfg
        for fn in (r1, r2, r3, r4, r5, r6, r7):
            rule = 'C02.' + fn.__name__.upper()
            ctx.guarded(rule, 'evaluate' + sfx, lambda: fn(ctx, F, rule, sfx))


def box_row(anchor, width, dim):
    """Per-axis classification of an (anchor, width) pair: 'caller' | 'unit' | 'other:<txt>'."""
    a, w = c3(anchor), c3(width)
    out = []
    for c in range(3):
        an, wn = 'A.' + AX[c], 'W.' + AX[c]
        if repr(a[c]) == an and repr(w[c]) == wn:
            out.append('caller')
        elif a[c].is_const() and w[c].is_const() and w[c].const_value() == 1 and a[c].const_value() < 0 < a[c].const_value() + 1:
            out.append('unit')
        else:
            out.append('other:(%r, %r)' % (a[c], w[c]))
    return out


def stored_box(r):
    v = r.ret
    if isinstance(v, I.Sym):     # call:finalize(Voronoi{..})
        e = r.one('Voronoi::finalize')
        v = e.fargs[0]
    return I.get_field(v, 'anchor'), I.get_field(v, 'width')


def r1(ctx, F, rule, sfx):
    tables = {}
    for which in ('direct', 'integrator'):
        for dim in routes.DIMS:
            want = ['caller' if c < NACT[dim] else 'unit' for c in range(3)]
            for per in (False, True):
                r = routes.run_route(F, which, dim, per)
                ctx.evaluations += r.ip.evaluations
                e = r.one('SimulationBoundary::cuboid')
                w = where(e.body, e.line)
                sites = {'boundary': (e.fargs[0], e.fargs[1]), 'stored': stored_box(r)}
                if per:
                    run = routes.cell_run(r)
                    ws = routes.one_in(run, 'rtree_nn::wrapping_nn_iter')
                    sites['search-width'] = (None, ws.fargs[2])
                for sname, (an, wd) in sites.items():
                    if an is None:
                        wv = c3(wd)
                        got = ['caller' if repr(wv[c]) == 'W.' + AX[c] else 'unit' if (wv[c].is_const() and wv[c].const_value() == 1) else 'other:%r' % wv[c] for c in range(3)]
                    else:
                        got = box_row(an, wd, dim)
                    tables[(which, dim, per, sname)] = got
                    ctx.check(rule, '%s:%s:%s:%s%s' % (which, dim, 'periodic' if per else 'reflective', sname, sfx), got == want, ' '.join(got), ' '.join(want), w,
                              key_extra='%s:%s:%s' % (which, dim, sname))
    # sibling agreement
    diff = [k for k in tables if k[0] == 'direct' and tables.get(('integrator',) + k[1:]) != tables[k]]
    ctx.check(rule, 'entry-points-agree' + sfx, not diff, 'differing entries: %s' % (diff or 'none'), 'identical normalisation tables', None, key_extra='siblings')


def boundary(F, dim, per):
    cub = F.body_by_suffix('SimulationBoundary::cuboid')
    ip = I.Interp(F)
    v, _ = ip.call_body(cub, [I.sym_vec3('A'), I.sym_vec3('W'), I.b_const(per), routes.dim_value(dim)])
    planes = I.get_field(v, 'clipping_planes')
    if not (isinstance(planes, I.St) and planes.adt == 'array'):
        raise AnalysisIncomplete('boundary planes are not a literal list: %r' % (planes,))
    out = []
    for k in sorted(planes.fields):
        hs = planes.fields[k]
        pl = I.get_field(hs, 'plane')
        out.append((c3(I.get_field(pl, 'n')), c3(I.get_field(pl, 'p')), hs))
    return cub, ip, v, out


def classify_wall(n, p):
    """-> (axis, side 'lo'|'hi', offset RF along the axis) for an axis-aligned wall, else None."""
    nz = [c for c in range(3) if not n[c].is_zero()]
    if len(nz) != 1 or not n[nz[0]].is_const() or abs(n[nz[0]].const_value()) != 1:
        return None
    c = nz[0]
    return c, ('lo' if n[c].const_value() > 0 else 'hi'), p[c]


def positive_multiple_of_width(e, c, allow_zero=False):
    """e == k * W.c with k > 0 (or >= 0)."""
    W = RF.sym('W.' + AX[c])
    q = e / W
    if not q.is_const():
        return None
    k = q.const_value()
    return k if (k > 0 or (allow_zero and k == 0)) else None


def r2(ctx, F, rule, sfx):
    cub, ip, v, planes = boundary(F, 'ThreeD', False)
    ctx.evaluations += ip.evaluations
    w = where(cub)
    ctx.check(rule, 'six-walls' + sfx, len(planes) == 6, '%d planes' % len(planes), '6', w, key_extra='count')
    walls = {}
    A = [RF.sym('A.' + c) for c in AX]
    Wd = [RF.sym('W.' + c) for c in AX]
    for k, (n, p, hs) in enumerate(planes):
        cw = classify_wall(n, p)
        if cw is None:
            ctx.bad(rule, 'wall-%d%s' % (k, sfx), 'n = %r' % (n,), 'an axis-aligned unit normal', w, key_extra='normal')
            continue
        c, side, off = cw
        want = A[c] if side == 'lo' else A[c] + Wd[c]
        walls[(c, side)] = k
        ctx.check(rule, 'wall-%s-%s:position%s' % (AX[c], side, sfx), off == want, 'passes through %s = %r' % (AX[c], off), repr(want), w, key_extra='pos')
        # inward: n . (centre - p) == +W_c/2
        centre = [A[i] + Wd[i] / 2 for i in range(3)]
        s = dot3(n, vsub(centre, p))
        ctx.check(rule, 'wall-%s-%s:inward%s' % (AX[c], side, sfx), positive_multiple_of_width(s, c) is not None, 'n.(centre - p) = %r' % s, 'a positive multiple of the width', w, key_extra='inward')
        ri, sh = I.get_field(hs, 'right_idx'), I.get_field(hs, 'shift')
        ctx.check(rule, 'wall-%s-%s:no-neighbour%s' % (AX[c], side, sfx), isinstance(ri, I.St) and ri.variant == 'None' and isinstance(sh, I.St) and sh.variant == 'None', '%r %r' % (ri, sh), 'right_idx None, shift None', w, key_extra='wallids')
    ctx.check(rule, 'walls-cover-box' + sfx, len(walls) == 6, sorted('%s-%s' % (AX[c], s) for c, s in walls), 'lo and hi wall on each axis', w, key_extra='cover')
    if len(walls) != 6:
        return
    # the eight initial vertices
    init = F.body_by_suffix('ConvexCell::init')
    fd = F.body_by_suffix('Vertex::from_dual')
    ip2 = I.Interp(F, no_inline=[fd['path'], F.body_by_suffix('::update_safety_radius')['path']])
    bd = I.St('voronoi::boundary::SimulationBoundary', 'SimulationBoundary', dict(v.fields))
    ip2.call_body(init, [I.sym_vec3('L'), RF.sym('idx'), ip2.ref_to(bd)])
    ctx.evaluations += ip2.evaluations
    evs = [e for e in ip2.events if e.callee == fd['path']]
    wi = where(init)
    ctx.check(rule, 'eight-initial-vertices' + sfx, len(evs) == 8, '%d' % len(evs), '8', wi, key_extra='nverts')
    corners = set()
    signs = set()
    for e in evs:
        try:
            tri = [int(as_rf(e.fargs[i]).const_value()) for i in range(3)]
        except Exception:
            ctx.incomplete(rule, 'initial-vertex-dual' + sfx, 'non-constant dual %r' % (e.fargs[:3],), wi)
            return
        axes = sorted(classify_wall(planes[k][0], planes[k][1])[0] for k in tri)
        if axes != [0, 1, 2]:
            ctx.bad(rule, 'initial-vertex%s:%s' % (sfx, tri), 'planes %s' % tri, 'one wall per axis', where(init, e.line), key_extra='axes:%s' % tri)
            continue
        corner = tuple(sorted((classify_wall(planes[k][0], planes[k][1])[0], classify_wall(planes[k][0], planes[k][1])[1]) for k in tri))
        corners.add(corner)
        d = det3(planes[tri[0]][0], planes[tri[1]][0], planes[tri[2]][0])
        signs.add(d.const_value() if d.is_const() else repr(d))
        # the planes list handed to the vertex constructor is the boundary's
        ctx.evaluations += 1
    ctx.check(rule, 'initial-vertices-cover-all-corners' + sfx, len(corners) == 8, '%d distinct corners' % len(corners), '8', wi, key_extra='corners')
    ctx.check(rule, 'initial-duals-same-orientation' + sfx, len(signs) == 1 and list(signs)[0] in (1, -1), 'det[n_i n_j n_k] over the 8 duals: %s' % sorted(map(str, signs)), 'one common sign', wi, key_extra='orientation')
    # planes argument and generator argument of the vertex constructor
    ok_args = all(repr(e.fargs[4]).replace(' ', '') == 'DVec3{x:L.x,y:L.y,z:L.z}' for e in evs)
    ctx.check(rule, 'initial-vertices-measured-from-generator' + sfx, ok_args, 'generator argument', 'the cell\'s generator', wi, key_extra='gen')


def r3(ctx, F, rule, sfx):
    A = [RF.sym('A.' + c) for c in AX]
    Wd = [RF.sym('W.' + c) for c in AX]
    for dim in routes.DIMS:
        cub, ip, v, planes = boundary(F, dim, True)
        ctx.evaluations += ip.evaluations
        w = where(cub)
        for k, (n, p, hs) in enumerate(planes):
            cw = classify_wall(n, p)
            if cw is None:
                ctx.bad(rule, '%s:wall-%d%s' % (dim, k, sfx), 'n = %r' % (n,), 'axis-aligned', w, key_extra='normal')
                continue
            c, side, off = cw
            inst = '%s:wall-%s-%s%s' % (dim, AX[c], side, sfx)
            if c < NACT[dim]:
                if side == 'lo':
                    margin = (A[c] - Wd[c] / 2) - off
                else:
                    margin = off - (A[c] + Wd[c] * Fraction(3, 2))
                # strictly beyond: a generator may lie ON a periodic wall (closed box); its cell then reaches A - W/2 (resp. A + 3W/2) exactly, the
                # bisector with its own image coincides with a start wall placed there, every vertex on it is a tie whose exact test sees the image
                # twice (as neighbour and as the wall's mirror point) and answers 0, so the wall is never replaced by the image's face
                k_ = positive_multiple_of_width(margin, c, allow_zero=False)
                ctx.check(rule, inst, k_ is not None, 'wall at %r (margin to the Wigner-Seitz bound: %r)' % (off, margin), 'strictly beyond A %s for every anchor' % ('- W/2' if side == 'lo' else '+ 3W/2'), w, key_extra='margin')
            else:
                want = A[c] if side == 'lo' else A[c] + Wd[c]
                ctx.check(rule, inst, off == want, 'wall at %r' % off, 'untouched: %r' % want, w, key_extra='inactive')


def r4(ctx, F, rule, sfx):
    from . import c14
    c14.r3(ctx, F, rule, sfx)          # every tetrahedron of the decomposition is fed to the cell integral (no plane skipped)
    c01.r6(ctx, F, rule, sfx)


def conditioning_scenarios(F):
    """(name, body, args, point symbols, no_inline)"""
    out = []
    P = lambda n: I.sym_vec3(n)
    syms = lambda names: [n + '.' + c for n in names for c in 'xyz']
    out.append(('signed_volume_tet', F.body_by_suffix('geometry::signed_volume_tet'), [P('v0'), P('v1'), P('v2'), P('v3')], syms(['v0', 'v1', 'v2', 'v3']), ()))
    out.append(('signed_area_tri', F.body_by_suffix('geometry::signed_area_tri'), [P('v0'), P('v1'), P('v2'), P('t')], syms(['v0', 'v1', 'v2', 't']), ()))
    out.append(('in_sphere_test', F.body_by_suffix('geometry::in_sphere_test'), [P(n) for n in 'abcdv'], syms(list('abcdv')), ()))

    def plane(name):
        return I.St('geometry::Plane', 'Plane', {'n': I.sym_vec3(name + '.n'), 'p': I.sym_vec3(name + '.p')})
    out.append(('intersect_planes', F.body_by_suffix('geometry::intersect_planes'), ['ref:' + n for n in ('p0', 'p1', 'p2')], syms(['p0.p', 'p1.p', 'p2.p']), ()))
    out.append(('Plane::project_onto', F.body_by_suffix('geometry::Plane::project_onto'), ['ref:pl', P('x')], syms(['pl.p', 'x']), ()))
    out.append(('Plane::project_onto_intersection', F.body_by_suffix('geometry::Plane::project_onto_intersection'), ['ref:p0', 'ref:p1', P('x')], syms(['p0.p', 'p1.p', 'x']), ()))
    for trait in ('voronoi::integrals::CellIntegral', 'voronoi::integrals::FaceIntegral'):
        for imp in F.impls_of_trait(trait):
            st = imp['self']
            col = F.body('<%s as %s>::collect' % (st, trait), required=False)
            if col is None:
                continue
            out.append((st.split('::')[-1] + '::collect', col, ['self:' + st, P('v0'), P('v1'), P('v2'), P('g')], syms(['v0', 'v1', 'v2', 'g']), ()))
    return out, plane


def r5(ctx, F, rule, sfx, only=None):
    from .. import conditioning as C
    scs, plane = conditioning_scenarios(F)
    n = 0
    for name, body, args, psyms, no in scs:
        if only is not None and not only(name):
            continue
        ip0 = I.Interp(F)
        real = []
        for a in args:
            if isinstance(a, str) and a.startswith('ref:'):
                real.append(('ref', plane(a[4:])))
            elif isinstance(a, str) and a.startswith('self:'):
                real.append(('mut', I.Sym(nf.sym_atom('acc'), a[5:])))
            else:
                real.append(('val', a))

        def build(ip):
            out = []
            for k, v in real:
                out.append(ip.ref_to(v) if k == 'ref' else ip.ref_to(v, mut=True) if k == 'mut' else v)
            return out
        ip = I.Interp(F, no_inline=no)
        ip.track_products = True
        ip.unroll_limit = 8
        try:
            ip.call_body(body, build(ip))
        except I.Diverge:
            pass
        ctx.evaluations += ip.evaluations
        mp = C.shifted(psyms)
        worst = (0, None, None)
        for callee, line, ops, b in ip.products:
            d = C.operation_degree(callee, ops, mp)
            if d > worst[0]:
                worst = (d, callee, line)
        n += 1
        ctx.check(rule, 'kernel:%s%s' % (name, sfx), worst[0] <= 1, '%d multiplicative operations; highest joint translation degree %d%s' % (len(ip.products), worst[0], (' in %s at line %s' % (worst[1].rsplit('::', 1)[-1], worst[2])) if worst[0] > 1 else ''),
                  '<= 1: differences are formed before anything is multiplied', where(body), key_extra='degree:%d' % worst[0])
    if only is None:
        ctx.floor(rule, 'measure kernels analysed' + sfx, n, 10)


def r6(ctx, F, rule, sfx):
    from . import c01
    c01.r1(ctx, F, rule, sfx)
    c01.r2(ctx, F, rule, sfx)


def r7(ctx, F, rule, sfx):
    from . import c06
    c06.r1(ctx, F, rule, sfx)
