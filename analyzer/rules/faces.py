"""Shared scenarios: the three sites that decide which faces of a cell are produced
(VoronoiCell::from_convex_cell, ConvexCell::compute_face_integrals, ConvexCell::compute_face_integrals_sym)
evaluated abstractly once per fact file; decision atoms and their classifier (used by C03, C07, C08, C13)."""
import re
from .. import interp as I, nf, dtab
from ..nf import RF, as_rf
from ..facts import AnalysisIncomplete, strip_generics, calls, callee_name
from .util import *

_cache = {}

SITES = {
    'direct': 'VoronoiCell::from_convex_cell',
    'integrals': 'ConvexCell::compute_face_integrals',
    'sym': 'ConvexCell::compute_face_integrals_sym',
}

ATOMS = ['V', 'RS', 'SN', 'GT', 'MS', 'MR', 'AC']


class FaceSite:
    pass


def site(F, which):
    key = (id(F), which)
    if key in _cache:
        return _cache[key]
    b = F.body_by_suffix(SITES[which])
    no = [x['path'] for x in F.bodies if strip_generics(x['path']).endswith(
        ('Dimensionality::vector_is_valid', 'ConvexCell::decompose', 'FaceIntegrator::init', 'FaceIntegrator::collect', 'FaceIntegrator::finalize',
         'VoronoiFace::collect', 'VoronoiFace::finalize'))]
    no += [x['path'] for x in F.bodies if 'ConvexCellDecomposition' in x['path'] and x['path'].endswith('::next')]
    ip = I.Interp(F, no_inline=no)
    cell = I.Sym(nf.sym_atom('cell'), 'voronoi::convex_cell::ConvexCell<M>')
    args = []
    s = FaceSite()
    s.mask_is_option = False
    for i in range(1, b['arg_count'] + 1):
        ty = b['locals'][i]['ty']
        if 'ConvexCell<' in ty and ty.startswith('&'):
            args.append(ip.ref_to(cell, ty))
        elif 'Vec<voronoi::voronoi_face::VoronoiFace>' in ty:
            s.out_faces = I.Sym(nf.sym_atom('faces'), 'std::vec::Vec<voronoi::voronoi_face::VoronoiFace>')
            s.out_ref = ip.ref_to(s.out_faces, ty, mut=True)
            args.append(s.out_ref)
        elif ty.startswith('std::option::Option<&[bool]'):
            args.append(I.Sym(nf.sym_atom('mask'), ty))
            s.mask_is_option = True
        elif ty.startswith('&[bool]'):
            args.append(I.Sym(nf.sym_atom('mask'), ty))
        elif ty in ('D',) or i == 2 and which != 'direct':
            args.append(I.Sym(nf.sym_atom('data'), ty))
        else:
            raise AnalysisIncomplete('%s has an argument of unexpected type %s' % (b['path'], ty), b['path'])
    ret, rets = ip.call_body(b, args)
    s.which, s.body, s.ip, s.ret = which, b, ip, ret
    nx = [e for e in ip.events if e.body is b and e.callee and 'ConvexCellDecomposition' in e.callee and e.callee.endswith('::next')]
    if not nx:
        # the loop over the tetrahedra lives in a crate-local helper that was inlined into this evaluation (decision passed in as a closure or flag)
        nx = [e for e in ip.events if e.callee and 'ConvexCellDecomposition' in e.callee and e.callee.endswith('::next')]
    if len(nx) > 1:
        # an early `return` / `continue` before the loop leaves no join point: the loop is evaluated once per way of reaching it
        from .scen import merge_same_site
        nx = merge_same_site(nx)
    if len(nx) != 1:
        raise AnalysisIncomplete('%s: %d reads of the tetrahedron stream' % (b['path'], len(nx)), b['path'])
    s.next = nx[0]
    tet = I.get_field(I.downcast(nx[0].result, 'Some'), 0)
    s.tet = tet
    s.K = I.get_field(tet, 'plane_idx', 'usize')
    s.Ktxt = repr(s.K)
    s.hs = repr(I.get_index(I.get_field(cell, 'clipping_planes'), s.K))
    s.right = s.hs + '.right_idx.Some.0'
    # creation events: Option::get_or_insert / get_or_insert_with on the per-plane slot
    from .scen import merge_same_site as _mss
    s.creations = _mss([e for e in ip.events if e.callee and e.callee.startswith('std::option::Option::<T>::get_or_insert') and e.in_loop])
    s.collects = _mss([e for e in ip.events if e.callee and strip_generics(e.callee).endswith(('VoronoiFace::collect', 'FaceIntegrator::collect')) and e.in_loop])
    s.inits = _mss([e for e in ip.events if e.callee and strip_generics(e.callee).endswith(('VoronoiFace::init', 'FaceIntegrator::init'))])
    s.by_assignment = False
    if not s.creations:
        # the same thing written out: `if slot.is_none() { if <decision> { *slot = Some(init(cell, K)) } }` — the record constructor runs
        # only where a record is created, and only while the slot of plane K is still empty
        inits = [e for e in s.inits if e.in_loop]
        cls = classifier(s)
        gated = [e for e in inits if any((cls(l) or ('', None))[0] == 'AC' for g in e.guard for l in dtab.b_leaves(g).values())]
        if inits and len(gated) == len(inits):
            s.creations, s.by_assignment = inits, True
    _cache[key] = s
    return s


def classifier(s):
    vtxt = 'call:voronoi::Dimensionality::vector_is_valid(cell.dimensionality, %s.plane.n)' % s.hs
    nxat = I.frozen(s.next.result)
    nxat = nxat.atom if isinstance(nxat, I.Sym) else None

    def classify(leaf):
        d = dtab.is_discr_eq(leaf)
        if d is not None and nxat is not None and isinstance(d[0], nf.Atom) and d[0].id == nxat.id:
            return ('const', (d[1] == 1) == d[2])
        if leaf.op == 'atom':
            t = repr(leaf.args[0])
            if t == vtxt:
                return ('V', True)
            if t in ('mask.Some.0[%s]' % s.right, 'mask[%s]' % s.right):
                return ('MR', True)
            if t in ('mask.Some.0[cell.idx]', 'mask[cell.idx]'):
                return ('const', True)       # the cell being treated is constructed, so its own mask entry is true
            x = dtab.is_some_leaf(leaf)
            if x is not None:
                xt = repr(x)
                if xt == 'mask':
                    return ('MS', True)
                if xt.endswith('[%s]' % s.Ktxt) and xt.startswith('phi'):
                    return ('AC', True)
        dm = dtab.is_discr_eq(leaf)
        if dm is not None and repr(dm[0]) == 'mask':
            return ('MS', (dm[1] == 1) == dm[2])
        if dm is not None:
            xt = repr(dm[0])
            if xt.endswith('[%s]' % s.Ktxt) and xt.startswith('phi'):
                return ('AC', (dm[1] == 1) == dm[2])     # `if let Some(..) = slot[K]` on the per-plane slot as the loop left it
        p = dtab.option_leaf(leaf, s.hs + '.right_idx')
        if p is not None:
            return ('RS', p)
        p = dtab.option_leaf(leaf, s.hs + '.shift')
        if p is not None:
            return ('SN', not p)
        if leaf.op == 'cmp' and leaf.args[0] in ('<', '<='):
            a, b = repr(leaf.args[1]), repr(leaf.args[2])
            if (a, b) == ('cell.idx', s.right):
                return ('GT', True)          # idx < right, idx <= right  (right != idx: the self item is consumed first, C17)
            if (a, b) == (s.right, 'cell.idx'):
                return ('GT', False)         # right < idx, right <= idx
        return None
    return classify


def table(s):
    names = list(ATOMS)
    if not s.mask_is_option:
        # a slice mask is always present
        pass
    return dtab.Table(names, classifier(s))


def reached_table(s, events, raw=False):
    """rows -> True iff at least one of `events` is reached (their guards are mutually exclusive paths).
    For creation events the rows in which the record of plane K already exists (AC) carry no decision of their own: `get_or_insert` returns the
    existing record, and an implementation may or may not repeat the test for later tetrahedra of the same plane (the answer is a function of the
    plane alone). They take the verdict of the corresponding row with an empty slot.  `raw=True` gives the table as evaluated (used for collect events)."""
    T = table(s)
    out = {}
    for e in events:
        tab = T.tabulate(I.TRUE, e.guard)
        for row, v in tab.items():
            out[row] = out.get(row, 0) + (1 if v is not None else 0)
    if not raw and events and events[0] in s.creations:
        names = T.names
        ai = names.index('AC')
        for row in list(out):
            if row[ai]:
                twin = row[:ai] + (False,) + row[ai + 1:]
                out[row] = out.get(twin, 0)
    return T, out


def required(which, env):
    V, RS, SN, GT, MS, MR, AC = (env[n] for n in ATOMS)
    if which == 'direct':
        return V and ((not (RS and SN)) or GT or (MS and not MR))
    if which == 'integrals':
        return V
    if which == 'sym':
        return V and not (SN and RS and (not GT) and MR)
    raise KeyError(which)
