"""C08 — 1D and 2D tessellations depend only on the active coordinates (structural clauses)."""
from .. import interp as I, nf, dtab
from ..nf import RF, as_rf
from ..tables import c3
from ..facts import AnalysisIncomplete, strip_generics, calls, callee_name
from .util import *
from . import routes, c02, c06, c16, faces

META = {
    'level': 'other',
    'configs': {'quick': ['default'], 'thorough': ['default', 'norayon', 'default_nodebug']},
    'rules': {
        'R1': 'axis-activity agreement: for d in {1D,2D,3D} and axis c, "c is treated as active" extracted from (1) entry-point normalisation, (2) Generator::new projection, '
              '(4) periodic tripling of the start box, (5) periodic image ranges, (6) Dimensionality::vector_is_valid is EQUAL to c < d; (3) the subspace in which vertex radii are '
              'measured CONTAINS the active axes',
        'R2': 'unused inputs are dead: per d, no arithmetic, library call or opaque call ever consumes an inactive component of a generator, of anchor or of width '
              '(they are overwritten by constants first) — so garbage, including NaN/inf, cannot propagate — at both entry points',
        'R3': 'filter dominance: at each of the three face-producing sites a face record is created only if vector_is_valid(normal of the SAME plane) holds',
        'R4': 'unit thickness tables (C02.R1)',
        'R6': 'the public name of a mode is its number of active axes: the discriminants of Dimensionality are OneD = 1, TwoD = 2, ThreeD = 3 — `n.try_into()` (num_enum) selects the '
              'n-dimensional mode and `Voronoi::dimensionality()` (the discriminant as usize) reports n; a shifted discriminant makes `2.try_into()` build a different dimensionality than asked for',
        'R5': 'the 2D (1D) periodic start box is the slab version of the 3D one (C02.R3): on every active axis the walls lie strictly beyond A_c - W_c/2 and A_c + 3W_c/2 measured with '
              'the width of THAT axis; inactive axes keep the unit-thickness walls',
    },
    'explanation': 'Low-dimensional handling is spread over six mechanisms; each is specialised per dimensionality by constant folding and the per-axis activity bits are compared '
                   'with c < d (R1). R2 is a kill analysis on the abstractly evaluated code: inactive input components never reach an operation. R3 is read off the face decision tables. '
                   'Not decided: the 1D closed form and the 2D-equals-slab statement (they follow from C01 given these).',
    'trusted_base': ['glam table', 'E0 extractor'],
    'assumptions': [],
}

AX = 'xyz'
NACT = {'OneD': 1, 'TwoD': 2, 'ThreeD': 3}


def run(ctx):
    for cfg in ctx.configs_used:
        F = ctx.facts(cfg)
        sfx = '' if cfg == 'default' else '@' + cfg
        for fn in (r1, r2, r3, r4, r5, r6):
            rule = 'C08.' + fn.__name__.upper()
            ctx.guarded(rule, 'evaluate' + sfx, lambda: fn(ctx, F, rule, sfx))


def bits(dim):
    return [c < NACT[dim] for c in range(3)]


def r1(ctx, F, rule, sfx):
    g = F.body_by_suffix('Generator::new')
    viv = F.body_by_suffix('Dimensionality::vector_is_valid')
    for dim in routes.DIMS:
        want = bits(dim)
        # (1) entry-point normalisation, both routes
        for which in ('direct', 'integrator'):
            r = routes.run_route(F, which, dim, False)
            e = r.one('SimulationBoundary::cuboid')
            row = c02.box_row(e.fargs[0], e.fargs[1], dim)
            got = [x == 'caller' for x in row]
            ctx.check(rule, '%s:normalisation:%s%s' % (dim, which, sfx), got == want and all(x in ('caller', 'unit') for x in row), ' '.join(row), 'caller values on active axes, unit slab on inactive', where(e.body, e.line), key_extra='norm:%s' % which)
        # (2) generator projection
        ip = I.Interp(F)
        v, _ = ip.call_body(g, [RF.sym('id'), I.sym_vec3('G'), routes.dim_value(dim)])
        ctx.evaluations += ip.evaluations
        loc = c3(I.get_field(v, 'loc'))
        row = ['kept' if repr(loc[c]) == 'G.' + AX[c] else 'zero' if loc[c].is_zero() else 'other:%r' % loc[c] for c in range(3)]
        ctx.check(rule, '%s:generator-projection%s' % (dim, sfx), [x == 'kept' for x in row] == want and all(x in ('kept', 'zero') for x in row), ' '.join(row), 'kept on active axes, 0 on inactive', where(g), key_extra='proj')
        ctx.check(rule, '%s:generator-id%s' % (dim, sfx), repr(I.get_field(v, 'id')) == 'id', repr(I.get_field(v, 'id')), 'id', where(g), key_extra='gid')
        # (3) radius subspace contains the active axes: C16.R3 computes it; here via the same evaluation
        fd = F.body_by_suffix('Vertex::from_dual')
        ip = I.Interp(F, no_inline=['geometry::intersect_planes'])
        planes = I.Sym(nf.sym_atom('planes'), '&[voronoi::half_space::HalfSpace]')
        gv = I.sym_vec3('G')
        vx, _ = ip.call_body(fd, [RF.sym('i'), RF.sym('j'), RF.sym('k'), planes, gv, routes.dim_value(dim)])
        ctx.evaluations += ip.evaluations
        r2v = as_rf(I.get_field(vx, 'radius2', 'f64'))
        X = c3(I.get_field(vx, 'loc'))
        G = c3(gv)
        measured = None
        for mask in range(8):
            axes = [c for c in range(3) if mask >> c & 1]
            for variant in (0, 1):
                e_ = RF.const(0)
                for c in range(3):
                    if c in axes:
                        e_ = e_ + (G[c] - X[c]) ** 2
                    elif variant:
                        e_ = e_ + G[c] ** 2      # vertex coordinate replaced by 0; the generator is 0 there by (2)
                if e_ == r2v:
                    measured = axes
        if measured is None:
            ctx.incomplete(rule, '%s:radius-subspace%s' % (dim, sfx), 'radius^2 = %s not a sum of squared coordinate differences' % repr(r2v)[:120], where(fd))
        else:
            ctx.check(rule, '%s:radius-subspace%s' % (dim, sfx), all(c in measured for c in range(NACT[dim])), 'axes measured: %s' % [AX[c] for c in measured], 'contains %s' % [AX[c] for c in range(NACT[dim])], where(fd), key_extra='radius')
        # (4) periodic tripling
        cub, ipc, bv, planes_ = c02.boundary(F, dim, True)
        ctx.evaluations += ipc.evaluations
        trip = [None] * 3
        A = [RF.sym('A.' + c) for c in AX]
        Wd = [RF.sym('W.' + c) for c in AX]
        for n, p, hs in planes_:
            cw = c02.classify_wall(n, p)
            if cw is None:
                continue
            c, side, off = cw
            plain = A[c] if side == 'lo' else A[c] + Wd[c]
            t = off != plain
            trip[c] = t if trip[c] is None else (trip[c] or t)
        ctx.check(rule, '%s:periodic-tripling%s' % (dim, sfx), trip == want, 'tripled axes: %s' % [AX[c] for c in range(3) if trip[c]], 'exactly the active axes', where(cub), key_extra='tripling')
        # (5) image ranges
        new, e_, rngs, comps = c06.image_ranges(ctx, F, dim)
        got = [None if r is None else r != (0, 0) for r in rngs]
        ctx.check(rule, '%s:image-axes%s' % (dim, sfx), got == want, 'image ranges per axis: %s' % (rngs,), 'images exactly on the active axes', where(new), key_extra='images')
        # (6) vector_is_valid: which components must vanish
        ip = I.Interp(F)
        v, _ = ip.call_body(viv, [ip.ref_to(routes.dim_value(dim)), I.sym_vec3('n')])
        ctx.evaluations += ip.evaluations
        leaves = dtab.b_leaves(v)
        must_zero = set()
        okshape = True
        for l in leaves.values():
            if l.op == 'cmp' and l.args[0] == '==' and ((isinstance(l.args[2], RF) and l.args[2].is_zero()) or (isinstance(l.args[1], RF) and l.args[1].is_zero())):
                x = l.args[1] if not l.args[1].is_zero() else l.args[2]
                nm = repr(x)
                if nm in ('n.x', 'n.y', 'n.z'):
                    must_zero.add('xyz'.index(nm[-1]))
                    continue
            okshape = False
        # the value must be the conjunction of those tests
        conj_ok = okshape

        def val_all(leaf):
            return True
        if okshape and leaves:
            conj_ok = dtab.evaluate(v, lambda leaf: True) is True and all(dtab.evaluate(v, (lambda bad: (lambda leaf: leaf.key() != bad))(k)) is False for k in leaves)
        elif not leaves:
            conj_ok = isinstance(v, I.B) and v.is_const() and v.value() is True
        got = [c not in must_zero for c in range(3)]
        ctx.check(rule, '%s:valid-normal-filter%s' % (dim, sfx), conj_ok and got == want, 'valid iff zero on axes %s' % [AX[c] for c in sorted(must_zero)], 'zero exactly on the inactive axes', where(viv), key_extra='valid')


def r2(ctx, F, rule, sfx):
    g = F.body_by_suffix('Generator::new')
    for dim in ('OneD', 'TwoD'):
        inactive = [AX[c] for c in range(3) if c >= NACT[dim]]
        ip = I.Interp(F)
        ip.track_observed = True
        ip.call_body(g, [RF.sym('id'), I.sym_vec3('G'), routes.dim_value(dim)])
        ctx.evaluations += ip.evaluations
        bad = sorted(n for n in ip.observed if n in ['G.' + a for a in inactive])
        ctx.check(rule, '%s:generator-unused-coordinates-never-consumed%s' % (dim, sfx), not bad, 'consumed by an operation: %s' % (bad or 'none'), 'none (overwritten by constants)', where(g), key_extra='gen:%s' % bad)
        for which in ('direct', 'integrator'):
            b = routes.entry_bodies(F)[which]
            no = [x['path'] for x in F.bodies if strip_generics(x['path']).endswith(routes.OPAQUE)]
            ip = I.Interp(F, no_inline=no)
            ip.track_observed = True
            args = []
            seen = 0
            for i in range(1, b['arg_count'] + 1):
                ty = b['locals'][i]['ty']
                if ty == '&[glam::DVec3]':
                    args.append(I.Sym(nf.sym_atom('generators'), ty))
                elif ty.startswith('std::option::Option<&[bool]'):
                    args.append(I.Sym(nf.sym_atom('mask'), ty))
                elif ty == 'glam::DVec3':
                    args.append(I.sym_vec3('A' if seen == 0 else 'W'))
                    seen += 1
                elif ty == 'voronoi::Dimensionality':
                    args.append(routes.dim_value(dim))
                elif ty == 'bool':
                    args.append(routes.flag_value(None))
                else:
                    raise AnalysisIncomplete('unexpected argument type %s' % ty)
            ip.call_body(b, args)
            ctx.evaluations += ip.evaluations
            names = ['A.' + a for a in inactive] + ['W.' + a for a in inactive]
            bad = sorted(n for n in ip.observed if n in names)
            ctx.check(rule, '%s:%s:unused-box-components-never-consumed%s' % (dim, which, sfx), not bad, 'consumed: %s' % (bad or 'none'), 'none (overwritten by the unit-slab constants first)', where(b), key_extra='box:%s' % bad)
            # generators reach the tree and the builder only through Generator::new
            runs = [r for r in ip.closure_runs if any(e.callee and strip_generics(e.callee).endswith('Generator::new') for e in r['events'])]
            ok = len(runs) == 1
            if ok:
                e = [e for e in runs[0]['events'] if strip_generics(e.callee).endswith('Generator::new')][0]
                ok = repr(e.fargs[2]) == repr(I.frozen(routes.dim_value(dim)))
            ctx.check(rule, '%s:%s:generators-projected-with-same-dimensionality%s' % (dim, which, sfx), ok, '%d projection site(s)' % len(runs), 'every input generator goes through Generator::new(id, loc, dimensionality)', where(b), key_extra='genproj')


def r3(ctx, F, rule, sfx):
    for which in ('direct', 'integrals', 'sym'):
        s = faces.site(F, which)
        T, reach = faces.reached_table(s, s.creations)
        n = 0
        bad = 0
        for env in T.rows():
            if not env['V']:
                n += 1
                if reach.get(tuple(env[k] for k in T.names), 0) > 0:
                    bad += 1
        ctx.check(rule, '%s:no-face-for-invalid-normal%s' % (which, sfx), bad == 0 and n > 0, '%d of %d rows with an invalid normal create a face' % (bad, n), '0', where(s.body), key_extra='filter')
        # the tested normal is the normal of the plane the record is created for (the V atom is about cell.clipping_planes[K].plane.n by construction
        # of the classifier; a test on another plane would be an unknown leaf and fail closed)
        viv = [e for e in s.ip.events if e.callee and strip_generics(e.callee).endswith('vector_is_valid')]
        # (the one-off evaluation of a stream adaptor's closure on a symbolic `item(stream)` is not a test of this loop's tetrahedron)
        viv = [e for e in viv if 'item(' not in repr(e.fargs[1])]
        ok = len(viv) >= 1 and all(repr(e.fargs[1]) == s.hs + '.plane.n' and repr(e.fargs[0]) == 'cell.dimensionality' for e in viv)
        ctx.check(rule, '%s:filter-tests-same-plane%s' % (which, sfx), ok, [repr(e.fargs[1])[-40:] for e in viv], 'cell.dimensionality.vector_is_valid(clipping_planes[tet.plane_idx].normal())', where(s.body), key_extra='sameplane')


def r4(ctx, F, rule, sfx):
    c02.r1(ctx, F, rule, sfx)


def r5(ctx, F, rule, sfx):
    c02.r3(ctx, F, rule, sfx)


def r6(ctx, F, rule, sfx):
    found = None
    where_ = None
    for b in F.bodies:
        for bl in b['blocks']:
            for st in bl['stmts']:
                if st['k'] == 'assign' and st['rv']['k'] == 'discr' and st['rv'].get('ty') == 'voronoi::Dimensionality' and st['rv'].get('variants'):
                    found = {v['name']: int(v['val']) for v in st['rv']['variants']}
                    where_ = where(b)
                    break
            if found:
                break
        if found:
            break
    if found is None:
        raise AnalysisIncomplete('no match on Dimensionality found to read the discriminants from')
    a = F.adt('voronoi::Dimensionality')
    ctx.check(rule, 'discriminant-is-number-of-active-axes' + sfx, found == {'OneD': 1, 'TwoD': 2, 'ThreeD': 3}, str(found), "{'OneD': 1, 'TwoD': 2, 'ThreeD': 3}", '%s:%s' % (a['file'], a['line']), key_extra='discr')
    # the two conversions, evaluated on every value: n -> mode with n active axes (anything else is rejected), mode -> n
    tb = F.body('<voronoi::Dimensionality as num_enum::TryFromPrimitive>::try_from_primitive', required=False) or F.body('<voronoi::Dimensionality as std::convert::TryFrom<usize>>::try_from')
    got = {}
    for n in range(0, 5):
        ipn = I.Interp(F)
        r, _ = ipn.call_body(tb, [RF.const(n)])
        ctx.evaluations += ipn.evaluations
        got[n] = (r.fields[0].variant if isinstance(r.fields.get(0), I.St) else '?') if isinstance(r, I.St) and r.variant == 'Ok' else ('Err' if isinstance(r, I.St) and r.variant == 'Err' else '?')
    ctx.check(rule, 'number-selects-the-mode' + sfx, got == {0: 'Err', 1: 'OneD', 2: 'TwoD', 3: 'ThreeD', 4: 'Err'}, str(got), 'n.try_into() == the mode with n active axes for n = 1, 2, 3, an error otherwise', where(tb), key_extra='tryfrom')
    fb = F.body('voronoi::<impl std::convert::From<voronoi::Dimensionality> for usize>::from')
    back = {}
    for d in ('OneD', 'TwoD', 'ThreeD'):
        ipn = I.Interp(F)
        r, _ = ipn.call_body(fb, [I.St('voronoi::Dimensionality', d, {})])
        ctx.evaluations += ipn.evaluations
        back[d] = int(as_rf(r).const_value()) if isinstance(r, RF) and r.is_const() else repr(r)[:30]
    ctx.check(rule, 'mode-reports-its-number' + sfx, back == {'OneD': 1, 'TwoD': 2, 'ThreeD': 3}, str(back), 'usize::from(mode) == number of active axes', where(fb), key_extra='into')
    vb = F.body_by_suffix('Voronoi::dimensionality')
    ip = I.Interp(F)
    v = I.St('voronoi::Voronoi', 'Voronoi', {}, I.Sym(nf.sym_atom('self'), 'voronoi::Voronoi'))
    r, _ = ip.call_body(vb, [ip.ref_to(v)])
    ctx.evaluations += ip.evaluations
    ok = repr(I.frozen(r)).replace(' ', '') in ('call:<TasInto<U>>::into(self.dimensionality)', 'call:<Tasstd::convert::Into<U>>::into(self.dimensionality)') or repr(I.frozen(r)).endswith('(self.dimensionality)')
    ctx.check(rule, 'accessor-reports-the-discriminant' + sfx, ok, repr(I.frozen(r))[:100], 'self.dimensionality.into()', where(vb), key_extra='accessor')
