"""C11 — all arbitrary-precision backends give identical results (translation validation across four builds)."""
import os, re, json, hashlib
from .. import interp as I, nf, dtab
from ..nf import RF, as_rf
from ..facts import AnalysisIncomplete, strip_generics, calls, callee_name
from .util import *
from . import c10, c09

BACKENDS = ['default', 'dashu', 'malachite', 'num_bigint']     # default == ibig,rayon

META = {
    'level': 'translation_validation',
    'configs': {'quick': BACKENDS, 'thorough': BACKENDS + ['norayon', 'dashu_norayon', 'malachite_norayon', 'num_bigint_norayon']},
    'rules': {
        'R1': 'same polynomial: in every backend build the exact predicate returns the sign of the same polynomial, identical to the lifted 4x4 determinant (C10.R1)',
        'R2': 'sign table: ibig/dashu return to_f64(signum(det)) (dashu: its exact .value()); malachite maps Less/Equal/Greater and num_bigint maps Minus/NoSign/Plus to -1.0/0.0/+1.0; '
              'no other operation on the chain',
        'R3': 'confinement: backend-specific types and calls occur only in the exact predicate; every other body of the crate has the same MIR (modulo type names) in all four builds',
        'R4': 'every #[cfg(feature = "<backend>")] in the sources lies in the import header of geometry.rs, inside the exact predicate or in the mutual-exclusion block of lib.rs',
    },
    'explanation': 'The four buildable backend configurations are compiled and their type-checked MIR compared: the predicate is the same polynomial and the same sign map in each '
                   '(R1, R2), and nothing else in the crate depends on the backend (R3, R4). With C09/C10 this gives identical tessellations. `rug` cannot be built in this sandbox '
                   '(GMP build script) and is outside the claim.',
    'trusted_base': ['ibig/dashu signum+to_f64, malachite Sign::sign, num_bigint BigInt::sign return the mathematical sign; their ring operations are exact', 'E0 extractor'],
    'assumptions': ['backends: ibig, dashu, malachite, num_bigint (rug not buildable here)'],
}

PRED = 'geometry::in_sphere_test_exact'


def run(ctx):
    Fs = {cfg: ctx.facts(cfg) for cfg in ctx.configs_used}
    ctx.guarded('C11.R1', 'evaluate', lambda: r1_r2(ctx, Fs))
    ctx.guarded('C11.R3', 'evaluate', lambda: r3(ctx, Fs))
    ctx.guarded('C11.R4', 'evaluate', lambda: r4(ctx, Fs))


NEG = {'Less', 'Minus'}
ZERO = {'Equal', 'NoSign'}
POS = {'Greater', 'Plus'}


def discr_names(body, F=None):
    """variant names by discriminant value of the enums matched on in the predicate (and in its private helpers, when the fact file is given)"""
    bodies = [body]
    if F is not None:
        bodies += [F.by_path[p_][0] for p_ in private_helpers_of(F, body)]
    out = {}
    for bd in bodies:
        for bl in bd['blocks']:
            for s in bl['stmts']:
                if s['k'] == 'assign' and s['rv']['k'] == 'discr':
                    for v in s['rv'].get('variants') or []:
                        out[int(v['val'])] = v['name']
    return out


def r1_r2(ctx, Fs):
    spec = c10.spec_poly()
    polys = {}
    for cfg, F in Fs.items():
        b, ip, v = c10.exact_form(ctx, F)
        w = where(b)
        cf = c10.compare_form(v)
        if cf is not None:
            poly, table = cf
            flip = 1 if poly == spec else -1 if poly == -spec else 0
            polys[cfg] = poly * flip if flip else poly
            ctx.check('C11.R1', 'determinant@' + cfg, flip != 0, 'comparison of a polynomial against zero', 'identical polynomial', w, key_extra='det:' + cfg)
            got = {s_: table[s_ * flip] for s_ in (-1, 0, 1)} if flip else table
            ctx.check('C11.R2', 'sign-map@' + cfg, flip != 0 and got == {-1: -1, 0: 0, 1: 1}, 'determinant negative/zero/positive -> %s' % [got[-1], got[0], got[1]],
                      '-1.0 / 0.0 / +1.0 for negative / zero / positive determinant', w, key_extra='sign:%s:%s' % (cfg, [got[-1], got[0], got[1]]))
            continue
        poly, chain = c10.find_poly_or_gated(v)
        if poly is None or I.single_atom(poly) is not None:
            ctx.incomplete('C11.R1', 'polynomial@' + cfg, 'returned value %s is not sign-extraction(polynomial)' % repr(v)[:160], w)
            continue
        polys[cfg] = poly
        ctx.check('C11.R1', 'determinant@' + cfg, poly == spec, 'difference to the lifted determinant: %d terms' % len((poly - spec).num), 'identical polynomial', w, key_extra='det:' + cfg)
        # sign extraction
        ok = False
        detail = ' <- '.join(chain)
        if chain and chain[0] == 'match-discriminant':
            names = discr_names(b, F)
            if not names:
                # the variant is tested with `==` (derived PartialEq) instead of a `match`: no discriminant read in the body; the values of the
                # backend's sign enum (core::cmp::Ordering: -1, 0, 1; num_bigint::Sign: 0, 1, 2 in declaration order)
                names = {'malachite': {-1: 'Less', 0: 'Equal', 1: 'Greater'}, 'num': {0: 'Minus', 1: 'NoSign', 2: 'Plus'}}.get(cfg.split('_')[0], {})
            # evaluate the decision tree for each discriminant value
            leaves = dtab.b_leaves(as_rf(v))
            subj = None
            for l in leaves.values():
                if dtab.is_discr_eq(l) is not None:
                    subj = dtab.is_discr_eq(l)[0]
            table = {}
            for val, nm in names.items():
                def valuation(leaf, val=val):
                    d = dtab.is_discr_eq(leaf)
                    if d is None:
                        return False          # a zero test inside the determinant (gated assembly, decided by C10.R1's identity): irrelevant for the sign map
                    k = d[1] if d[1] < 128 else d[1] - 256          # (an i8 discriminant read as u8: Ordering::Less)
                    return (k == (val if val < 128 else val - 256)) == d[2]
                # walk the match on the sign only (its subject may itself contain conditionals: they are not touched)
                def holds(c, valuation=valuation):
                    if c.op == 'not':
                        return not holds(c.args[0])
                    if c.op == 'and':
                        return holds(c.args[0]) and holds(c.args[1])
                    if c.op == 'or':
                        return holds(c.args[0]) or holds(c.args[1])
                    if c.op == 'const':
                        return c.args[0]
                    return valuation(c)
                r = None
                for conds_, leaf_ in cases(as_rf(v)):
                    if all(holds(c) for c in conds_):
                        r = leaf_
                        break
                table[nm] = r.const_value() if isinstance(r, RF) and r.is_const() else repr(r)
            want = {}
            for nm in table:
                want[nm] = -1 if nm in NEG else 0 if nm in ZERO else 1 if nm in POS else None
            ok = bool(table) and table == want and len(chain) == 2 and chain[1] == 'sign'
            detail = 'match %s(det): %s' % (chain[1] if len(chain) > 1 else '?', table)
        elif 'discr-cast' in chain:
            names = discr_names(b, F)
            table = {nm: (val - 256 if val >= 128 else val) for val, nm in names.items()}
            want = {nm: (-1 if nm in NEG else 0 if nm in ZERO else 1 if nm in POS else None) for nm in table}
            i = chain.index('discr-cast')
            pre_ok = all(c in ('from', 'into') for c in chain[:i]) and chain[i + 1:] == ['sign']
            ok = bool(table) and table == want and pre_ok
            detail = 'numeric cast of the sign enum: %s (chain %s)' % (table, ' <- '.join(chain))
        else:
            exp = {'default': ['to_f64', 'signum'], 'dashu': ['value', 'to_f64', 'signum']}
            base = cfg.split('_')[0] if cfg not in ('default', 'norayon') else 'default'
            ok = chain == exp.get(base, ['to_f64', 'signum'])
        ctx.check('C11.R2', 'sign-map@' + cfg, ok, detail, '-1.0 / 0.0 / +1.0 for negative / zero / positive determinant, nothing else on the chain', w, key_extra='sign:' + cfg)
    if len(polys) >= 2:
        ks = sorted(polys)
        same = all(polys[k] == polys[ks[0]] for k in ks[1:])
        ctx.check('C11.R1', 'pairwise-equal', same, 'compared %s' % ks, 'one polynomial in all builds', None, key_extra='pairwise')
    ctx.floor('C11.R1', 'backend builds compared', len(polys), 4)


def shape_no_types(b):
    return c09.body_shape(b)


def r3(ctx, Fs):
    ref_cfg = 'default'
    ref = Fs[ref_cfg]
    rh = {b['path']: shape_no_types(b) for b in ref.bodies}
    for cfg, F in Fs.items():
        if cfg == ref_cfg:
            continue
        rayon_differs = ('norayon' in cfg) != ('norayon' in ref_cfg)
        if rayon_differs:
            continue        # sequential/parallel pairs are compared by C09.R4
        h = {b['path']: shape_no_types(b) for b in F.bodies}
        diff = sorted(p for p in set(rh) | set(h) if rh.get(p) != h.get(p))
        helpers = {strip_generics(h) for h in private_helpers_of(F, F.body_by_suffix(PRED))} | {strip_generics(h) for h in private_helpers_of(ref, ref.body_by_suffix(PRED))}
        other = [p for p in diff if not strip_generics(p).endswith(PRED) and strip_generics(p) not in helpers]
        ctx.check('C11.R3', 'only-the-predicate-differs@' + cfg, not other, 'bodies differing from the ibig build: %s' % ([strip_generics(p) for p in diff][:6]), 'at most the exact predicate',
                  None, key_extra='confine:%s:%s' % (cfg, ','.join(strip_generics(p) for p in other[:3])))
        # backend crates are called only from the predicate
        users = set()
        for b in F.bodies:
            for bl, t in calls(b):
                kr = t.get('resolved_crate') or t.get('callee_crate') or ''
                if re.match(r'(ibig|dashu|dashu_int|dashu_base|malachite|malachite_nz|malachite_base|num_bigint|num_integer|rug)', kr):
                    users.add(strip_generics(b['path']))
        bad = sorted(u for u in users if not u.endswith(PRED) and '::tests::' not in u and u not in helpers)
        ctx.check('C11.R3', 'backend-calls-confined@' + cfg, not bad, 'callers of backend crates: %s' % sorted(users), 'only ' + PRED, None, key_extra='callers:' + cfg)
    # same for the reference build
    users = set()
    for b in ref.bodies:
        for bl, t in calls(b):
            kr = t.get('resolved_crate') or t.get('callee_crate') or ''
            if re.match(r'(ibig|dashu|malachite|num_bigint|rug)', kr):
                users.add(strip_generics(b['path']))
    helpers = {strip_generics(h) for h in private_helpers_of(ref, ref.body_by_suffix(PRED))}
    bad = sorted(u for u in users if not u.endswith(PRED) and '::tests::' not in u and u not in helpers)
    ctx.check('C11.R3', 'backend-calls-confined@default', not bad and users, 'callers of backend crates: %s' % sorted(users), 'only ' + PRED, None, key_extra='callers:default')


CFG_RX = re.compile(r'feature\s*=\s*"(ibig|dashu|malachite|malachite-base|malachite-nz|num_bigint|rug)"')


def macro_blocks(lines):
    """(name, first line, last line) of the `macro_rules!` items of a file (brace matching on the raw text; comments cannot unbalance a definition
    that compiles in practice, and a wrong span only makes the rule stricter or reports a site)."""
    out = []
    i = 0
    while i < len(lines):
        m = re.match(r'\s*macro_rules!\s+(\w+)', lines[i])
        if not m:
            i += 1
            continue
        depth = 0
        j = i
        started = False
        while j < len(lines):
            code = lines[j].split('//')[0]
            depth += code.count('{') + code.count('(') + code.count('[') - code.count('}') - code.count(')') - code.count(']')
            if '{' in code or '(' in code:
                started = True
            if started and depth <= 0:
                break
            j += 1
        out.append((m.group(1), i + 1, j + 1))
        i = j + 1
    return out


def macro_confined(name, macros, repo, lo, hi, depth=0):
    if depth > 4:
        return False
    rx = re.compile(r'\b%s!\s*[\(\[\{]' % re.escape(name))
    uses = 0
    for root, dirs, files in os.walk(os.path.join(repo, 'src')):
        for fn in files:
            if not fn.endswith('.rs'):
                continue
            p = os.path.join(root, fn)
            rel = os.path.relpath(p, repo)
            for i, l in enumerate(open(p, encoding='utf-8', errors='replace').read().split('\n'), 1):
                code = l.split('//')[0]
                if not rx.search(code) or re.match(r'\s*macro_rules!', code):
                    continue
                uses += 1
                if rel != 'src/geometry.rs':
                    return False
                if lo <= i <= hi:
                    continue
                inside = [m for m in macros if m[1] <= i <= m[2] and m[0] != name]
                if not inside or not all(macro_confined(m[0], macros, repo, lo, hi, depth + 1) for m in inside):
                    return False
    return uses > 0


def r4(ctx, Fs):
    F = Fs['default']
    pb = F.body_by_suffix(PRED)
    repo = os.environ.get('MV_REPO', '/repo')
    lo, hi = pb['line'], pb.get('body_end_line') or pb.get('end_line') or pb['line']
    sites = []
    n = 0
    helper_spans = []
    for Fx in Fs.values():
        pbx = Fx.body_by_suffix(PRED)
        for hp in private_helpers_of(Fx, pbx):
            hb_ = Fx.by_path[hp][0]
            if hb_.get('file') == 'src/geometry.rs':
                helper_spans.append((hb_['line'], hb_.get('body_end_line') or hb_.get('end_line') or hb_['line']))
    for root, dirs, files in os.walk(os.path.join(repo, 'src')):
        for fn in files:
            if not fn.endswith('.rs'):
                continue
            p = os.path.join(root, fn)
            rel = os.path.relpath(p, repo)
            lines = open(p, encoding='utf-8', errors='replace').read().split('\n')
            # first item line of geometry.rs: imports end where the first non-use, non-attribute, non-comment line starts
            header_end = 0
            if rel == 'src/geometry.rs':
                for i, l in enumerate(lines, 1):
                    s = l.strip()
                    if s == '' or s.startswith('//') or s.startswith('#[') or s.startswith('use ') or s.startswith('#!['):
                        header_end = i
                        continue
                    break
            in_ce = False
            macros = macro_blocks(lines) if rel == 'src/geometry.rs' else []
            for i, l in enumerate(lines, 1):
                if not CFG_RX.search(l) or l.strip().startswith('//'):
                    continue
                n += 1
                where_ok = False
                if rel == 'src/geometry.rs' and (i <= header_end or lo <= i <= hi):
                    where_ok = True
                if rel == 'src/geometry.rs' and not where_ok:
                    # a private helper function of the predicate that exists per backend (`#[cfg(feature = ..)] fn sign_of(..)`): part of the predicate
                    # (R1/R2 evaluate it inlined; R3 compares every other body across the builds)
                    for hb in helper_spans:
                        if hb[0] - 4 <= i <= hb[1]:
                            where_ok = True
                if rel == 'src/geometry.rs' and not where_ok:
                    # inside a helper macro of the predicate: allowed when every expansion of that macro lies inside the predicate (or inside another
                    # such macro) — R3 compares all other bodies across the builds, so an expansion elsewhere would show there as well
                    for name, a, b in macros:
                        if a <= i <= b and macro_confined(name, macros, repo, lo, hi):
                            where_ok = True
                        # ... or on the macro definition itself (a helper macro that exists per backend): only attributes and comments in between
                        if i < a and a - i <= 8 and all(x.strip() == '' or x.strip().startswith(('//', '#[')) for x in lines[i:a - 1]) \
                                and macro_confined(name, macros, repo, lo, hi):
                            where_ok = True
                if rel == 'src/lib.rs':
                    # the mutual-exclusion block: a #[cfg(any(all(..)))] followed by compile_error!
                    j = i
                    while j <= len(lines) and 'compile_error!' not in lines[j - 1] and j < i + 40:
                        j += 1
                    where_ok = j <= len(lines) and 'compile_error!' in lines[j - 1]
                if not where_ok:
                    sites.append('%s:%d' % (rel, i))
    ctx.check('C11.R4', 'cfg-sites-confined', not sites, 'backend cfg attributes outside the compared regions: %s' % (sites or 'none'), 'only geometry.rs imports, the exact predicate, and the exclusivity check in lib.rs', None, key_extra='cfg:%s' % ','.join(s.split(':')[0] for s in sites[:3]))
    ctx.floor('C11.R4', 'backend cfg attributes found', n, 10)
