import re
"""C17 — neighbour candidates are enumerated completely and in order of distance (structural clauses)."""
from .. import interp as I, nf, dtab
from ..nf import RF, as_rf
from ..tables import c3
from ..facts import AnalysisIncomplete, strip_generics, calls, callee_name
from .util import *
from . import routes

META = {
    'level': 'other',
    'configs': {'quick': ['default'], 'thorough': ['default', 'norayon', 'default_nodebug']},
    'rules': {
        'R1': 'min-first: the wrapped search keeps its frontier in a std BinaryHeap (max-heap) whose element order compares other.distance with self.distance '
              '(reversed natural order), so pop() yields the smallest key; PartialOrd/PartialEq are consistent with Ord',
        'R2': 'keys: a leaf is keyed by |q + s - g|^2, which equals |q - (g + reported shift)|^2, the position the builder uses; heap entries carry the key computed '
              'for their own node and the shift they were inserted under; a popped leaf is reported with its own key and shift; a popped parent is expanded under its own shift; the search step is decided by the kind of the popped entry alone '
              '(always expand a parent, always report a leaf, end only on an empty frontier: no cut-off on the key)',
        'R3': 'envelope bound: a parent is keyed by sum_c (clamp(q_c + s_c, lo_c, hi_c) - q_c - s_c)^2 with all four quantities of the same axis; at lo = hi = g it equals the leaf key '
              '(hence a lower bound for every leaf inside the envelope)',
        'R4': 'image enumeration (C06.R1): every root child under each of the 3^d lattice shifts, once',
        'R5': 'plain search: distance_2 is the squared Euclidean distance to the generator, the envelope is the generator\'s point, the query is the generator position, items are (id, None)',
        'R6': 'reported shift == -(query shift), None iff zero (C03.R4)',
        'R7': 'the builder consumes the candidate stream itself: exactly the first item (the generator, unshifted) is taken off before the loop and no filtering/truncating adaptor sits between the search and the clipping loop (C01.R1)',
    },
    'explanation': 'Decides the ingredients that make best-first search over the r-tree enumerate candidates completely and in non-decreasing distance: heap discipline '
                   '(R1), exact keys for leaves and admissible bounds for parents as polynomial identities (R2, R3), the seeds (R4), the plain search contract that rstar '
                   'relies on (R5) and the reported shift (R6). Not decided: the traversal of a runtime tree itself (it follows from R1-R4 by the standard best-first argument, '
                   'given rstar\'s invariant that envelopes contain their children).',
    'trusted_base': ['std BinaryHeap is a max-heap w.r.t. Ord', 'rstar 0.12: envelopes contain their children; nearest_neighbor_iter yields by non-decreasing distance_2', 'E0 extractor'],
    'assumptions': ['real arithmetic', 'finite keys'],
}


def run(ctx):
    for cfg in ctx.configs_used:
        F = ctx.facts(cfg)
        sfx = '' if cfg == 'default' else '@' + cfg
        for fn in (r1, r2, r3, r4, r5, r6, r7):
            rule = 'C17.' + fn.__name__.upper()
            ctx.guarded(rule, 'evaluate' + sfx, lambda: fn(ctx, F, rule, sfx))


def wrapped(F):
    from . import c06
    return c06.wrapped_ctor(F)


def heap_elem_type(F):
    a = None
    for x in F.adts:
        if x['path'].endswith('RTreeWrappingNearestNeighbourIter'):
            a = x
    if a is None:
        raise AnalysisIncomplete('wrapped search iterator type not found')
    heap = [f for f in a['variants'][0]['fields'] if 'BinaryHeap<' in f['ty']]
    if len(heap) != 1:
        raise AnalysisIncomplete('the wrapped search has %d BinaryHeap fields' % len(heap))
    ty = heap[0]['ty']
    inner = ty[ty.index('BinaryHeap<') + len('BinaryHeap<'):-1]
    rev = inner.startswith('std::cmp::Reverse<')
    if rev:
        inner = inner[len('std::cmp::Reverse<'):-1]
    return a, heap[0], inner, rev


def wrapper_sym(name):
    return I.St('W', 'W', {'distance': RF.sym('d' + name)}, I.Sym(nf.sym_atom(name), 'W'))


def r1(ctx, F, rule, sfx):
    a, field, elem, rev = heap_elem_type(F)
    ctx.check(rule, 'frontier-is-binary-heap' + sfx, field['ty'].startswith('std::collections::BinaryHeap<'), field['ty'][:100], 'std::collections::BinaryHeap<..>', '%s:%s' % (a['file'], a['line']), key_extra='heap')
    base = strip_generics(elem.split('<')[0])
    cmpb = [b for b in F.bodies if b.get('impl_trait') == 'std::cmp::Ord' and b['path'].endswith('::cmp') and base in b['path']]
    if len(cmpb) != 1:
        raise AnalysisIncomplete('Ord::cmp impls for the heap element %s: %d' % (base, len(cmpb)))
    cmpb = cmpb[0]
    ip = I.Interp(F)
    A, B_ = wrapper_sym('a'), wrapper_sym('b')
    v, _ = ip.call_body(cmpb, [ip.ref_to(A), ip.ref_to(B_)])
    ctx.evaluations += ip.evaluations
    ev = [e for e in ip.events if e.callee and e.callee.endswith('partial_cmp')]
    txt = repr(v)
    order = None
    if len(ev) == 1:
        x, y = [repr(z) for z in ev[0].fargs]
        flipped = 'reverse' in txt
        if (x, y) == ('da', 'db'):
            order = 'reversed' if flipped else 'natural'
        elif (x, y) == ('db', 'da'):
            order = 'natural' if flipped else 'reversed'
    want = 'natural' if rev else 'reversed'
    ctx.check(rule, 'pop-yields-minimum' + sfx, order == want, 'cmp(a, b) = %s: %s order of the distance%s' % (txt[:80], order, ' inside Reverse<>' if rev else ''),
              'max-heap popping the smallest distance (%s comparison)' % want, where(cmpb), key_extra='order:%s' % order)
    only = ev and all(r in ('da', 'db') for e in ev for r in [repr(z) for z in e.fargs])
    ctx.check(rule, 'order-depends-on-key-only' + sfx, bool(only), 'compared values: %s' % [[repr(z) for z in e.fargs] for e in ev], 'the two distances', where(cmpb), key_extra='key-only')
    # PartialOrd / PartialEq consistency
    pc = [b for b in F.bodies if b.get('impl_trait') == 'std::cmp::PartialOrd' and b['path'].endswith('::partial_cmp') and base in b['path']]
    if len(pc) == 1:
        ip = I.Interp(F, no_inline=[cmpb['path']])
        v, _ = ip.call_body(pc[0], [ip.ref_to(A), ip.ref_to(B_)])
        ctx.evaluations += ip.evaluations
        ok = isinstance(v, I.St) and v.variant == 'Some' and repr(v.fields[0]).startswith('call:') and '::cmp(' in repr(v.fields[0]) and repr(v.fields[0]).index('..a') < repr(v.fields[0]).index('..b')
        ctx.check(rule, 'partial_cmp-is-Some-cmp' + sfx, ok, repr(v)[:120], 'Some(self.cmp(other))', where(pc[0]), key_extra='partial')
    pe = [b for b in F.bodies if b.get('impl_trait') == 'std::cmp::PartialEq' and b['path'].endswith('::eq') and base in b['path']]
    if len(pe) == 1:
        ip = I.Interp(F)
        v, _ = ip.call_body(pe[0], [ip.ref_to(A), ip.ref_to(B_)])
        ok = repr(v) in ('(da == db)', '(db == da)', 'b:call:std::cmp::PartialEq::eq(da, db)', 'b:call:std::cmp::PartialEq::eq(db, da)')
        ctx.check(rule, 'eq-compares-keys' + sfx, ok, repr(v), 'self.distance == other.distance', where(pe[0]), key_extra='eq')


Q = [RF.sym('q%d' % i) for i in range(3)]
S = [RF.sym('s%d' % i) for i in range(3)]


def qs(ip):
    return ip.ref_to(I.arr(list(Q))), ip.ref_to(I.arr(list(S)))


def gen_sym():
    return I.St('voronoi::generator::Generator', 'Generator', {'loc': I.sym_vec3('g'), 'id': RF.sym('id')})


def leaf_key(ctx, F):
    le = F.body('<voronoi::generator::Generator as rtree_nn::WrappingPointDistance>::wrapping_distance_2')
    ip = I.Interp(F)
    ip.unroll_limit = 8
    q, s = qs(ip)
    v, _ = ip.call_body(le, [ip.ref_to(gen_sym()), q, s])
    ctx.evaluations += ip.evaluations
    return le, as_rf(v)


def same_places(x, named):
    """Rewrite atoms of x whose printed form equals that of one of the `named` forms onto it (a place reached through a
    projection and the same place named directly are one quantity)."""
    want = {repr(n): n for n in named}
    mp = {}
    for a in I.atoms_deep(x).values():
        if repr(a) in want:
            mp[a] = want[repr(a)]
    return as_rf(I.subst(x, mp)) if mp else x


def semantic_entry_keys(ctx, F, cl, env_of=None):
    """The heap-entry closure with every crate helper inlined: (ok, text) for the leaf key and for the parent key."""
    ip = I.Interp(F)
    ip.unroll_limit = 8
    q, s = qs(ip)
    env = {}
    for i, u in enumerate(cl.get('upvars') or []):
        if 'query' in u['name'] or 'shift' in u['name']:
            env[i] = q if 'query' in u['name'] else s
        else:
            ty = (u.get('ty') or '').strip()
            base = ty.lstrip('&').replace('mut ', '', 1).strip()
            v0 = RF.sym('capture.' + u['name']) if I.is_scalar_ty(base) else I.Sym(nf.sym_atom('capture.' + u['name']), base)
            env[i] = ip.ref_to(v0) if ty.startswith('&') else v0
    gs = gen_sym()
    child = I.Sym(nf.sym_atom('child'), 'rstar::RTreeNode<voronoi::generator::Generator>')
    v, _ = ip.call_body(cl, [ip.ref_to(I.St('closure:' + cl['path'], None, env), mut=True), ip.ref_to(child)])
    ctx.evaluations += ip.evaluations
    if isinstance(v, I.Ite) or (isinstance(v, I.St) and v.variant in ('Some', 'None')):
        kept = [leaf.fields[0] for conds, leaf in cases(v) if isinstance(leaf, I.St) and leaf.variant == 'Some']
        if len(kept) != 1:
            raise AnalysisIncomplete('heap entry closure yields %d different entries' % len(kept))
        v = kept[0]
    dist = I.get_field(v, 'distance')

    def classify(leaf):
        d = dtab.is_discr_eq(leaf)
        if d is not None and repr(d[0]) == 'child':
            return ('LEAF', (d[1] == 0) == d[2])
        return None
    tab = dtab.Table(['LEAF'], classify).tabulate(dist)
    out = []
    # leaf: |q + s - g|^2 with g the location of child.Leaf.0
    lv = tab[(True,)]
    gx = [RF.sym('child.Leaf.0.loc.' + c) for c in 'xyz']
    want = RF.const(0)
    for c in range(3):
        want = want + (Q[c] + S[c] - gx[c]) ** 2
    try:
        got = same_places(as_rf(lv), gx)
        out.append((got == want, 'key - |q+s-g|^2 = %s' % repr(got - want)[:130]))
    except TypeError:
        raise AnalysisIncomplete('leaf entry key is not a rational form: %s' % repr(lv)[:100])
    pv = tab[(False,)]
    bb = I.Sym(nf.app_atom('call:rstar::ParentNode::envelope', I.Sym(nf.sym_atom('child.Parent.0'), 'rstar::ParentNode<Generator>')), 'rstar::AABB<[f64; 3]>')
    lo = I.Sym(nf.app_atom('call:rstar::AABB::lower', I.frozen(bb)), '[f64; 3]')
    hi = I.Sym(nf.app_atom('call:rstar::AABB::upper', I.frozen(bb)), '[f64; 3]')
    want = RF.const(0)
    lohi = []
    for c in range(3):
        l = as_rf(I.get_index(lo, RF.const(c), 'f64'))
        h = as_rf(I.get_index(hi, RF.const(c), 'f64'))
        lohi += [l, h]
        t = Q[c] + S[c]
        want = want + (nf.fn_min(nf.fn_max(t, l), h) - t) ** 2
    try:
        got = same_places(as_rf(pv), lohi)
    except Exception:
        raise AnalysisIncomplete('parent entry key is not a rational form: %s' % repr(pv)[:100])
    if got != want and any(a.kind == 'app' and str(a.name).startswith('call:') and not str(a.name).endswith(('AABB::lower', 'AABB::upper')) for a in I.atoms_deep(got).values()):
        raise AnalysisIncomplete('parent entry key goes through a library routine this analysis has no model of: %s' % repr(got)[:160])
    out.append((got == want, 'key - bound = %s' % repr(got - want)[:130]))
    return out


def r2(ctx, F, rule, sfx):
    le, key = leaf_key(ctx, F)
    g = [RF.sym('g.' + c) for c in 'xyz']
    want = RF.const(0)
    want2 = RF.const(0)
    for c in range(3):
        want = want + (Q[c] + S[c] - g[c]) ** 2
        want2 = want2 + (Q[c] - (g[c] + (-S[c]))) ** 2
    ctx.check(rule, 'leaf-key' + sfx, key == want, repr(key)[:120], '|q + s - g|^2', where(le), key_extra='leaf')
    ctx.check(rule, 'leaf-key-is-distance-to-builder-position' + sfx, key == want2, 'key - |q - (g - s)|^2 = %r' % (key - want2,), '0 (reported shift is -s, C03.R4)', where(le), key_extra='leaf-builder')
    new, eh, nx = wrapped(F)
    # extend_heap pushes one entry per child
    ip = I.Interp(F)
    me = I.Sym(nf.sym_atom('it'), 'rtree_nn::RTreeWrappingNearestNeighbourIter<Generator>')
    children = I.Sym(nf.sym_atom('children'), '&[rstar::RTreeNode<voronoi::generator::Generator>]')
    ip.call_body(eh, [ip.ref_to(me, eh['locals'][1]['ty'], mut=True), children, I.arr(list(S))])
    ctx.evaluations += ip.evaluations
    ext = [e for e in ip.events if e.callee and e.callee.endswith('::extend') and e.body is eh]
    ok = False
    if len(ext) == 1:
        ch, src = stream_chain(ext[0].fargs[1])
        heap_field = heap_elem_type(F)[1]['name']
        ok = [n for n, _ in ch if n != 'rev'] in (['map', 'iter'], ['filter_map', 'iter']) and repr(src) == 'children' and repr(ext[0].fargs[0]).endswith('it.' + heap_field)     # (the heap orders the entries, not the insertion)
    ctx.check(rule, 'one-entry-per-child' + sfx, ok, 'extend calls: %d' % len(ext), 'self.nodes.extend(children.iter().map(entry))', where(eh), key_extra='extend')
    cl = [c_ for c_ in F.closures_of(eh) if '::{closure' not in c_['path'][len(eh['path']) + 2:].split('}', 1)[-1]]      # closures defined directly in extend_heap
    if len(cl) != 1:
        raise AnalysisIncomplete('closures in extend_heap: %d' % len(cl))
    cl = cl[0]
    ip = I.Interp(F, no_inline=[b['path'] for b in F.bodies if b['path'].endswith('wrapping_distance_2')])
    q, s = qs(ip)
    env = {}
    for i, u in enumerate(cl.get('upvars') or []):
        env[i] = q if 'query' in u['name'] else s if 'shift' in u['name'] else None
        if env[i] is None:
            # any other capture (a cut-off, a flag, ...) is a free symbol: whatever it is, it must not decide whether a child gets an entry
            ty = (u.get('ty') or '').strip()
            base = ty.lstrip('&').replace('mut ', '', 1).strip()
            v0 = RF.sym('capture.' + u['name']) if I.is_scalar_ty(base) else I.Sym(nf.sym_atom('capture.' + u['name']), base)
            env[i] = ip.ref_to(v0) if ty.startswith('&') else v0
    child = I.Sym(nf.sym_atom('child'), 'rstar::RTreeNode<voronoi::generator::Generator>')
    v, _ = ip.call_body(cl, [ip.ref_to(I.St('closure:' + cl['path'], None, env), mut=True), ip.ref_to(child)])
    ctx.evaluations += ip.evaluations
    w = where(cl)
    # an entry-building closure that can decline (filter_map): every child must get an entry — a child that is not pushed is never searched
    arms = cases(v) if isinstance(v, I.Ite) or (isinstance(v, I.St) and v.variant in ('Some', 'None')) else None
    if arms is not None and any(isinstance(leaf, I.St) and leaf.variant in ('Some', 'None') for _c, leaf in arms):
        dropped = [conds for conds, leaf in arms if isinstance(leaf, I.St) and leaf.variant == 'None']
        kept = [leaf.fields[0] for conds, leaf in arms if isinstance(leaf, I.St) and leaf.variant == 'Some']
        ctx.check(rule, 'every-child-gets-an-entry' + sfx, not dropped, 'no entry when %s' % ([' & '.join(repr(c)[:90] for c in cs) for cs in dropped][:1] or 'never'), 'one heap entry per child, unconditionally', w, key_extra='dropped-child')
        if len(kept) != 1:
            raise AnalysisIncomplete('heap entry closure yields %d different entries' % len(kept))
        v = kept[0]
    node = repr(I.frozen(I.get_field(v, 'node')))
    shift = repr(I.get_field(v, 'shift')).replace(' ', '')
    ctx.check(rule, 'entry-node-is-child' + sfx, node == 'child', node, 'the child being inserted', w, key_extra='node')
    ctx.check(rule, 'entry-shift-is-insertion-shift' + sfx, shift == 'array{0:s0,1:s1,2:s2}', shift, 'the shift passed to extend_heap', w, key_extra='shift')
    dist = I.get_field(v, 'distance')
    qa, sa = 'array{0: q0, 1: q1, 2: q2}', 'array{0: s0, 1: s1, 2: s2}'

    def classify(leaf):
        d = dtab.is_discr_eq(leaf)
        if d is not None and repr(d[0]) == 'child':
            # rstar::RTreeNode: Leaf = 0, Parent = 1
            return ('LEAF', (d[1] == 0) == d[2])
        return None
    T = dtab.Table(['LEAF'], classify)
    tab = T.tabulate(dist)
    lk = repr(tab[(True,)])
    pk = repr(tab[(False,)])
    okl = lk == 'call:<voronoi::generator::Generator as rtree_nn::WrappingPointDistance>::wrapping_distance_2(child.Leaf.0, %s, %s)' % (qa, sa)
    okp = pk == 'call:<rstar::AABB<[f64; 3]> as rtree_nn::WrappingEnvelope>::wrapping_distance_2(call:rstar::ParentNode::envelope(child.Parent.0), %s, %s)' % (qa, sa)
    if not (okl and okp):
        # not the two calls themselves: compare the keys as values (helpers inlined) with what those calls return (R2 leaf-key, R3 envelope-bound-shape)
        sl, sp = semantic_entry_keys(ctx, F, cl, env_of=lambda ip2: None)
        okl, lk = (okl, lk) if okl else sl
        okp, pk = (okp, pk) if okp else sp
    ctx.check(rule, 'leaf-entry-key' + sfx, okl, lk[-150:], 'leaf.wrapping_distance_2(query_point, shift)', w, key_extra='leaf-entry')
    ctx.check(rule, 'parent-entry-key' + sfx, okp, pk[-150:], 'parent.envelope().wrapping_distance_2(query_point, shift)', w, key_extra='parent-entry')
    # the search step
    ip = I.Interp(F, no_inline=[eh['path']])
    v, _ = ip.call_body(nx, [ip.ref_to(me, nx['locals'][1]['ty'], mut=True)])
    ctx.evaluations += ip.evaluations
    pop = [x for x in ip.events if x.callee and x.callee.endswith('BinaryHeap::<T, A>::pop')]
    if len(pop) != 1:
        raise AnalysisIncomplete('heap pops in the search step: %d' % len(pop))
    cur = repr(I.frozen(I.get_field(I.downcast(pop[0].result, 'Some'), 0)))
    some = None
    for conds, leaf in cases(v):
        if isinstance(leaf, I.St) and leaf.variant == 'Some':
            some = leaf
    if some is None and isinstance(v, I.St) and v.variant == 'Some':
        some = v
    ok = some is not None
    if ok:
        t = some.fields[0]
        got = [repr(I.frozen(I.get_field(t, i))) for i in range(3)]
        ok = got == [cur + '.node.Leaf.0', cur + '.distance', cur + '.shift']
    ctx.check(rule, 'popped-leaf-reported-with-own-key-and-shift' + sfx, ok, repr(v)[-200:], '(leaf, its distance, its shift) of the popped entry', where(nx), key_extra='report')
    evs = [e for e in ip.events if e.callee == eh['path']]
    ok = len(evs) == 1 and repr(evs[0].fargs[1]) == 'call:rstar::ParentNode::children(%s.node.Parent.0)' % cur and repr(evs[0].fargs[2]) == cur + '.shift'
    ctx.check(rule, 'popped-parent-expanded-under-own-shift' + sfx, ok, '%s' % ([repr(a)[-60:] for a in evs[0].fargs[1:]] if evs else 'no expansion'), 'extend_heap(children of the popped node, its shift)', where(nx), key_extra='expand')
    # ... and the step is decided by the KIND of the popped entry alone: a parent is always expanded, a leaf always reported, the stream ends only
    # when the frontier is empty — no cut-off on the key, no bound on the number of steps (every generator and every image is visited, however far)
    popr = re.escape(repr(I.frozen(pop[0].result)))
    kind = re.compile(r'^(\(discr\(%s(\.Some\.0(\.node)?)?\) (==|!=) \d\)|b:is_some\(%s\)|b:is_none\(%s\))$' % (popr, popr, popr))       # (`?` on the pop reads is_some)
    foreign = []
    for g in [g for e in evs for g in e.guard] + [c for conds, _leaf in cases(v) for c in conds]:
        for l in dtab.b_leaves(g).values():
            if not kind.match(repr(l)):
                foreign.append(repr(l)[:100])
    ctx.check(rule, 'search-step-decided-by-entry-kind-alone' + sfx, not foreign, sorted(set(foreign))[:3] or 'pop() is Some / node is Parent | Leaf', 'expansion, report and end of the stream depend on nothing but: frontier empty? parent or leaf?', where(nx), key_extra='step-conditions')


def r3(ctx, F, rule, sfx):
    en = F.body('<rstar::AABB<[f64; 3]> as rtree_nn::WrappingEnvelope>::wrapping_distance_2')
    ip = I.Interp(F)
    ip.unroll_limit = 8
    q, s = qs(ip)
    bb = I.Sym(nf.sym_atom('aabb'), 'rstar::AABB<[f64; 3]>')
    v, _ = ip.call_body(en, [ip.ref_to(bb), q, s])
    ctx.evaluations += ip.evaluations
    v = as_rf(v)
    lo = I.Sym(nf.app_atom('call:rstar::AABB::lower', I.frozen(bb)), '[f64; 3]')
    hi = I.Sym(nf.app_atom('call:rstar::AABB::upper', I.frozen(bb)), '[f64; 3]')
    want = RF.const(0)
    for c in range(3):
        l = as_rf(I.get_index(lo, RF.const(c), 'f64'))
        h = as_rf(I.get_index(hi, RF.const(c), 'f64'))
        t = Q[c] + S[c]
        want = want + (nf.fn_min(nf.fn_max(t, l), h) - t) ** 2
    w = where(en)
    if v != want:
        # accept the other clamp nesting max(min(t,h),l) only if equal after the point substitution below; report the shape
        ctx.bad(rule, 'envelope-bound-shape' + sfx, repr(v)[:200], 'sum_c (clamp(q_c + s_c, lo_c, hi_c) - q_c - s_c)^2', w, key_extra='shape')
    else:
        ctx.ok(rule, 'envelope-bound-shape' + sfx, 'sum_c (min(hi_c, max(q_c+s_c, lo_c)) - q_c - s_c)^2', 'clamped distance per axis, same axis for all four quantities', w)
    # degenerate envelope lo = hi = g  ->  leaf key
    le, key = leaf_key(ctx, F)
    mp = {}
    g = [RF.sym('g.' + c) for c in 'xyz']
    for c in range(3):
        for arr_ in (lo, hi):
            at = I.single_atom(as_rf(I.get_index(arr_, RF.const(c), 'f64')))
            mp[at] = g[c]
    at_point = I.subst(v, mp)
    ctx.check(rule, 'bound-tight-at-point-envelope' + sfx, as_rf(at_point) == key, repr(as_rf(at_point) - key)[:120], 'equals the leaf key when lo = hi = g', w, key_extra='tight')


def r4(ctx, F, rule, sfx):
    from . import c06
    c06.r1(ctx, F, rule, sfx)


def r5(ctx, F, rule, sfx):
    d2 = F.body_by_suffix('::distance_2')
    ip = I.Interp(F)
    q = ip.ref_to(I.arr(list(Q)))
    v, _ = ip.call_body(d2, [ip.ref_to(gen_sym()), q])
    ctx.evaluations += ip.evaluations
    g = [RF.sym('g.' + c) for c in 'xyz']
    want = sum(((g[c] - Q[c]) ** 2 for c in range(3)), RF.const(0))
    ctx.check(rule, 'distance_2-is-squared-euclidean' + sfx, as_rf(v) == want, repr(v)[:100], '|g - q|^2', where(d2), key_extra='d2')
    eb = F.body_by_suffix('voronoi::generator::Generator>::envelope')
    ip = I.Interp(F)
    v, _ = ip.call_body(eb, [ip.ref_to(gen_sym())])
    ctx.evaluations += ip.evaluations
    ok = repr(v).replace(' ', '') == 'call:rstar::AABB::from_point(array{0:g.x,1:g.y,2:g.z})'
    ctx.check(rule, 'envelope-is-the-point' + sfx, ok, repr(v)[:100], 'AABB::from_point([g.x, g.y, g.z])', where(eb), key_extra='envelope')
    ni = F.body_by_suffix('rtree_nn::nn_iter')
    ip = I.Interp(F)
    v, _ = ip.call_body(ni, [I.Sym(nf.sym_atom('rtree'), '&rstar::RTree<Generator>'), I.sym_vec3('q')])
    ctx.evaluations += ip.evaluations
    ch, src = stream_chain(I.frozen(v))
    names = [n for n, _ in ch]
    okq = names == ['map', 'nearest_neighbor_iter'] and repr(src) == 'rtree' and repr(ch[1][1][0]).replace(' ', '') == 'array{0:q.x,1:q.y,2:q.z}'
    ctx.check(rule, 'plain-search-query' + sfx, okq, '%s over %r' % (' <- '.join(names), src), 'rtree.nearest_neighbor_iter(&[q.x, q.y, q.z]).map(..): unfiltered, in rstar\'s order', where(ni), key_extra='query')
    runs = [r for r in ip.closure_runs]
    ok = len(runs) == 1 and isinstance(runs[0]['result'], I.St) and repr(runs[0]['result'].fields[0]).endswith(').id') and getattr(runs[0]['result'].fields[1], 'variant', None) == 'None'
    ctx.check(rule, 'plain-search-items' + sfx, ok, repr(runs[0]['result'])[-80:] if runs else 'no closure', '(g.id(), None)', where(ni), key_extra='items')
    # build_rtree loads every generator
    br = F.body_by_suffix('rtree_nn::build_rtree')
    ip = I.Interp(F)
    v, _ = ip.call_body(br, [I.Sym(nf.sym_atom('generators'), '&[voronoi::generator::Generator]')])
    ok = repr(I.frozen(v)) == 'call:rstar::RTree::bulk_load(call:std::slice::<impl [T]>::to_vec(generators))'
    ctx.check(rule, 'tree-holds-every-generator' + sfx, ok, repr(I.frozen(v))[:120], 'RTree::bulk_load(generators.to_vec())', where(br), key_extra='tree')


def r6(ctx, F, rule, sfx):
    from . import c03
    c03.r4(ctx, F, rule, sfx)


def r7(ctx, F, rule, sfx):
    from . import c01
    c01.r1(ctx, F, rule, sfx)
