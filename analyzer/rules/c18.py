"""C18 — clipping a cell is independent of vertex storage order (necessary structural clauses of the cycle reconstruction)."""
import itertools, re
from .. import interp as I, nf, dtab
from ..nf import RF, as_rf
from ..facts import AnalysisIncomplete, strip_generics
from .util import *
from . import scen, c01

META = {
    'level': 'other',
    'configs': {'quick': ['default'], 'thorough': ['default', 'norayon', 'default_nodebug']},
    'rules': {
        'R1': 'one attachment step means the same for every rotation of the offered plane triple: try_extend(a,b,c), evaluated abstractly on a symbolic cycle, '
              'equals the edge surgery "insert t_i between t_k and t_j / contract t_k->t_j->t_i / otherwise leave the cycle untouched and return Err" in every row of its '
              'decision table (C01.R7), and on every row that a simple cycle can realise the three rotations (a,b,c), (b,c,a), (c,a,b) produce the same cycle '
              '(same successor stores, same length change, start kept on the cycle, same Ok/Err)',
        'R2': 'the boundary reconstruction is a selection loop over the removed vertices: position i (1..n) is filled by scanning candidates i, i+1, ... in steps of one, '
              'a candidate is skipped only when try_extend returned Err for it, the accepted candidate is exchanged with position i (so attached vertices are exactly the '
              'prefix and no vertex is offered again or dropped), and running out of candidates panics instead of returning a partial cycle',
        'R3': 'the removal pass is a partition loop that classifies every stored vertex exactly once by a test of that vertex alone: cursor from 0 while cursor < live count; '
              'a removed vertex is exchanged with the last live slot, the live count decreases and the cursor stays (the exchanged-in vertex is examined next); a kept vertex '
              'advances the cursor by one; the decision depends on the examined vertex and the new plane only, never on the cursor or on the counters',
        'R4': 'no state leaks from one clip into the next: SimpleCycle::init walks exactly `len` nodes from `start` along the successor table, resets each visited node to '
              '"not on the cycle" after reading its successor, and only then installs the new triangle; grow() appends a node that is not on the cycle',
        'R6': 'no fixed capacity: the cycle bookkeeping and the clip routine hold one entry per clipping plane / vertex in growable storage — no shift by a run-time index '
              '(a membership bit mask in a machine word aliases plane i with plane i - 64: a cell with more than 58 neighbours gets another polytope, or none) and no fixed-size '
              'array indexed by a plane or vertex number, no plane / vertex index narrowed below 32 bits',
        'R5': 'the new vertices are a function of the cycle only: one vertex per consecutive pair (cur, next) of the closed walk (len + 1 items from start), built from '
              '(cur, next, index of the plane just pushed) — three planes per vertex — and appended after the removed vertices were truncated away',
    },
    'explanation': 'Decides the code-shape part of order independence. The reconstructed boundary is the boundary of the union of the removed vertices\' dual triangles; '
                   'that union does not depend on the order in which triangles are attached provided (R1) one attachment step is the edge surgery it claims to be and treats the '
                   'three rotations of a triple alike, (R2) the scan offers every not-yet-attached removed vertex, never offers an attached one again and cannot end silently '
                   'with vertices left over, (R3) the set of removed vertices itself is computed by a per-vertex test that visits every stored vertex exactly once whatever '
                   'the storage order, (R4) the cycle carries nothing over from the previous clip, and (R5) the new vertices are derived from the cycle alone, three planes each. '
                   'Each clause is necessary: breaking it makes the result depend on storage order or triple rotation for some cell. Not decided: that an attachable '
                   'triangle always exists for a connected removed set (extendable shellability of the removed disc — a property of reachable states) and equality of the '
                   'resulting volumes (numeric); the property as a whole therefore stays partially decided.',
    'trusted_base': ['std slice::swap, Vec::truncate/push, Range and Take iterator semantics', 'E0 extractor'],
    'assumptions': ['a, b, c of one dual triple are pairwise distinct plane indices (three different planes meet in a vertex)',
                    'the cycle invariant (successor table restricted to the cycle is a single simple cycle through `start` of length `len`) holds on entry; R1/R4 show each operation re-establishes it'],
}


def run(ctx):
    for cfg in ctx.configs_used:
        F = ctx.facts(cfg)
        sfx = '' if cfg == 'default' else '@' + cfg
        for fn in (r1, r2, r3, r4, r5, r6):
            rule = 'C18.' + fn.__name__.upper()
            ctx.guarded(rule, 'evaluate' + sfx, lambda: fn(ctx, F, rule, sfx))


# ------------------------------------------------------------------------------------------------------------------
def feasible(env):
    """Rows a simple cycle through `start` can realise, with a, b, c pairwise distinct."""
    T = c01.T3
    P = lambda x, y: env['P%s%s' % (x, y)]
    for x in T:
        # the successor table is a function
        if sum(1 for y in T if P(x, y)) > 1:
            return False
    for y in T:
        # ... and injective on the cycle; a node that is not on the cycle (self pointer) is nobody's successor
        preds = [x for x in T if x != y and P(x, y)]
        if len(preds) > 1:
            return False
        if P(y, y) and preds:
            return False
    starts = [x for x in T if env['S' + x]]
    if len(starts) > 1:
        return False
    if starts and P(starts[0], starts[0]):
        return False          # start is on the cycle
    return True


def r1(ctx, F, rule, sfx):
    te, atoms, names, outcomes = c01.try_extend_outcomes(ctx, F)
    w = where(te)
    T = c01.T3
    bad = []
    for env, gm, gbase, got_len, got_start, gres in outcomes:
        exp_st, exp_len, exp_start, exp_res = c01.try_extend_spec(env)
        ok = gm == exp_st and gbase == 'P' and got_len.is_const() and got_len.const_value() == exp_len and got_start == (exp_start or 'S') and gres == exp_res
        if not ok:
            bad.append((dtab.fmt_env({k: v for k, v in env.items() if k in atoms and v}), gm, gres))
    ctx.check(rule, 'attachment-step-is-edge-surgery' + sfx, not bad, '%d of %d rows differ%s' % (len(bad), len(outcomes), (': e.g. [%s] -> stores %s, %s' % bad[0]) if bad else ''),
              'insert / contract / unchanged+Err in all rows', w, key_extra='surgery')
    # rotation invariance, read off the table of the code itself
    table = {}
    for env, gm, gbase, got_len, got_start, gres in outcomes:
        table[tuple(env[n] for n in names)] = (gm, gbase, repr(got_len), got_start, gres)
    rot = {'a': 'b', 'b': 'c', 'c': 'a'}          # calling with (b, c, a): formal a is actual b, ...
    inv = {v: k for k, v in rot.items()}
    diff = []
    rows = 0
    for env, gm, gbase, got_len, got_start, gres in outcomes:
        if not feasible(env):
            continue
        # the one state in which the triple is the whole (reversed) cycle: contracting it leaves no polytope at all
        if all(env['P%s%s' % (x, y)] for x, y in (('c', 'b'), ('b', 'a'), ('a', 'c'))):
            continue
        rows += 1
        # environment seen by the rotated call: its formal x is the actual rot[x]
        env2 = {}
        for n in names:
            if n[0] == 'P':
                env2[n] = env['P%s%s' % (rot[n[1]], rot[n[2]])]
            else:
                env2[n] = env['S' + rot[n[1]]]
        if any(env2[n] for n in names if n not in atoms):
            # the code never looks at this atom: its value cannot matter
            env2 = {n: (env2[n] if n in atoms else False) for n in names}
        gm2, gb2, l2, s2, r2_ = table[tuple(env2[n] for n in names)]
        gm2 = {rot[k]: rot[v] for k, v in gm2.items()}
        s2 = rot.get(s2, s2)
        if (gm2, gb2, l2, s2, r2_) != (gm, gbase, repr(got_len), got_start, gres):
            diff.append((dtab.fmt_env({k: v for k, v in env.items() if v}), (gm, gres), (gm2, r2_)))
    ctx.check(rule, 'rotations-of-the-triple-agree' + sfx, not diff and rows >= 8,
              '%d of %d realisable rows differ between (a,b,c) and (b,c,a)%s' % (len(diff), rows, (': e.g. [%s]: %s vs %s' % diff[0]) if diff else ''),
              'identical cycle after either call (hence after all three rotations)', w, key_extra='rotation')


# ------------------------------------------------------------------------------------------------------------------
def _scalar_phis(L):
    out = {}
    for i, (a, p) in enumerate(zip(L['init'], L['phi'])):
        if a is not None and p is not None and a is not p and isinstance(p, RF):
            out[i] = (a, p)
    return out


def r2(ctx, F, rule, sfx):
    cb = F.body_by_suffix('ConvexCell::compute_boundary')
    no = [b['path'] for b in F.bodies if 'simple_cycle::SimpleCycle' in b['path']]
    ip = I.Interp(F, no_inline=no)
    vs = I.Sym(nf.sym_atom('vs'), '&mut [voronoi::convex_cell::Vertex]')
    ip.call_body(cb, [ip.ref_to(I.Sym(nf.sym_atom('cyc'), 'simple_cycle::SimpleCycle'), mut=True), vs])
    ctx.evaluations += ip.evaluations
    w = where(cb)
    tev = [e for e in ip.events if e.callee and e.callee.endswith('SimpleCycle::try_extend')]
    if len(tev) != 1:
        raise AnalysisIncomplete('try_extend call sites in the boundary reconstruction: %d' % len(tev))
    te = tev[0]
    loops = [L for L in ip.loops if L['body'] is cb]
    run = [rr for rr in ip.closure_runs if te in rr['events'] and rr['adaptor'] in ('find', 'position', 'find_map')]
    if run:
        return r2_search_form(ctx, F, rule, sfx, ip, cb, te, run[0], loops, w)
    inner = [L for L in loops if event_block(te) in L['blocks']]
    if not inner:
        raise AnalysisIncomplete('try_extend is not called in a loop')
    inner.sort(key=lambda L: len(L['blocks']))
    Li = inner[0]
    outer = inner[1] if len(inner) > 1 else None
    if outer is None:
        raise AnalysisIncomplete('scan loop is not nested in a loop over positions')
    # candidate cursor: the index of the offered vertex
    m = re.match(r'^(.*)\[(.+)\]\.dual\[0\]$', repr(te.fargs[1]))
    if not m:
        raise AnalysisIncomplete('offered triple not recognised: %r' % (te.fargs[1],))
    cur_txt = m.group(2)
    sc = _scalar_phis(Li)
    cur = [(i, a, p) for i, (a, p) in sc.items() if repr(p) == cur_txt]
    if len(cur) != 1:
        raise AnalysisIncomplete('candidate cursor %s is not a loop-carried scalar of the scan loop' % cur_txt)
    ci, cinit, cphi = cur[0]
    # the position being filled: the item of the outer range
    pos = as_rf(cinit)
    ptxt = repr(pos)
    o_rng = [repr(I.frozen(x)).replace(' ', '') for x in outer['init'] if x is not None and 'Range{' in repr(I.frozen(x))]
    ok_pos = '::next(' in ptxt and ptxt.endswith('.Some.0') and any(x == 'Range{start:1,end:len(vs)}' for x in o_rng)
    ctx.check(rule, 'scan-starts-at-the-position-being-filled' + sfx, ok_pos, 'cursor starts at %s; positions %s' % (ptxt[-60:], o_rng[:1]), 'idx = i for i in 1..vertices.len()', w, key_extra='scan-start')
    # back edges: cursor + 1, only after Err
    res_atom = None
    backs = Li['back']
    ok_back = len(backs) >= 1
    obs = []
    for g, vals in backs:
        nv = vals.get(ci)
        step = isinstance(nv, RF) and (nv - cphi).is_const() and (nv - cphi).const_value() == 1
        gtxt = ' & '.join(repr(x) for x in g)
        after_err = 'try_extend' in gtxt
        obs.append('%s when %s' % (repr(nv)[-40:], gtxt[-80:]))
        ok_back = ok_back and step and after_err
    # which discriminant is Err: evaluate the guards — the swap/exit side is the complement
    ctx.check(rule, 'scan-advances-by-one-after-a-refusal' + sfx, ok_back, obs[:2], 'idx += 1 on the Err arm only', w, key_extra='scan-step')
    # the Err/Ok polarity: the back edge guard and the swap guard must test the same try_extend result with opposite outcome
    sw = [e for e in ip.events if e.callee and e.callee.endswith('::swap') and e.body is cb]
    def discr_leaf(g):
        for x in g:
            for l in dtab.b_leaves(x).values():
                d = dtab.is_discr_eq(l)
                if d is not None and 'try_extend' in repr(d[0]):
                    return d
        return None
    db = discr_leaf(backs[0][0]) if backs else None
    # Result<(),()>: Ok = 0, Err = 1
    ok_pol = db is not None and ((db[1] == 1) == db[2])
    ctx.check(rule, 'refusal-is-the-Err-arm' + sfx, ok_pol, 'back edge taken when discr(try_extend) %s %s' % (('==' if db and db[2] else '!='), db[1] if db else '?'), 'discr == Err', w, key_extra='scan-polarity')
    ok_sw = len(sw) == 1
    if ok_sw:
        e = sw[0]
        args = {repr(as_rf(e.fargs[1])), repr(as_rf(e.fargs[2]))}
        ok_sw = args == {ptxt, cur_txt}
        ds = discr_leaf(e.guard)
        # outside the scan loop the acceptance condition is implied by the loop's only normal exit (checked below); when the
        # exchange is written inside the loop it must sit on the Ok arm
        if ds is not None:
            ok_sw = ok_sw and ((ds[1] == 0) == ds[2])
        elif event_block(e) in Li['blocks']:
            ok_sw = False
        # any further condition on the swap may only exclude cursor == position (where the exchange is the identity)
        extra = []
        for x in e.guard:
            for l in dtab.b_leaves(x).values():
                if 'try_extend' in repr(l) or ('Range' in repr(l) and 'discr' in repr(l)):
                    continue
                extra.append(l)
        for l in extra:
            if not (l.op == 'cmp' and {repr(l.args[1]), repr(l.args[2])} == {ptxt, cur_txt}):
                ok_sw = False
            elif l.op == 'cmp':
                # the guard must hold whenever cursor > position
                op = l.args[0]
                lhs_is_pos = repr(l.args[1]) == ptxt
                holds_when_greater = (op in ('<', '<=', '!=')) if lhs_is_pos else (op in ('>', '>=', '!='))
                if not holds_when_greater:
                    ok_sw = False
        obs_sw = 'swap(%s) guard %s' % (', '.join(sorted(a[-30:] for a in args)), [repr(l)[-70:] for l in extra])
    else:
        obs_sw = '%d swap call(s)' % len(sw)
    ctx.check(rule, 'accepted-vertex-moves-to-the-filled-position' + sfx, ok_sw, obs_sw, 'vertices.swap(i, idx) on the Ok arm (may be skipped only when idx == i)', w, key_extra='scan-swap')
    # every normal way out of the scan loop (panic edges are not normal) is taken under "try_extend returned Ok"
    def val_err(leaf):
        d = dtab.is_discr_eq(leaf)
        if d is not None and 'try_extend' in repr(d[0]):
            return (d[1] == 1) == d[2]            # the result is Err
        return True                                # any other condition: assume it lets the exit through
    leaks = []
    nexits = 0
    for blk, g in Li.get('exits', []):
        if diverges(cb, blk):
            continue
        nexits += 1
        if all(dtab.evaluate(x, val_err) for x in g):
            leaks.append('bb%d when %s' % (blk, ' & '.join(repr(x)[-60:] for x in g) or 'always'))
    ctx.check(rule, 'scan-ends-only-by-acceptance' + sfx, not leaks and nexits >= 1, leaks[:2] or '%d normal exit(s), all on the Ok arm' % nexits, 'break only after Ok', w, key_extra='scan-exit')
    # giving up (the panic) is allowed only when every remaining candidate has been offered: cursor >= number of removed vertices
    early = []
    ngive = 0
    lens = {'len(%s)' % repr(I.frozen(p_)) for a_, p_ in zip(Li['init'], Li['phi']) if p_ is not None} | {'len(vs)'}
    for blk, g in Li.get('exits', []):
        if not diverges(cb, blk) or cb['blocks'][blk]['term']['k'] == 'unreachable':
            continue            # (an `unreachable` arm of an exhaustive match is not a way out)
        ngive += 1
        full = False
        for x in g:
            for l in dtab.b_leaves(x).values():
                if l.op != 'cmp':
                    continue
                op, a_, b_ = l.args
                ta, tb = repr(a_), repr(b_)
                if ta == cur_txt and tb.startswith('len(') and tb.endswith(')') and 'min(' not in tb and op in ('>=', '=='):
                    full = True
                if tb == cur_txt and ta.startswith('len(') and ta.endswith(')') and 'min(' not in ta and op in ('<=', '=='):
                    full = True
        if not full:
            early.append('bb%d when %s' % (blk, ' & '.join(repr(x)[-70:] for x in g) or 'always'))
    ctx.check(rule, 'scan-gives-up-only-at-the-end' + sfx, not early, early[:2] or '%d panic exit(s), each under cursor >= len(vertices)' % ngive,
              'the search for an attachable vertex covers every remaining removed vertex before it panics', w, key_extra='scan-giveup')


def r2_search_form(ctx, F, rule, sfx, ip, cb, te, run, loops, w):
    """The same selection scan written with a library search: `(i..n).find(|&idx| try_extend(vs[idx].dual..).is_ok())` yields the first
    candidate from position i on (in steps of one, by the contract of Range and find) for which the predicate holds."""
    outer = [L for L in loops if any(event_block(e) in L['blocks'] for e in ip.events if e.term is run['term'])]
    if not outer:
        raise AnalysisIncomplete('the candidate search is not inside the loop over positions')
    Lo = sorted(outer, key=lambda L: len(L['blocks']))[0]
    stream = repr(I.frozen(run['stream']))
    m = re.match(r'^Range\{start: (.*), end: len\((.*)\)\}$', stream)
    o_rng = [repr(I.frozen(x)).replace(' ', '') for x in Lo['init'] if x is not None and 'Range{' in repr(I.frozen(x))]
    ptxt = m.group(1) if m else None
    ok_pos = bool(m) and '::next(' in ptxt and ptxt.endswith('.Some.0') and any(x == 'Range{start:1,end:len(vs)}' for x in o_rng)
    ctx.check(rule, 'scan-starts-at-the-position-being-filled' + sfx, ok_pos, 'candidates %s; positions %s' % (stream[-80:], o_rng[:1]), 'idx = i for i in 1..vertices.len()', w, key_extra='scan-start')
    # the offered triple is the candidate's, the predicate is "accepted"
    item = run['item']
    it = repr(I.frozen(item))
    a_ = [repr(x) for x in te.fargs[1:]]
    mm = re.match(r'^(.*)\[(.+)\]\.dual\[0\]$', a_[0])
    ok_arg = bool(mm) and mm.group(2) == it and a_ == ['%s[%s].dual[%d]' % (mm.group(1), it, k) for k in range(3)]
    ctx.check(rule, 'scan-advances-by-one-after-a-refusal' + sfx, ok_arg and run['adaptor'] in ('find', 'position'), 'library search `%s` over the candidate range, offering %s' % (run['adaptor'], a_[0][-50:]),
              'every candidate from the position on is offered once, in order (Range + find)', w, key_extra='scan-step')
    res = run['result']
    d = None
    if isinstance(res, I.B):
        for l in dtab.b_leaves(res).values():
            dd = dtab.is_discr_eq(l)
            if dd is not None and 'try_extend' in repr(dd[0]):
                d = (dd, dtab.evaluate(res, lambda leaf, l=l: True if leaf.key() == l.key() else False))
    # predicate true exactly when the result is Ok (discriminant 0)
    ok_pol = d is not None and (((d[0][1] == 0) == d[0][2]) == bool(d[1]))
    ctx.check(rule, 'refusal-is-the-Err-arm' + sfx, ok_pol, 'search predicate: %s' % repr(res)[-80:], 'the search stops at the first candidate accepted with Ok', w, key_extra='scan-polarity')
    sw = [e for e in ip.events if e.callee and e.callee.endswith('::swap') and e.body is cb]
    ok_sw = len(sw) == 1
    obs_sw = '%d swap call(s)' % len(sw)
    if ok_sw:
        e = sw[0]
        args = [repr(as_rf(e.fargs[1])), repr(as_rf(e.fargs[2]))]
        found = [a for a in args if run['adaptor'] in a and ('unwrap(' in a or '.Some.0' in a)]
        ok_sw = len(found) == 1 and ptxt in args and found[0] != ptxt
        for x in e.guard:
            for l in dtab.b_leaves(x).values():
                if 'Range' in repr(l) and 'discr' in repr(l):
                    continue
                if not (l.op == 'cmp' and {repr(l.args[1]), repr(l.args[2])} == set(args)):
                    ok_sw = False
                else:
                    op = l.args[0]
                    lhs_is_pos = repr(l.args[1]) == ptxt
                    if not ((op in ('<', '<=', '!=')) if lhs_is_pos else (op in ('>', '>=', '!='))):
                        ok_sw = False
        obs_sw = 'swap(%s)' % ', '.join(a[-40:] for a in args)
    ctx.check(rule, 'accepted-vertex-moves-to-the-filled-position' + sfx, ok_sw, obs_sw, 'vertices.swap(i, found) (may be skipped only when found == i)', w, key_extra='scan-swap')
    # no candidate accepted: unwrapping the empty search result panics
    ex = [e for e in ip.events if e.body is cb and e.callee and e.callee.endswith(('Option::<T>::expect', 'Option::<T>::unwrap')) and run['adaptor'] in repr(e.fargs[0])]
    ctx.check(rule, 'scan-ends-only-by-acceptance' + sfx, len(ex) >= 1, '%d unwrap/expect of the search result' % len(ex), 'expect(..) on the search result: no silent continuation without an accepted vertex', w, key_extra='scan-exit')


def diverges(body, blk, _seen=None):
    """Every path from `blk` ends in a call that never returns (panic) or in `unreachable`."""
    seen = _seen if _seen is not None else set()
    if blk in seen:
        return False
    seen.add(blk)
    from ..cfg import successors
    t = body['blocks'][blk]['term']
    if t['k'] in ('unreachable', 'resume', 'terminate'):
        return True
    if t['k'] == 'return':
        return False
    succ = successors(body['blocks'][blk])
    if t['k'] == 'call' and not succ:
        return True
    return bool(succ) and all(diverges(body, b, seen) for b in succ)


# ------------------------------------------------------------------------------------------------------------------
def r3(ctx, F, rule, sfx):
    sc = scen.build_scenario(F)
    cb = F.body(sc.clip_path)
    ip, selfref = c01.clip_scenario(F, cb)
    w = where(cb)
    sw = [e for e in ip.events if e.callee and e.callee.endswith('::swap') and e.body is cb]
    if len(sw) != 1:
        raise AnalysisIncomplete('vertex exchange sites in the clip routine: %d' % len(sw))
    sw = sw[0]
    loops = [L for L in ip.loops if L['body'] is cb and event_block(sw) in L['blocks']]
    if len(loops) != 1:
        raise AnalysisIncomplete('the exchange is not in exactly one loop')
    L = loops[0]
    sc_ = _scalar_phis(L)
    hc = [e for e in ip.events if e.callee and e.callee.endswith('HalfSpace::clip') and e.body is cb]
    if len(hc) != 1:
        raise AnalysisIncomplete('side-test call sites in the clip routine: %d' % len(hc))
    m = re.match(r'^(.*)\.vertices\[(.+)\]\.loc$', repr(hc[0].fargs[1]))
    if not m:
        raise AnalysisIncomplete('examined vertex not recognised: %r' % (hc[0].fargs[1],))
    cont_txt, cur_txt = m.group(1), m.group(2)
    cur = [(i, a, p) for i, (a, p) in sc_.items() if repr(p) == cur_txt]
    if len(cur) != 1:
        raise AnalysisIncomplete('examined index %s is not a loop-carried scalar' % cur_txt)
    ci, cinit, cphi = cur[0]
    # live count: the other operand of the loop condition
    hg = L['back'][0][0] if L['back'] else ()
    live = None
    cond = None
    for x in hg:
        if isinstance(x, I.B) and x.op == 'cmp' and cur_txt in (repr(x.args[1]), repr(x.args[2])):
            other = x.args[2] if repr(x.args[1]) == cur_txt else x.args[1]
            for i, (a, p) in sc_.items():
                if repr(p) == repr(other):
                    live = (i, a, p)
                    cond = x
    if live is None:
        raise AnalysisIncomplete('loop condition relating the cursor to a live count not found: %s' % [repr(x)[:80] for x in hg])
    li, linit, lphi = live
    op = cond.args[0]
    lhs_cur = repr(cond.args[1]) == cur_txt
    strict = (op == '<' and lhs_cur) or (op == '>' and not lhs_cur) or (op == '!=')
    ok_hdr = isinstance(cinit, RF) and cinit.is_zero() and strict and repr(as_rf(linit)).replace(' ', '') in ('len(cell.vertices)',)
    ctx.check(rule, 'pass-covers-all-stored-vertices' + sfx, ok_hdr, 'cursor from %r while %r; live count from %r' % (cinit, cond, linit), 'i = 0; num_v = vertices.len(); while i < num_v', w, key_extra='part-header')
    # the decision: leaves of the back-edge values other than the loop condition
    vals = L['back'][0][1]
    leaves = {}
    for i in (ci, li):
        leaves.update(dtab.b_leaves(vals.get(i)))
    dec = [l for k, l in leaves.items()]
    # single top-level decision atom: comparison of the side value with zero
    def is_removal_test(l):
        if l.op != 'cmp':
            return None
        a, b = l.args[1], l.args[2]
        for x, y, flip in ((a, b, False), (b, a, True)):
            if isinstance(y, RF) and y.is_zero() and not (isinstance(x, RF) and x.is_const()):
                o = l.args[0]
                if o in ('==', '!='):
                    return None
                if flip:
                    o = {'<': '>', '<=': '>=', '>': '<', '>=': '<=', '==': '==', '!=': '!='}[o]
                return o, x
        return None
    top = []
    for g, v in [(None, vals.get(ci)), (None, vals.get(li))]:
        if isinstance(v, RF):
            for a in I.atoms_deep(v).values():
                if a.kind == 'app' and a.name == 'ite' and isinstance(a.args[0], I.B):
                    t = is_removal_test(a.args[0])
                    if t is not None and 'HalfSpace::clip' in repr(t[1]):
                        top.append((a.args[0], t))
    keys = {t[0].key() for t in top}
    if len(keys) != 1:
        raise AnalysisIncomplete('removal decision not identified in the loop recurrences (%d candidates)' % len(keys))
    dleaf, (dop, dval) = top[0]
    # the tested value mentions the examined vertex and the new plane, not the cursor / counters on their own
    dtxt = repr(dval)
    dep_ok = ('%s.vertices[%s]' % (cont_txt, cur_txt)) in dtxt
    stripped = dtxt.replace('%s.vertices[%s]' % (cont_txt, cur_txt), 'V')
    counters = [repr(p) for i, (a, p) in sc_.items()]
    leak = [c for c in counters if c in stripped]
    ctx.check(rule, 'decision-depends-on-the-examined-vertex-only' + sfx, dep_ok and not leak, 'side value mentions %s%s' % ('vertices[cursor]' if dep_ok else 'no examined vertex', (' and the loop counters %s' % leak) if leak else ''),
              'a function of vertices[i], the new plane and the cell (not of i, num_v, num_r)', w, key_extra='part-decision')
    # recurrences on the two arms
    dforms = {dtxt}
    for b_ in (True, False):
        try:
            dforms.add(repr(dtab.evaluate(as_rf(dval), lambda leaf, b_=b_: b_)))
        except (AnalysisIncomplete, TypeError):
            pass

    def is_dec(leaf):
        # the side value as written, or with its tie gate resolved (filter value / exact predicate)
        t = is_removal_test(leaf)
        return t if (t is not None and repr(t[1]) in dforms) else None

    def under(removed):
        def val(leaf):
            t = is_dec(leaf)
            if t is not None:
                # removed means side < 0 (on which side a non-strict test puts exact ties is C01.R4 / C05.R3's business)
                return {'<': removed, '<=': removed, '>=': not removed, '>': not removed}[t[0]]
            return False   # `side == 0` (tie -> exact predicate) and anything else: the recurrence must not depend on it
        return val
    rows = []
    ok_rec = True
    for removed in (True, False):
        v = under(removed)
        ni = as_rf(dtab.evaluate(as_rf(vals.get(ci)), v)) - cphi
        nl = as_rf(dtab.evaluate(as_rf(vals.get(li)), v)) - lphi
        want_i, want_l = (0, -1) if removed else (1, 0)
        good = ni.is_const() and nl.is_const() and ni.const_value() == want_i and nl.const_value() == want_l
        rows.append('%s: i%+d, live%+d' % ('removed' if removed else 'kept', int(ni.const_value()) if ni.is_const() else 99, int(nl.const_value()) if nl.is_const() else 99))
        ok_rec = ok_rec and good
    # `<=` / `>` variants of the test change which side ties fall on: ties are decided by the exact predicate first (C05.R3); a non-strict test is C01.R4's business
    ctx.check(rule, 'cursor-and-live-count-recurrences' + sfx, ok_rec, '; '.join(rows), 'removed: i stays, live-1; kept: i+1, live unchanged', w, key_extra='part-recurrence')
    # the exchange: (cursor, live-1) on the removed arm
    a1, a2 = as_rf(sw.fargs[1]), as_rf(sw.fargs[2])
    pair = {repr(a1 - cphi) + '|i', repr(a2 - lphi) + '|l'} if repr(a1 - cphi) == '0' else {repr(a2 - cphi) + '|i', repr(a1 - lphi) + '|l'}
    ok_sw = pair == {'0|i', '-1|l'} and cont_txt in repr(sw.fargs[0])
    decg = [x for x in sw.guard if any(is_dec(l) is not None for l in dtab.b_leaves(x).values())]
    g_removed = all(dtab.evaluate(x, under(True)) for x in decg)
    g_kept = all(dtab.evaluate(x, under(False)) for x in decg)
    has_dec = bool(decg)
    ok_sw = ok_sw and has_dec and g_removed and not g_kept
    ctx.check(rule, 'removed-vertex-goes-to-the-last-live-slot' + sfx, ok_sw, 'swap(%s, %s) %s' % (repr(a1)[-40:], repr(a2)[-40:], 'on the removed arm' if (has_dec and g_removed and not g_kept) else 'NOT exactly on the removed arm'),
              'vertices.swap(i, num_v - 1) iff removed', w, key_extra='part-swap')


def counts_exactly(L, scalars, n):
    """The loop runs exactly n times by an explicit counter: n down to 0 (`while c > 0 { ..; c -= 1 }`) or 0 up to n."""
    for i, (a, p) in scalars.items():
        a = as_rf(a)
        steps = [as_rf(vals.get(i)) - p for g, vals in L['back'] if isinstance(vals.get(i), RF)]
        if not steps or len(steps) != len(L['back']) or not all(d.is_const() for d in steps):
            continue
        conds = [x for g, _v in L['back'] for x in g if isinstance(x, I.B) and x.op == 'cmp' and repr(p) in (repr(x.args[1]), repr(x.args[2]))]
        if not conds:
            continue
        c = conds[0]
        op, lhs, rhs = c.args
        p_left = repr(lhs) == repr(p)
        other = as_rf(rhs if p_left else lhs)
        down = all(d.const_value() == -1 for d in steps) and a == n and other.is_zero() and ((op == '>' and p_left) or (op == '<' and not p_left) or op == '!=')
        up = all(d.const_value() == 1 for d in steps) and a.is_zero() and other == n and ((op == '<' and p_left) or (op == '>' and not p_left) or op == '!=')
        if down or up:
            return True
    return False


# ------------------------------------------------------------------------------------------------------------------
def r4(ctx, F, rule, sfx):
    RO = c01.cycle_roles(F)
    cyc = I.St('simple_cycle::SimpleCycle', 'SimpleCycle', {RO['ptrs']: I.Sym(nf.sym_atom('P'), 'std::vec::Vec<usize>'), RO['start']: RF.sym('S'), RO['len']: RF.sym('N')})
    ini = F.body_by_suffix('SimpleCycle::init')
    ip = I.Interp(F)
    r = ip.ref_to(cyc, mut=True)
    ip.call_body(ini, [r, RF.sym('a'), RF.sym('b'), RF.sym('c')])
    ctx.evaluations += ip.evaluations
    w = where(ini)
    loops = [L for L in ip.loops if L['body'] is ini]
    if len(loops) != 1:
        raise AnalysisIncomplete('SimpleCycle::init has %d loops (expected the reset walk)' % len(loops))
    L = loops[0]
    sc_ = _scalar_phis(L)
    ext = [x for x in L['ext'] if 'SimpleCycle' in repr(I.frozen(x['init']))]
    if len(ext) != 1 or not ext[0]['back']:
        raise AnalysisIncomplete('the reset walk does not write the cycle')
    x = ext[0]
    pphi = I.get_field(I.frozen(x['phi']), RO['ptrs'])
    pback = I.get_field(I.frozen(x['back'][0][1]), RO['ptrs'])
    gm, base = c01._store_map(pback)
    # cursor: the loop-carried scalar that is the stored index
    cur = [(i, a, p) for i, (a, p) in sc_.items() if repr(p) in gm]
    ok = len(gm) == 1 and len(cur) == 1 and base == repr(pphi)
    if ok:
        ci, cinit, cphi = cur[0]
        k, v = next(iter(gm.items()))
        ok = k == v == repr(cphi)
        nxt = L['back'][0][1].get(ci)
        ok_next = repr(nxt) == '%s[%s]' % (repr(pphi), repr(cphi))
        ok_init = repr(as_rf(cinit)) == 'S'
        rng = [repr(I.frozen(a)).replace(' ', '') for a in L['init'] if a is not None and 'Range{' in repr(I.frozen(a))]
        ok_rng = 'Range{start:0,end:N}' in rng or counts_exactly(L, sc_, RF.sym('N'))
        if not rng and ok_rng:
            rng = ['explicit counter over N steps']
        obs = 'cursor from %s; per step ptrs[%s] := %s, cursor := %s; trip count %s' % (repr(as_rf(cinit)), k, v, repr(nxt)[-40:], rng[:1])
        ok = ok and ok_next and ok_init and ok_rng
    else:
        obs = 'stores %s on %s, cursors %s' % (gm, base, [repr(p) for _, _, p in cur])
    ctx.check(rule, 'reset-walks-the-whole-previous-cycle' + sfx, ok, obs, 'current = start; repeat len times: next = ptrs[current]; ptrs[current] = current; current = next', w, key_extra='reset')
    # the triangle is installed after the walk: the final table is store^3 on top of the loop's result
    fin = I.read_lv(r.lv)
    gm2, base2 = c01._store_map(I.get_field(fin, RO['ptrs']))
    ok2 = gm2 == {'a': 'b', 'b': 'c', 'c': 'a'} and 'phi' in base2
    ctx.check(rule, 'triangle-installed-after-the-reset' + sfx, ok2, 'stores %s on top of %s' % (gm2, base2[:40]), 'a->b->c->a written on the table left by the reset walk', w, key_extra='install-order')
    # grow: pushes its own index (a self pointer = not on the cycle)
    gb = F.body_by_suffix('SimpleCycle::grow')
    ip2 = I.Interp(F)
    r2_ = ip2.ref_to(cyc, mut=True)
    ip2.call_body(gb, [r2_])
    pe = [e for e in ip2.events if e.callee and e.callee.endswith('::push')]
    ok3 = len(pe) == 1 and repr(pe[0].fargs[0]) == 'P' and repr(as_rf(pe[0].fargs[1])) == 'len(P)'
    fin2 = I.read_lv(r2_.lv)
    ok3 = ok3 and repr(I.get_field(fin2, RO['start'])) == 'S' and repr(I.get_field(fin2, RO['len'])) == 'N'
    ctx.check(rule, 'grow-appends-a-detached-node' + sfx, ok3, [repr(a)[:40] for a in pe[0].fargs] if pe else 'no push', 'ptrs.push(ptrs.len()); start and len untouched', where(gb), key_extra='grow')
    # new(capacity): identity table, empty cycle
    nb = F.body_by_suffix('SimpleCycle::new')
    ip3 = I.Interp(F)
    v3, _ = ip3.call_body(nb, [RF.sym('cap')])
    p3 = repr(I.frozen(I.get_field(v3, RO['ptrs']))).replace(' ', '')
    ok4 = 'Range{start:0,end:cap}' in p3 and 'collect' in p3 and 'map' not in p3 and as_rf(I.get_field(v3, RO['len'])).is_zero()
    ctx.check(rule, 'fresh-cycle-is-empty' + sfx, ok4, 'ptrs = %s, len = %s' % (p3[:80], repr(I.get_field(v3, RO['len']))), 'ptrs = (0..capacity).collect() (all self pointers), len = 0', where(nb), key_extra='new')


# ------------------------------------------------------------------------------------------------------------------
def r5(ctx, F, rule, sfx):
    sc = scen.build_scenario(F)
    cb = F.body(sc.clip_path)
    ip, selfref = c01.clip_scenario(F, cb)
    w = where(cb)
    fd = [e for e in ip.events if e.callee and strip_generics(e.callee).endswith('Vertex::from_dual') and e.body is cb]
    if len(fd) != 1:
        raise AnalysisIncomplete('vertex creation sites in the clip routine: %d' % len(fd))
    e = fd[0]
    L = loop_of_event(ip, e)
    if L is None:
        raise AnalysisIncomplete('vertex creation is not in a loop')
    a0, a1, a2 = [as_rf(x) for x in e.fargs[:3]]
    wk = c01.clip_walk(F)
    ok = wk['cur'] is not None and wk['next'] is not None and wk['cur'].is_zero() and (wk['next'] - 1).is_zero()
    obs = 'from_dual(W[t %s], W[t %s], %s) for the t-th vertex, W the walk from start' % ('+ ' + repr(wk['cur']) if wk['cur'] is not None else '?', '+ ' + repr(wk['next']) if wk['next'] is not None else '?', repr(a2)[-40:])
    ctx.check(rule, 'one-vertex-per-consecutive-cycle-pair' + sfx, ok, obs, 'the t-th new vertex is from_dual(W[t], W[t+1], p_idx): one per cycle edge, in walk order', where(cb, e.line), key_extra='pairs')
    # third plane: the index the new plane was pushed at
    pu = [x for x in ip.events if x.callee and x.callee.endswith('::push') and x.body is cb and repr(x.fargs[1]) == 'newplane']
    ok3 = len(pu) == 1 and repr(a2) == 'len(%s)' % repr(pu[0].fargs[0]) and not pu[0].in_loop
    ctx.check(rule, 'third-plane-is-the-new-plane' + sfx, ok3, 'third plane %s; plane pushed onto %s' % (repr(a2), repr(pu[0].fargs[0]) if pu else '?'), 'p_idx = clipping_planes.len() before the push', where(cb, e.line), key_extra='pidx')
    # the walk covers the closed cycle: len pairs over the cycle left by compute_boundary
    RO = c01.cycle_roles(F)
    cnt = repr(wk['count']) if wk['count'] is not None else 'unbounded'
    okw = wk['count'] is not None and cnt.startswith('mut:') and ('compute_boundary(0, \'%s\'' % RO['len']) in cnt and 'compute_boundary' in wk['cycle']
    ctx.check(rule, 'walk-is-the-closed-cycle' + sfx, okw, '%s pairs over %s' % (cnt[:70], wk['cycle'][:40]), 'boundary.len pairs of the cycle reconstructed for this clip', w, key_extra='walk')
    vp = [x for x in ip.events if x.callee and x.callee.endswith('::push') and x.body is cb and 'from_dual' in repr(x.fargs[1])]
    tr = [x for x in ip.events if x.callee and x.callee.endswith('::truncate') and x.body is cb]
    okp = len(vp) == 1 and vp[0].in_loop and len(tr) == 1 and 'truncate' in repr(I.frozen([xx for xx in L['ext'] if 'vertices' in repr(I.frozen(xx['init']))][0]['init'])) if L.get('ext') else False
    ctx.check(rule, 'new-vertices-appended-after-truncation' + sfx, bool(okp), '%d push(from_dual) in the walk loop, %d truncate before it' % (len(vp), len(tr)), 'truncate(num_v) then one push per pair', w, key_extra='append')
    # dual is a triple by type
    vt = F.adt_by_path.get('voronoi::convex_cell::Vertex')
    dty = [f['ty'] for f in vt['variants'][0]['fields'] if f['name'] == 'dual'] if vt else []
    ctx.check(rule, 'three-planes-per-vertex' + sfx, dty == ['[usize; 3]'], dty, 'Vertex.dual: [usize; 3]', None, key_extra='dual-type')


def r6(ctx, F, rule, sfx):
    scope = [b for b in F.bodies if b['path'].startswith('simple_cycle::') or strip_generics(b['path']).endswith(('ConvexCell::clip_by_plane', 'ConvexCell::compute_boundary'))
             or any(strip_generics(b['path']).startswith(strip_generics(o) + '::{closure') for o in ('voronoi::convex_cell::ConvexCell::clip_by_plane', 'voronoi::convex_cell::ConvexCell::compute_boundary'))]
    scope = [b for b in scope if '::tests::' not in b['path']]
    if len(scope) < 5:
        raise AnalysisIncomplete('cycle / clip bodies found: %d' % len(scope))
    n = nbad = 0
    for b in scope:
        for bl in b['blocks']:
            if bl.get('cleanup'):
                continue
            for st in bl['stmts']:
                if st['k'] == 'assign' and st['rv']['k'] == 'binop' and st['rv']['op'].startswith(('Shl', 'Shr')):
                    n += 1
                    if st['rv']['r'].get('k') != 'const':
                        nbad += 1
                        ctx.bad(rule, 'shift-by-run-time-index:%s%s' % (strip_generics(b['path']).split('::')[-1], sfx), '%s of a %s by a run-time amount' % (st['rv']['op'], st['rv'].get('lty')),
                                'membership / bookkeeping per plane in growable storage (Vec), never one bit per plane in a machine word', where(b, st.get('line')), key_extra='shift:' + strip_generics(b['path']))
    # plane / vertex indices narrowed to a fixed-width integer (a successor table of u8 links holds 256 planes)
    W = {'u8': 8, 'i8': 8, 'u16': 16, 'i16': 16, 'u32': 32, 'i32': 32, 'u64': 64, 'i64': 64, 'usize': 64, 'isize': 64, 'u128': 128, 'i128': 128}
    ncast = nnarrow = 0
    for b in scope:
        for bl in b['blocks']:
            if bl.get('cleanup'):
                continue
            for st in bl['stmts']:
                if st['k'] == 'assign' and st['rv']['k'] == 'cast' and st['rv'].get('kind') == 'IntToInt':
                    ncast += 1
                    fr, to = (st['rv'].get('from_ty') or '').strip(), (st['rv'].get('ty') or '').strip()
                    if st['rv']['x'].get('k') != 'const' and fr in W and to in W and W[to] < W[fr] and W[to] < 32:      # 2^32 planes of one cell are not reachable (memory); 2^8 and 2^16 are
                        nnarrow += 1
                        ctx.bad(rule, 'index-narrowed:%s%s' % (strip_generics(b['path']).split('::')[-1], sfx), 'a run-time %s narrowed to %s' % (fr, to),
                                'plane and vertex indices keep the width of usize: no bound on the number of planes of a cell', where(b, st.get('line')), key_extra='narrow:' + strip_generics(b['path']))
    ctx.check(rule, 'no-index-narrowing' + sfx, nnarrow == 0, '%d integer casts in the cycle and the clip routine, %d narrowing a run-time value' % (ncast, nnarrow), 'none', where(scope[0]), key_extra='narrow-total')
    # fixed-size arrays among the fields of the cycle
    a = F.adt('simple_cycle::SimpleCycle', required=False)
    fixed = []
    if a is not None:
        for f in a['variants'][0]['fields']:
            if re.match(r'^\[.*; \d+\]$', f['ty'].strip()) or f['ty'].strip() in ('u64', 'u128', 'u32') and f['name'] not in ('start', 'len') \
                    or re.search(r'Vec<\s*([ui](8|16))\b', f['ty']):
                fixed.append('%s: %s' % (f['name'], f['ty']))
    ctx.check(rule, 'cycle-storage-grows-with-the-cell' + sfx, a is not None and not fixed, fixed or 'successor table and counters only', 'no fixed-size array / bit-set field in SimpleCycle', where(scope[0]) if a is None else '%s:%s' % (a['file'], a['line']), key_extra='fields')
    ctx.check(rule, 'no-shift-by-run-time-index' + sfx, nbad == 0, '%d bodies of the cycle and the clip routine scanned, %d shift operations, %d by a run-time amount' % (len(scope), n, nbad), 'none by a run-time amount', where(scope[0]), key_extra='shift-total')
