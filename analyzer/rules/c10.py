"""C10 — the exact in-sphere predicate returns the true sign on the integer grid."""
from fractions import Fraction
from .. import interp as I, nf, dtab
from ..nf import RF, as_rf
from ..tables import c3, det4, det3
from ..facts import AnalysisIncomplete, strip_generics, calls, callee_name
from .util import *
from . import scen, c01, c02, c05

META = {
    'level': 'other',
    'configs': {'quick': ['default'], 'thorough': ['default', 'norayon', 'default_nodebug']},
    'rules': {
        'R1': 'determinant identity: the big-integer program of the exact predicate computes, as a polynomial identity in its 15 integer coordinates, '
              'det[(b-a,|b-a|^2) (c-a,|c-a|^2) (d-a,|d-a|^2) (v-a,|v-a|^2)], and returns only its sign (C11.R2 sign map); negative strictly inside, zero on, positive outside '
              'the circumsphere of a positively oriented tetrahedron (constant folding on a reference tetrahedron); the sign is taken in the ring, before the conversion to f64',
        'R2': 'float sibling: in_sphere_test has the same polynomial normal form',
        'R3': 'no i64 overflow: coordinate differences are formed in i64 before conversion; every argument at the only call site is an iloc result, whose components are '
              'bits & (2^52 - 1), so every difference lies in (-2^52, 2^52)',
        'R4': 'position -> grid map is monotone and uses all 52 mantissa bits (C05.R5)',
        'R5': 'the grid domain contains every queried position (C05.R1)',
        'R6': 'orientation: with the argument order used by the clip routine (generator, dual[0], dual[1], dual[2]) and the dual triples of the eight initial vertices, a query point that '
              'must clip the vertex gives a negative value and one that must not gives a positive value (constant folding of the real code on the start box); new vertices are created as '
              '(cur, next, new plane) along the boundary cycle',
    },
    'explanation': 'R1-R3 decide the first sentence of the statement for all inputs (exact ring arithmetic: the normal form is a complete invariant of the straight-line big-integer '
                   'program; overflow excluded by an interval argument); R4/R5 the second; R6 ties the sign convention to the orientation of the vertex duals. Not decided: nothing '
                   'numeric remains for the predicate itself; how near-ties reach it is C05.R3.',
    'trusted_base': ['big-integer crates implement exact ring operations and the mathematical sign', 'glam DMat4::determinant', 'E0 extractor'],
    'assumptions': ['coordinates in [0, 2^52)'],
}

PTS = 'abcdv'


def run(ctx):
    for cfg in ctx.configs_used:
        F = ctx.facts(cfg)
        sfx = '' if cfg == 'default' else '@' + cfg
        for fn in (r1, r2, r3, r4, r5, r6):
            rule = 'C10.' + fn.__name__.upper()
            ctx.guarded(rule, 'evaluate' + sfx, lambda: fn(ctx, F, rule, sfx))


def spec_poly(sym=lambda n, i: RF.sym('%s%d' % (n, i))):
    P = {n: [sym(n, i) for i in range(3)] for n in PTS}
    cols = []
    for n in 'bcdv':
        d = [P[n][i] - P['a'][i] for i in range(3)]
        cols.append(d + [d[0] * d[0] + d[1] * d[1] + d[2] * d[2]])
    return det4(cols)


def exact_form(ctx, F):
    """-> (body, value, polynomial P whose sign is returned, chain of sign-extraction names)"""
    b = F.body_by_suffix('geometry::in_sphere_test_exact')
    ip = I.Interp(F)
    P = {n: I.arr([RF.sym('%s%d' % (n, i)) for i in range(3)]) for n in PTS}
    v, _ = ip.call_body(b, [ip.ref_to(P[n]) for n in PTS])
    ctx.evaluations += ip.evaluations
    return b, ip, v


def find_poly(v):
    """Innermost non-atomic scalar under a chain of unary applications / discriminant tests -> (poly, chain names)."""
    chain = []
    cur = v
    for _ in range(12):
        if isinstance(cur, I.Ite):
            return None, chain
        cur = as_rf(cur) if not isinstance(cur, RF) else cur
        at = I.single_atom(cur)
        if at is None:
            return cur, chain
        if at.kind == 'app' and at.name == 'ite':
            # decision tree on the discriminant of sign(P): only the conditions of the tree itself (not those inside P)
            leaves = {}

            def _cond_leaves(c):
                if c.op in ('cmp', 'atom'):
                    leaves[c.key()] = c
                elif c.op != 'const':
                    for a_ in c.args:
                        _cond_leaves(a_)
            from .util import cases as _cases
            for _conds, _leaf in _cases(cur):
                for c_ in _conds:
                    _cond_leaves(c_)
            subj = None
            for l in leaves.values():
                d = dtab.is_discr_eq(l)
                if d is None:
                    return (cur if chain else None), chain          # a conditional that is not a match on the sign: handed back as it is
                subj = d[0] if subj is None else subj
                if d[0].id != subj.id:
                    return None, chain
            chain.append('match-discriminant')
            cur = RF.atom(subj) if isinstance(subj, nf.Atom) else subj
            continue
        if at.kind == 'app' and at.name == 'discr' and len(at.args) == 1:
            chain.append('discr-cast')
            a0 = at.args[0]
            cur = RF.atom(a0) if isinstance(a0, nf.Atom) else (RF.atom(a0.atom) if isinstance(a0, I.Sym) else a0)
            continue
        if at.kind == 'app' and len(at.args) == 1 and (at.name.startswith('call:') or at.name in ('signum',)):
            chain.append(at.name.rsplit('::', 1)[-1])
            a0 = at.args[0]
            cur = a0 if isinstance(a0, RF) else (RF.atom(a0.atom) if isinstance(a0, I.Sym) else a0)
            continue
        return cur, chain
    return None, chain


def gated_identity(poly, spec):
    """The determinant is assembled under data-dependent conditions (`if v[k] != 0 { determinant -= v[k] * minor }`): for every feasible combination
    of the conditions the assembled polynomial must equal the lifted determinant GIVEN those conditions — a term may be skipped exactly when its
    factor vanishes.  Conditions are equalities `p == 0` with p a coordinate difference (x_i - a_i: x_i is replaced by a_i) or the lifted coordinate
    |x - a|^2 of one point (over the reals: x = a).  -> (ok, detail), or None when the value is not of that form."""
    import itertools
    leaves = [l for l in dtab.b_leaves(poly).values()]
    if not leaves or len(leaves) > 6:
        return None
    syms = {}
    for n in PTS:
        for i in range(3):
            syms['%s%d' % (n, i)] = RF.sym('%s%d' % (n, i))
    norms = {n: sum(((syms['%s%d' % (n, i)] - syms['a%d' % i]) ** 2 for i in range(3)), RF.const(0)) for n in 'bcdv'}
    eqs = []
    for l in leaves:
        if l.op != 'cmp' or l.args[0] not in ('==', '!='):
            return None
        z = as_rf(l.args[1]) - as_rf(l.args[2])
        kind = None
        for nm, sy in syms.items():
            if nm[0] != 'a' and ((z - sy + syms['a' + nm[1]]).is_zero() or (z + sy - syms['a' + nm[1]]).is_zero()):
                kind = ('lin', nm)
        for n, nz in norms.items():
            if nz == z:
                kind = ('norm', n)
        if kind is None:
            return None
        eqs.append((l, z, kind, l.args[0] == '=='))
    bad = []
    n_feasible = 0
    for bits in itertools.product((True, False), repeat=len(eqs)):
        # bits[k]: the equation z_k == 0 holds
        sub = {}
        for (l, z, kind, _p), holds in zip(eqs, bits):
            if holds and kind[0] == 'norm':
                for i in range(3):
                    sub[I.single_atom(syms['%s%d' % (kind[1], i)])] = syms['a%d' % i]
        for (l, z, kind, _p), holds in zip(eqs, bits):
            if holds and kind[0] == 'lin':
                sub[I.single_atom(syms[kind[1]])] = syms['a' + kind[1][1]]
        feasible = True
        for (l, z, kind, _p), holds in zip(eqs, bits):
            zs = as_rf(I.subst(z, sub)) if sub else z
            if not holds and zs.is_zero():
                feasible = False            # e.g. x == a but x_1 != a_1
        if not feasible:
            continue
        n_feasible += 1
        truth = {l.key(): (holds == pos) for (l, z, kind, pos), holds in zip(eqs, bits)}

        def val(leaf):
            if leaf.key() in truth:
                return truth[leaf.key()]
            raise AnalysisIncomplete('condition %r' % (leaf,))
        try:
            got = as_rf(dtab.evaluate(poly, val))
        except AnalysisIncomplete:
            return None
        d = got - spec
        d = as_rf(I.subst(d, sub)) if sub else d
        if not d.is_zero():
            bad.append('when %s: off by %d terms' % (', '.join('%s%s0' % (k[1] if k[0] == 'lin' else '|%s-a|^2' % k[1], '==' if h else '!=') for (_l, _z, k, _p), h in zip(eqs, bits)), len(d.num)))
    return (not bad and n_feasible > 0, '; '.join(bad[:2]) or '%d feasible combinations of %d zero tests, each equal to the determinant under its conditions' % (n_feasible, len(eqs)))


def gated_inner(v):
    """sign-extraction(gated polynomial): the unary chain stripped down to the first conditional -> (gated RF, chain names) or (None, [])"""
    cur = as_rf(v) if not isinstance(v, I.Ite) else None
    chain = []
    for _ in range(6):
        at = I.single_atom(cur) if cur is not None else None
        if at is None or at.kind != 'app':
            return None, []
        if at.name == 'ite':
            return cur, chain
        if len(at.args) == 1 and (str(at.name).startswith('call:') or at.name == 'signum'):
            chain.append(str(at.name).rsplit('::', 1)[-1])
            a0 = at.args[0]
            cur = a0 if isinstance(a0, RF) else (RF.atom(a0.atom) if isinstance(a0, I.Sym) else None)
            continue
        return None, []
    return None, []


def find_poly_or_gated(v):
    """find_poly, extended: a determinant assembled under zero tests of its own factors that equals the lifted determinant under every feasible
    combination (gated_identity) IS that determinant -> (spec polynomial, chain)."""
    poly, chain = find_poly(v)
    if poly is not None and I.single_atom(poly) is None:
        return poly, chain
    if poly is not None:
        at = I.single_atom(poly)
        if at is not None and at.kind == 'app' and at.name == 'ite':
            gi = gated_identity(poly, spec_poly())
            if gi is not None and gi[0]:
                return spec_poly(), chain
    g, ch = gated_inner(v)
    if g is not None:
        gi = gated_identity(g, spec_poly())
        if gi is not None and gi[0]:
            return spec_poly(), ch
    return poly, chain


def compare_form(v):
    """Value is a decision tree whose conditions compare one polynomial with zero -> (poly, {-1: val, 0: val, +1: val}) else None."""
    rv = as_rf(v) if not isinstance(v, (I.Ite,)) else v
    leaves = dtab.b_leaves(rv)
    if not leaves:
        return None
    poly = None
    for l in leaves.values():
        if l.op != 'cmp' or not isinstance(l.args[1], RF) or not isinstance(l.args[2], RF):
            return None
        if dtab.is_discr_eq(l) is not None:
            return None               # a test on the variant of a sign enum, not a comparison of the determinant (C11's sign table reads it)
        d = l.args[1] - l.args[2]
        if I.single_atom(d) is not None or d.is_const():
            return None
        if poly is None:
            poly = d if True else None
        q = d / poly
        if not q.is_const() or q.const_value() == 0:
            return None
    table = {}
    for s in (-1, 0, 1):
        def val(leaf, s=s):
            d = leaf.args[1] - leaf.args[2]
            k = (d / poly).const_value()
            sd = s * (1 if k > 0 else -1)         # sign of (lhs - rhs)
            return {'<': sd < 0, '<=': sd <= 0, '==': sd == 0, '!=': sd != 0}[leaf.args[0]]
        r = dtab.evaluate(rv, val)
        table[s] = r.const_value() if isinstance(r, RF) and r.is_const() else repr(r)
    return poly, table


def r1(ctx, F, rule, sfx):
    b, ip, v = exact_form(ctx, F)
    w = where(b)
    cf = compare_form(v)
    if cf is not None:
        poly, table = cf
        spec = spec_poly()
        flip = 1 if poly == spec else -1 if poly == -spec else 0
        got = {s: table[s * flip] for s in (-1, 0, 1)} if flip else table
        ctx.check(rule, 'determinant-identity' + sfx, flip != 0, 'comparison of a polynomial with %d terms against zero' % len(poly.num), 'the lifted 4x4 determinant', w, key_extra='det')
        ctx.check(rule, 'sign-map' + sfx, flip != 0 and got == {-1: -1, 0: 0, 1: 1}, 'determinant negative/zero/positive -> %s' % [got[-1], got[0], got[1]], '-1.0 / 0.0 / +1.0', w, key_extra='signmap:%s' % [got[-1], got[0], got[1]])
        return
    poly, chain = find_poly(v)
    if poly is None:
        # sign-extraction(gated polynomial): strip the unary chain down to the first conditional
        cur = as_rf(v) if not isinstance(v, I.Ite) else None
        for _ in range(6):
            at = I.single_atom(cur) if cur is not None else None
            if at is None or at.kind != 'app':
                break
            if at.name == 'ite':
                poly = cur
                break
            if len(at.args) == 1 and (str(at.name).startswith('call:') or at.name == 'signum'):
                a0 = at.args[0]
                cur = a0 if isinstance(a0, RF) else (RF.atom(a0.atom) if isinstance(a0, I.Sym) else None)
                continue
            break
    if poly is not None and I.single_atom(poly) is not None:
        gi = gated_identity(poly, spec_poly())
        if gi is not None:
            ctx.check(rule, 'determinant-identity' + sfx, gi[0], 'determinant assembled under zero tests of its factors: %s' % gi[1], 'equal to the lifted determinant under every combination of the tests', w, key_extra='det-gated')
            other = [k for k in ip.unknown_calls if not any(x in k for x in ('signum', 'to_f64', 'sign', 'value'))]
            ctx.check(rule, 'straight-line-ring-program' + sfx, not other, 'uninterpreted calls: %s' % (sorted(ip.unknown_calls) or 'none'), 'only the sign extraction is outside the ring', w, key_extra='calls')
            return
    if poly is None or I.single_atom(poly) is not None:
        ctx.incomplete(rule, 'determinant' + sfx, 'returned value %s is not sign-extraction(polynomial)' % repr(v)[:160], w)
        return
    spec = spec_poly()
    ctx.check(rule, 'determinant-identity' + sfx, poly == spec, 'returned sign of a polynomial with %d terms; difference to the lifted 4x4 determinant has %d terms' % (len(poly.num), len((poly - spec).num)),
              'identically det[(b-a,|b-a|^2) (c-a,..) (d-a,..) (v-a,..)]', w, key_extra='det')
    # the sign is taken of the EXACT value: signum in the ring, then the conversion (f64::signum(+0.0) is 1.0: converting first turns a tie into "outside")
    if chain and chain[0] != 'match-discriminant' and 'discr-cast' not in chain:
        ctx.check(rule, 'sign-taken-before-conversion' + sfx, chain in (['to_f64', 'signum'], ['value', 'to_f64', 'signum']), ' <- '.join(chain), 'to_f64(signum(det)): zero stays zero', w, key_extra='sign-chain')
    # only asserts/overflow checks branch: the program is straight-line in the ring (unknown calls: only the sign extraction)
    other = [k for k in ip.unknown_calls if not any(x in k for x in ('signum', 'to_f64', 'sign', 'value'))]
    ctx.check(rule, 'straight-line-ring-program' + sfx, not other, 'uninterpreted calls: %s' % (sorted(ip.unknown_calls) or 'none'), 'only the sign extraction is outside the ring', w, key_extra='calls')
    # convention on a reference tetrahedron (positively oriented: det[b-a,c-a,d-a] = +64 > 0)
    ref = {'a': (0, 0, 0), 'b': (4, 0, 0), 'c': (0, 4, 0), 'd': (0, 0, 4)}
    orient = det3([RF.const(ref['b'][i] - ref['a'][i]) for i in range(3)], [RF.const(ref['c'][i] - ref['a'][i]) for i in range(3)], [RF.const(ref['d'][i] - ref['a'][i]) for i in range(3)])
    for name, vpt, want in (('inside', (1, 1, 1), -1), ('on-sphere', (4, 4, 4), 0), ('outside', (5, 5, 5), 1)):
        mp = {}
        for n in 'abcd':
            for i in range(3):
                mp[nf.sym_atom('%s%d' % (n, i))] = RF.const(ref[n][i])
        for i in range(3):
            mp[nf.sym_atom('v%d' % i)] = RF.const(vpt[i])
        val = I.subst(poly, mp)
        sgn = (val.const_value() > 0) - (val.const_value() < 0) if val.is_const() else None
        ctx.check(rule, 'convention:%s%s' % (name, sfx), sgn == want and orient.const_value() > 0, 'det = %r' % (val,), 'sign %+d for a positively oriented tetrahedron' % want, w, key_extra='conv:' + name)


def r2(ctx, F, rule, sfx):
    fb = F.body_by_suffix('geometry::in_sphere_test')
    ip = I.Interp(F)
    v, _ = ip.call_body(fb, [I.sym_vec3(n) for n in PTS])
    ctx.evaluations += ip.evaluations
    spec = spec_poly(lambda n, i: RF.sym('%s.%s' % (n, 'xyz'[i])))
    ctx.check(rule, 'float-sibling-same-determinant' + sfx, as_rf(v) == spec, 'difference has %d terms' % len((as_rf(v) - spec).num), 'the same lifted determinant', where(fb), key_extra='float')


def r3(ctx, F, rule, sfx):
    # call sites of the exact predicate
    eb = F.body_by_suffix('geometry::in_sphere_test_exact')
    sc = scen.build_scenario(F)
    cb = F.body(sc.clip_path)
    outside, nsites = call_sites_outside(F, eb['path'], cb)
    ctx.check(rule, 'single-call-site' + sfx, nsites == 1 and not outside, '%d call site(s); outside the clip routine: %s' % (nsites, [strip_generics(b['path']) for b, t in outside]),
              'only the clip routine (or a private helper of it) calls the exact predicate, once', where(eb), key_extra='sites')
    ip, selfref = c01.clip_scenario(F, cb)
    ex = [e for e in ip.events if e.callee == eb['path']]
    if len(ex) != 1:
        raise AnalysisIncomplete('exact predicate evaluated %d times in the clip routine' % len(ex))
    il = 'call:voronoi::boundary::SimulationBoundary::iloc('
    ok = all(repr(a).startswith(il) for a in ex[0].fargs)
    ctx.check(rule, 'all-arguments-are-grid-points' + sfx, ok, [repr(a)[:50] for a in ex[0].fargs], 'five iloc(..) results', where(ex[0].body, ex[0].line), key_extra='args')
    ib, comps = c05.iloc_form(ctx, F)
    masks = [m for u, m in comps]
    hi = max(masks)
    ok = all(m >= 0 for m in masks) and hi < 2 ** 62
    ctx.check(rule, 'differences-fit-i64' + sfx, ok, 'components in [0, %d]; differences in [-%d, %d]' % (hi, hi, hi), '|difference| < 2^63', where(ib), key_extra='interval')
    # the subtraction operands are exactly the slice elements (no scaling before conversion)
    b, ipx, v = exact_form(ctx, F)
    def n_subs(body):
        return sum(1 for bl in body['blocks'] for s in bl['stmts'] if s['k'] == 'assign' and s['rv']['k'] == 'binop' and s['rv']['op'].startswith('Sub') and s['rv'].get('lty') == 'i64')
    subs = n_subs(b)
    helpers = private_helpers_of(F, b)
    for hp, ncalls in helpers.items():
        subs += n_subs(F.by_path[hp][0]) * ncalls         # an extracted helper (e.g. the relative-point macro as a function) counts once per call
    ctx.check(rule, 'i64-subtractions-counted' + sfx, subs == 12, '%d i64 subtractions%s' % (subs, (' (incl. helpers %s)' % sorted(strip_generics(h) for h in helpers)) if helpers else ''), '12 (three per relative point)', where(b), key_extra='subs')


def r4(ctx, F, rule, sfx):
    c05.r5(ctx, F, rule, sfx)


def r5(ctx, F, rule, sfx):
    c05.r1(ctx, F, rule, sfx)


def r6(ctx, F, rule, sfx):
    # the polynomial and the argument order used by the clip routine
    b, ip, v = exact_form(ctx, F)
    cf = compare_form(v)
    if cf is not None:
        poly = cf[0] if cf[0] == spec_poly() else -cf[0]
    else:
        poly, chain = find_poly_or_gated(v)
    if poly is None or I.single_atom(poly) is not None:
        raise AnalysisIncomplete('predicate polynomial not determined')
    sc = scen.build_scenario(F)
    cb = F.body(sc.clip_path)
    ipc, selfref = c01.clip_scenario(F, cb)
    ex = [e for e in ipc.events if e.callee and e.callee.endswith('geometry::in_sphere_test_exact')]
    if len(ex) != 1:
        raise AnalysisIncomplete('exact predicate evaluated %d times in the clip routine' % len(ex))
    import re
    perm = []
    for x in ex[0].fargs[1:4]:
        m = re.search(r'\.dual\[(\d)\]\], cell\.idx, generators\)\)$', repr(x))
        perm.append(int(m.group(1)) if m else None)
    if None in perm:
        raise AnalysisIncomplete('argument order of the exact predicate not recognised')
    # start box [0,8]^3, generator at the centre (4,4,4); walls and initial duals from the real code
    cub, ipb, bv, planes = c02.boundary(F, 'ThreeD', False)
    init = F.body_by_suffix('ConvexCell::init')
    fd = F.body_by_suffix('Vertex::from_dual')
    ip2 = I.Interp(F, no_inline=[fd['path'], F.body_by_suffix('::update_safety_radius')['path']])
    bd = I.St('voronoi::boundary::SimulationBoundary', 'SimulationBoundary', dict(bv.fields))
    ip2.call_body(init, [I.sym_vec3('L'), RF.sym('idx'), ip2.ref_to(bd)])
    ctx.evaluations += ip2.evaluations
    evs = [e for e in ip2.events if e.callee == fd['path']]
    mp0 = {}
    for c in 'xyz':
        mp0[nf.sym_atom('A.' + c)] = RF.const(0)
        mp0[nf.sym_atom('W.' + c)] = RF.const(8)
    gen = (4, 4, 4)
    bad = []
    n = 0
    for e in evs:
        tri = [int(as_rf(e.fargs[i]).const_value()) for i in range(3)]
        # mirror images of the generator through the three walls, in the clip routine's argument order
        pts = []
        corner = [None] * 3
        for k in [tri[p] for p in perm]:
            nn, pp, hs = planes[k]
            cw = c02.classify_wall(nn, pp)
            c, side, off = cw
            o = I.subst(off, mp0).const_value()
            m = list(gen)
            m[c] = 2 * o - gen[c]
            pts.append(tuple(m))
            corner[c] = o
        for name, q, want in (('clips', tuple(Fraction(gen[i] + corner[i], 2) + (corner[i] - gen[i]) * Fraction(1, 4) for i in range(3)), -1),
                              ('keeps', tuple(2 * gen[i] - corner[i] for i in range(3)), 1)):
            # 'clips': a neighbour 3/4 of the way towards the corner -> its bisector separates the corner from the generator -> the corner vertex must go (inside the circumsphere)
            # 'keeps': the neighbour diametrically opposite the corner -> the corner stays (outside)
            sub = {}
            for nm, p3 in zip('abcd', [gen] + pts):
                for i in range(3):
                    sub[nf.sym_atom('%s%d' % (nm, i))] = RF.const(p3[i])
            for i in range(3):
                sub[nf.sym_atom('v%d' % i)] = RF.const(Fraction(q[i]))
            val = I.subst(poly, sub)
            n += 1
            s = (val.const_value() > 0) - (val.const_value() < 0)
            if s != want:
                bad.append((tri, name, str(val)))
    ctx.check(rule, 'initial-duals-oriented-for-the-predicate' + sfx, not bad and n == 16, '%d of %d reference evaluations have the wrong sign %s' % (len(bad), n, bad[:2]),
              'negative for a neighbour that must clip the corner, positive for one that must not, for all eight initial vertices', where(init), key_extra='orientation')
    # new vertices: (cur, next, new plane) along the boundary cycle
    fevs = [e for e in ipc.events if e.callee == fd['path'] and e.body is cb]
    if len(fevs) != 1:
        raise AnalysisIncomplete('vertex constructor calls evaluated in the clip routine: %d' % len(fevs))
    e = fevs[0]
    wk = c01.clip_walk(F)
    ok = wk['cur'] is not None and wk['next'] is not None and wk['cur'].is_zero() and (wk['next'] - 1).is_zero() and 'compute_boundary' in wk['cycle']
    detail = 'first plane = walk position %s, second plane = walk position %s (per created vertex t: +t)' % (repr(wk['cur']), repr(wk['next']))
    ctx.check(rule, 'new-vertices-follow-boundary-cycle' + sfx, ok, detail, 'Vertex::from_dual(cur, next, new plane) for consecutive items of the boundary cycle', where(cb, e.line), key_extra='cycle')
