"""C01 — every cell is the nearest-generator region of its generator (necessary structural clauses)."""
import re
from fractions import Fraction
from .. import interp as I, nf, dtab
from ..nf import RF, as_rf
from ..tables import c3, dot3, cross3, det3
from ..facts import AnalysisIncomplete, strip_generics, calls, callee_name
from ..cfg import CFG
from .util import *
from . import scen, c16

META = {
    'level': 'other',
    'configs': {'quick': ['default'], 'thorough': ['default', 'norayon', 'default_nodebug']},
    'rules': {
        'R1': 'clip-or-terminate: in the builder loop every normal path from a received candidate back to the loop header passes through the clip call; the clip is skipped only by the termination test',
        'R2': 'bisector: the half-space built for a candidate has n == (L-R)/|L-R|, p == (L+R)/2, R == generators[i].loc (+ shift when present), right_idx == Some(i) and the shift of the same stream item',
        'R3': 'termination radius: the loop ends only when the candidate is farther than 2x the farthest vertex (shared with C16.R4)',
        'R4': 'side test: HalfSpace::new stores d == n.p; clip(v) is 0 (tie) or signum(n.v - d); the clip routine removes a vertex iff that value (or the exact predicate on ties) is < 0',
        'R5': 'a vertex is the intersection of exactly the three planes listed in its dual, at both vertex creation sites, against the cell\'s own plane list and generator',
        'R7': 'boundary-cycle surgery (vertex removal / re-creation): the cycle is (re)started from the first removed vertex\'s triple; every further removed vertex offers its triple '
              '(dual[0], dual[1], dual[2], in stored order) to try_extend, which — for the first rotation (i,j,k) that applies — either replaces the cycle edge t_k -> t_j by t_k -> t_i -> t_j '
              '(t_i not on the cycle, len+1) or contracts t_k -> t_j -> t_i into t_k -> t_i, detaching t_j and keeping `start` on the cycle (len-1), and otherwise changes nothing; the clip '
              'routine passes exactly the removed vertices, walks len+1 items of the cycle from `start`, and the walk follows the successor pointers',
        'R9': 'in 1D/2D the cell\'s face list contains exactly the faces inside the active subspace (C08.R1): every mechanism that decides whether an axis is active — entry-point '
              'normalisation, generator projection, periodic tripling, image ranges, the validity test of a face normal — agrees with "axis index < dimensionality"',
        'R8': 'candidates reach the builder in order of true distance (C17.R1-R3, R5): min-first heap, leaf key == |q + s - g|^2 (squared, like the envelope bound it is compared with), '
              'envelope bound == squared distance to the clamped point, plain search == squared Euclid — otherwise the termination test (R3) ends the loop before a nearer generator was clipped',
        'R6': 'built-in integrals: volume = sum signed_volume_tet(v0,v1,v2,apex); centroid = sum vol*(v0+v1+v2+apex) * (1/4)/sum vol with the cell generator as apex',
    },
    'explanation': 'Decides necessary conditions of the incremental construction, each for all inputs: the loop clips with every '
                   'candidate it does not terminate on (R1); the clipping plane is the perpendicular bisector of the generator and the '
                   '(shifted) neighbour as an identity of normal forms (R2); termination obeys the security-radius theorem (R3); the '
                   'sign convention of the side test matches the inward normal (R4); vertices are tied to the planes they are computed '
                   'from (R5); volume/centroid accumulate the documented signed tetrahedra with weights summing to one (R6). Not '
                   'decided: that the sequence of clips yields the right vertex set and the correctness of the tetrahedral '
                   'decompositions (numeric/topological, runtime-value dependent).',
    'trusted_base': ['glam semantics table', 'std Iterator::next on the boxed stream as an uninterpreted source of (index, shift) items', 'E0 extractor'],
    'assumptions': ['real arithmetic', 'C17 (candidates arrive in order of distance)'],
}


def run(ctx):
    for cfg in ctx.configs_used:
        F = ctx.facts(cfg)
        sfx = '' if cfg == 'default' else '@' + cfg
        for fn in (r1, r2, r3, r4, r5, r6, r7, r8, r9):
            rule = 'C01.' + fn.__name__.upper()
            ctx.guarded(rule, 'evaluate' + sfx, lambda: fn(ctx, F, rule, sfx))


def is_item_some(c):
    return c.op == 'cmp' and c.args[0] == '==' and 'discr(' in repr(c.args[1]) and '::next(' in repr(c.args[1]) and not repr(c.args[1]).rstrip(')').endswith(('.Some.0.0', '.Some.0.1'))


def is_termination(c):
    return c.op == 'cmp' and c.args[0] in ('<', '<=') and 'safety_radius' in repr(c.args[2])


def self_skip_conditions(sc, conds):
    """conjunction(conds)  <=>  not (item index == own index and item shift is None), as a table over those two atoms."""
    nev = [e for e in sc.ip.events if e.term is sc.next_term]
    if len(nev) != 1:
        return False
    item = repr(I.frozen(I.get_field(I.downcast(nev[0].result, 'Some'), 0)))

    def classify(leaf):
        if leaf.op == 'cmp' and leaf.args[0] in ('==', '!='):
            a, b = repr(leaf.args[1]), repr(leaf.args[2])
            if {a, b} == {item + '.0', 'idx'}:
                return ('OWN', leaf.args[0] == '==')
        p = dtab.option_leaf(leaf, item + '.1')
        if p is not None:
            return ('SN', not p)
        return None
    T = dtab.Table(['OWN', 'SN'], classify)
    try:
        tab = T.tabulate(I.TRUE, tuple(conds))
    except AnalysisIncomplete:
        return False
    return all((v is not None) == (not (own and sn)) for (own, sn), v in tab.items())


def self_only_filter(sc):
    """The one `filter` on the candidate stream keeps an item (i, shift)  <=>  not (i == own index and shift is None): decided as a table over
    those two atoms from the closure's abstract result; any other condition in the predicate makes the answer False."""
    runs = [r for r in sc.ip.closure_runs if r.get('adaptor') == 'filter' and r.get('body') is sc.body]
    if len(runs) != 1 or not isinstance(runs[0]['result'], (I.B, I.Ite)):
        return False
    run = runs[0]
    item = repr(I.frozen(run['item'])) if not isinstance(run['item'], I.Ref) else repr(I.frozen(I.read_lv(run['item'].lv)))

    def classify(leaf):
        if leaf.op == 'cmp' and leaf.args[0] in ('==', '!='):
            a, b = repr(leaf.args[1]), repr(leaf.args[2])
            if {a, b} == {item + '.0', 'idx'}:
                return ('OWN', leaf.args[0] == '==')
        p = dtab.option_leaf(leaf, item + '.1')
        if p is not None:
            return ('SN', not p)
        return None
    try:
        tab = dtab.Table(['OWN', 'SN'], classify).tabulate(run['result'])
    except AnalysisIncomplete:
        return False
    return all(bool(v is True or (isinstance(v, I.B) and v.op == 'const' and v.args[0])) == (not (own and sn)) for (own, sn), v in tab.items())


def r1(ctx, F, rule, sfx):
    sc = scen.build_scenario(F)
    b, cfg = sc.body, sc.cfg
    ctx.evaluations += sc.ip.evaluations
    # CFG part: Some arm of the switch on the stream item
    nb, nt = sc.next_block, sc.next_term
    some_arm = None
    dest = nt['dest']['l']
    cur = nt['target']
    # follow to the switch on discr(dest)
    seen = set()
    while cur is not None and cur not in seen:
        seen.add(cur)
        bl = b['blocks'][cur]
        t = bl['term']
        if t['k'] == 'switch':
            for v, tgt in t['targets']:
                if v == '1':
                    some_arm = tgt
            break
        cur = t.get('target') if t['k'] in ('goto', 'call', 'drop', 'assert') else None
    if some_arm is None:
        raise AnalysisIncomplete('switch on the stream item not found in the builder loop', b['path'])
    back_ok = sc.header not in cfg.reachable_from(some_arm, avoid={sc.clip_block}) or some_arm == sc.header
    skip_in_loop = False
    if not back_ok and len(sc.clip_events) == 1:
        # a path around the clip exists: accepted only if it is taken exactly for the generator's own unshifted item (`continue` form of
        # "take the self item off"); the abstract guard of the clip call names every condition under which the clip is bypassed
        others = [c for c in sc.clip_events[0].guard if not is_item_some(c) and not is_termination(c)]
        if others and self_skip_conditions(sc, others):
            back_ok = skip_in_loop = True
    ctx.check(rule, 'every-candidate-is-clipped' + sfx, back_ok, 'paths Some-arm(bb%d) -> loop header(bb%d) avoiding the clip call(bb%d): %s' % (some_arm, sc.header, sc.clip_block, 'none' if back_ok else 'exist'),
              'none', where(b, sc.clip_term['line']), key_extra='bypass')
    # stream provenance: the loop consumes the neighbour stream argument itself; the only items not offered to the
    # clip are those consumed explicitly before the loop (the self item); no filtering/truncating adaptor in between
    nev = [e for e in sc.ip.events if e.term is nt]
    if len(nev) != 1:
        raise AnalysisIncomplete('stream read evaluated %d times' % len(nev))
    chain, src = loop_stream(sc.ip, nev[0])
    names = [n for n, _ in chain]
    consumed = names.count('mut:next')
    skipped = [a for n, a in chain if n == 'skip']
    other = [n for n in names if n not in ('into_iter', 'mut:next', 'by_ref', 'skip')]
    nskip = consumed + sum(int(as_rf(a[0]).const_value()) if a and isinstance(a[0], RF) and a[0].is_const() else 99 for a in skipped)
    if other == ['filter'] and nskip == 0 and self_only_filter(sc):
        # the same thing written as a filter: exactly the unshifted item with the cell's own index is dropped, wherever it comes in the stream
        other, nskip = [], 1
    if not other and nskip == 0 and skip_in_loop:
        nskip = 1
    ok_stream = repr(src) == 'nn' and not other and nskip == 1
    ctx.check(rule, 'loop-consumes-the-whole-candidate-stream' + sfx, ok_stream, 'stream: %s over %r; items consumed before the loop: %d' % (' <- '.join(names), src, nskip),
              'the neighbour stream argument minus exactly its first item (the generator itself), no filtering adaptor', where(b, nt['line']), key_extra='stream:%s' % ','.join(other or ['skip%d' % nskip]))
    # abstract part: the clip is guarded only by "item is Some" and the negated termination test
    if len(sc.clip_events) != 1:
        raise AnalysisIncomplete('clip call evaluated %d times' % len(sc.clip_events))
    g = sc.clip_events[0].guard
    extra = []
    n_some = n_term = 0
    rest = []
    for c in g:
        txt = repr(c)
        if is_item_some(c):
            n_some += 1
        elif is_termination(c):
            n_term += 1
        else:
            rest.append(c)
    if rest and not (skip_in_loop and self_skip_conditions(sc, rest)):
        extra = [repr(c)[:160] for c in rest]
    ctx.check(rule, 'clip-guard' + sfx, not extra and n_term == 1, 'clip guarded by: item-is-Some x%d, termination test x%d, other: %s' % (n_some, n_term, extra or 'none'),
              'only the stream item test and the termination test', where(b, sc.clip_term['line']), key_extra='guard')


def r2(ctx, F, rule, sfx):
    sc = scen.build_scenario(F)
    b = sc.body
    if len(sc.hs_events) != 1:
        raise AnalysisIncomplete('half-space constructions in the builder: %d' % len(sc.hs_events))
    ev = sc.hs_events[0]
    w = where(b, ev.line)
    n, p, ridx, shift = ev.args
    X, sh, cs = c16.neighbour_position(sc, ev)
    # the clip receives exactly this half-space
    hs = sc.clip_events[0].args[1]
    ctx.check(rule, 'clip-receives-bisector' + sfx, I.vkey(hs) == I.vkey(ev.result), 'argument of the clip call', 'the half-space constructed from this candidate', w, key_extra='arg')
    # stream item provenance: idx and shift are the two components of the same item
    ix = I.single_atom(X)
    same_item = ix is not None and isinstance(sh, I.Sym) and ix.kind == 'app' and ix.name == 'field' and sh.atom.kind == 'app' and sh.atom.name == 'field' \
        and I.vkey(ix.args[0]) == I.vkey(sh.atom.args[0])
    ctx.check(rule, 'index-and-shift-of-one-item' + sfx, same_item, 'right_idx=%r shift=%r' % (X, sh), 'both taken from the same stream item', w, key_extra='item')
    L = sc.L
    for name, (mp, R) in cs.items():
        nk = [I.subst(x, mp) for x in c3(n)]
        pk = [I.subst(x, mp) for x in c3(p)]
        d = vsub(L, R)
        dist = nf.fn_sqrt(dot3(d, d))
        okn = all(nk[i] == d[i] / dist for i in range(3))
        okp = all(pk[i] == (L[i] + R[i]) / 2 for i in range(3))
        ctx.check(rule, 'normal-%s%s' % (name, sfx), okn, 'n = %r' % (nk[0],), '(L-R)/|L-R| with R = generators[i].loc%s' % (' + shift' if name == 'shifted' else ''), w, key_extra='normal')
        ctx.check(rule, 'midpoint-%s%s' % (name, sfx), okp, 'p.x = %r' % (pk[0],), '(L+R)/2', w, key_extra='midpoint')


def r3(ctx, F, rule, sfx):
    sc = scen.build_scenario(F)
    res = c16.termination_factor(ctx, F, sc)
    if res is None:
        ctx.bad(rule, 'termination' + sfx, 'termination test not recognised', 'c_l*safety_radius < c_r*|L-R|', where(sc.body), key_extra='no-test')
        return
    ab, w = res
    kf = c16.r1_quiet(ctx, F)
    if kf is None:
        raise AnalysisIncomplete('radius formula undetermined')
    ctx.check(rule, 'termination-factor' + sfx, ab * kf[0] >= 2, 'stops when |L-R| > %s * (max vertex distance)' % (ab * kf[0]), 'factor >= 2 (security radius theorem)', w, key_extra='factor')
    # the radius the test reads is current: re-established after every change of the vertex set, the start cell included (C16.R2)
    c16.r2(ctx, F, sfx, rule)


def r4(ctx, F, rule, sfx):
    # HalfSpace::new
    hn = F.body_by_suffix('half_space::HalfSpace::new')
    ip = I.Interp(F)
    n, p = I.sym_vec3('n'), I.sym_vec3('p')
    v, _ = ip.call_body(hn, [n, p, I.NONE, I.NONE])
    ctx.evaluations += ip.evaluations
    d = as_rf(I.get_field(v, 'd', 'f64'))
    pl = I.get_field(v, 'plane')
    ok = d == dot3(c3(n), c3(p)) and all(a == b for a, b in zip(c3(I.get_field(pl, 'n')), c3(n))) and all(a == b for a, b in zip(c3(I.get_field(pl, 'p')), c3(p)))
    ctx.check(rule, 'offset-d' + sfx, ok, 'd = %r' % d, 'n.p with plane (n, p) stored unchanged', where(hn), key_extra='d')
    errb = as_rf(I.get_field(v, 'errb', 'f64'))
    # the error bound is positive: EPS*(1 + |n|.|p|)
    ctx.check(rule, 'error-bound-positive-form' + sfx, errb.is_poly() and all(c > 0 for c in errb.num.values()) and () in errb.num
              and all(nf.atom_by_id(a).name == 'abs' for a in errb.atoms()), 'errb = %s' % repr(errb)[:120], 'eps*(1 + sum of |.|*|.| terms), eps > 0', where(hn), key_extra='errb')
    # HalfSpace::clip
    hc = F.body_by_suffix('half_space::HalfSpace::clip')
    ip = I.Interp(F)
    hs = I.St('voronoi::half_space::HalfSpace', 'HalfSpace', {'plane': I.St('geometry::Plane', 'Plane', {'n': n, 'p': p}), 'd': RF.sym('d'), 'errb': RF.sym('errb')})
    x = I.sym_vec3('v')
    cv, _ = ip.call_body(hc, [ip.ref_to(hs), x])
    ctx.evaluations += ip.evaluations
    e = dot3(c3(n), c3(x)) - RF.sym('d')
    # semantic table over the position of e = n.v - d relative to the window (-errb, errb): tie -> 0, otherwise the sign of e;
    # written with abs / signum or with plain comparisons against +-errb alike.  Representative values: errb = 2, e in {-3,-1,0,1,3}.
    from .. import dtab
    sg = I.single_atom(nf.fn_signum(e))
    ab = I.single_atom(nf.fn_abs(e))
    EB = RF.sym('errb')
    bad = []

    def leaf_value(leaf, ev):
        """truth of a comparison leaf when e == ev and errb == 2"""
        if leaf.op != 'cmp' or not (isinstance(leaf.args[1], RF) and isinstance(leaf.args[2], RF)):
            raise AnalysisIncomplete('clip() depends on a condition outside its model: %r' % (leaf,))
        dd = leaf.args[1] - leaf.args[2]
        # dd == alpha*e + beta*errb + gamma*|e| (+ delta*signum(e)) with constant coefficients
        beta = gamma = delta = Fraction(0)
        rest = dd
        for atom, which in ((I.single_atom(EB), 'b'), (ab, 'g'), (sg, 'd')):
            if atom is None:
                continue
            cl = rest.coeff_linear(atom) if rest.is_poly() else None
            if cl is None:
                continue
            co, rs = cl
            if not co.is_const():
                raise AnalysisIncomplete('clip() depends on a condition outside its model: %r' % (leaf,))
            if which == 'b':
                beta = co.const_value()
            elif which == 'g':
                gamma = co.const_value()
            else:
                delta = co.const_value()
            rest = rs
        q = rest / e if not rest.is_zero() else RF.const(0)
        if not q.is_const():
            raise AnalysisIncomplete('clip() depends on a condition outside its model: %r' % (leaf,))
        val_ = q.const_value() * ev + beta * 2 + gamma * abs(ev) + delta * ((ev > 0) - (ev < 0))
        return {'<': val_ < 0, '<=': val_ <= 0, '==': val_ == 0, '!=': val_ != 0, '>': val_ > 0, '>=': val_ >= 0}[leaf.args[0]]
    for ev in (-3, -1, 0, 1, 3):
        r = dtab.evaluate(as_rf(cv) if not isinstance(cv, I.Ite) else cv, lambda leaf, ev=ev: leaf_value(leaf, ev))
        r = as_rf(r)
        s_ = (ev > 0) - (ev < 0)
        if sg is not None:
            r = I.subst(r, {sg: RF.const(s_)})
        want = 0 if abs(ev) < 2 else s_
        if not (r.is_const() and r.const_value() == want):
            bad.append(('e = %+d*errb/2' % ev, 'value %s' % repr(r)[:30], 'want %d' % want))
    ctx.check(rule, 'clip-value' + sfx, not bad, 'mismatching cases (position of n.v-d, value): %s' % (bad[:3] or 'none'), '0 when |n.v-d| < errb else the sign of n.v-d', where(hc), key_extra='clip')
    # removal condition in the clip routine
    sc = scen.build_scenario(F)
    cb = F.body(sc.clip_path)
    r4_removal(ctx, F, rule, sfx, cb)


def clip_scenario(F, cb):
    key = ('clip', id(F))
    if key in scen._cache:
        return scen._cache[key]
    no_inline = set()
    for bb in F.bodies:
        pth = strip_generics(bb['path'])
        if pth.endswith(('Vertex::from_dual', '::update_safety_radius', '::compute_boundary', 'SimulationBoundary::iloc', 'HalfSpace::right_loc',
                         'geometry::in_sphere_test_exact', 'HalfSpace::clip', 'SimpleCycle::grow', 'SimpleCycle::iter')):
            no_inline.add(bb['path'])
        if bb['path'].startswith('<simple_cycle::') and bb['path'].endswith(' as std::iter::Iterator>::next'):
            no_inline.add(bb['path'])      # the cycle walker stays an opaque stream (clip_walk reads positions off the adaptor chain)
    ip = I.Interp(F, no_inline=no_inline)
    cell = I.St('voronoi::convex_cell::ConvexCell', None, {}, I.Sym(nf.sym_atom('cell'), 'voronoi::convex_cell::ConvexCell<voronoi::convex_cell::WithoutFaces>'))
    selfref = ip.ref_to(cell, cb['locals'][1]['ty'], mut=True)
    hs = I.Sym(nf.sym_atom('newplane'), 'voronoi::half_space::HalfSpace')
    gens = I.Sym(nf.sym_atom('generators'), '&[voronoi::generator::Generator]')
    bd = ip.ref_to(I.Sym(nf.sym_atom('boundary'), 'voronoi::boundary::SimulationBoundary'), '&voronoi::boundary::SimulationBoundary')
    args = []
    for i in range(1, cb['arg_count'] + 1):
        ty = cb['locals'][i]['ty']
        if ty.startswith('&mut') and 'ConvexCell' in ty:
            args.append(selfref)
        elif ty.endswith('half_space::HalfSpace'):
            args.append(hs)
        elif 'Generator' in ty:
            args.append(gens)
        elif 'SimulationBoundary' in ty:
            args.append(bd)
        else:
            raise AnalysisIncomplete('clip routine has an unexpected argument of type %s' % ty)
    ip.call_body(cb, args)
    res = (ip, selfref)
    scen._cache[key] = res
    return res


def r4_removal(ctx, F, rule, sfx, cb):
    ip, selfref = clip_scenario(F, cb)
    ctx.evaluations += ip.evaluations
    swaps = [e for e in ip.events if e.callee and e.callee.endswith('::swap') and e.body is cb]
    if len(swaps) != 1:
        raise AnalysisIncomplete('vertex removal (swap) sites in the clip routine: %d' % len(swaps))
    g = swaps[0].guard
    neg = [c for c in g if c.op == 'cmp' and c.args[0] == '<' and isinstance(c.args[2], RF) and c.args[2].is_zero()]
    ok = len(neg) == 1
    val = neg[0].args[1] if ok else None
    ctx.check(rule, 'remove-iff-negative' + sfx, ok, 'vertex removal guarded by %s' % [repr(c)[:100] for c in g[-2:]], 'side value < 0', where(cb, swaps[0].line), key_extra='removal')
    return val


def r5(ctx, F, rule, sfx):
    fd = F.body_by_suffix('Vertex::from_dual')
    ip = I.Interp(F, no_inline=['geometry::intersect_planes'])
    planes = I.Sym(nf.sym_atom('planes'), '&[voronoi::half_space::HalfSpace]')
    g = I.sym_vec3('G')
    v, _ = ip.call_body(fd, [RF.sym('i'), RF.sym('j'), RF.sym('k'), planes, g, I.St('voronoi::Dimensionality', 'ThreeD', {})])
    ctx.evaluations += ip.evaluations
    ie = [e for e in ip.events if e.callee == 'geometry::intersect_planes']
    if len(ie) != 1:
        raise AnalysisIncomplete('three-plane intersections in the vertex constructor: %d' % len(ie))
    used = sorted(repr(a) for a in ie[0].fargs)
    want = sorted('planes[%s].plane' % x for x in 'ijk')
    loc_ok = I.vkey(I.get_field(v, 'loc')) == I.vkey(ie[0].result)
    ctx.check(rule, 'vertex-constructor' + sfx, used == want and loc_ok, 'loc = intersect(%s)' % ', '.join(used), 'intersection of planes[i], planes[j], planes[k] (the dual)', where(fd), key_extra='planes')
    # creation sites
    sites = 0
    for b in F.bodies:
        if 'convex_cell_alternative' in b['path']:
            continue
        for bl, t in calls(b):
            if callee_name(t) == fd['path']:
                sites += 1
    ctx.floor(rule, 'vertex creation sites' + sfx, sites, 2)     # at least the start cell and the clip routine (9 call sites on the pinned tree)
    # clip routine site: planes argument is the cell's own plane list (after the push), generator is the cell's
    sc = scen.build_scenario(F)
    cb = F.body(sc.clip_path)
    ipc, selfref = clip_scenario(F, cb)
    evs = [e for e in ipc.events if e.callee == fd['path'] and e.body is cb]
    if len(evs) != 1:
        raise AnalysisIncomplete('vertex constructor calls evaluated in the clip routine: %d' % len(evs))
    e = evs[0]
    pl = repr(e.fargs[3])
    gl = repr(e.fargs[4])
    newidx = repr(e.args[2])
    ok_pl = 'clipping_planes' in pl and pl.startswith(('mut:', 'cell.', 'phi'))
    ctx.check(rule, 'clip-site-planes' + sfx, 'clipping_planes' in pl, pl[:160], 'the cell\'s plane list', where(cb, e.line), key_extra='planes-arg')
    ctx.check(rule, 'clip-site-generator' + sfx, gl.replace(' ', '') in ('cell.loc', 'DVec3{x:cell.loc.x,y:cell.loc.y,z:cell.loc.z}'), gl[:120], 'the cell\'s generator position', where(cb, e.line), key_extra='generator-arg')
    # the third index is the index at which the new plane was pushed (= len before the push)
    push = [x for x in ipc.events if x.callee and x.callee.endswith('Vec::<T, A>::push') and x.body is cb and repr(x.fargs[1]) == 'newplane' and 'clipping_planes' in repr(x.fargs[0])]
    ok_idx = len(push) == 1 and newidx.startswith('len(') and 'clipping_planes' in newidx
    c16.initial_vertices(ctx, F, rule, sfx)
    ctx.check(rule, 'clip-site-new-plane-index' + sfx, ok_idx, 'third dual index = %s; new plane pushed %d time(s)' % (newidx[:80], len(push)), 'len(planes) before pushing the new plane', where(cb, e.line), key_extra='new-index')


def r9(ctx, F, rule, sfx):
    from . import c08
    c08.r1(ctx, F, rule, sfx)


def r8(ctx, F, rule, sfx):
    from . import c17
    c17.r1(ctx, F, rule, sfx)
    c17.r2(ctx, F, rule, sfx)
    c17.r3(ctx, F, rule, sfx)
    c17.r5(ctx, F, rule, sfx)


def r6(ctx, F, rule, sfx):
    integrals_start_from_zero(ctx, F, rule, sfx, 'voronoi::integrals::CellIntegral')
    # what users read: the cell accessors return the stored values
    accessor_consistency(ctx, F, rule, sfx, 'voronoi_cell::VoronoiCell', ['volume', 'centroid', 'loc'])
    cell_record_constructor(ctx, F, rule, sfx)
    n = 0
    for imp in F.impls_of_trait('voronoi::integrals::CellIntegral'):
        st = imp['self']
        col = F.body('<%s as voronoi::integrals::CellIntegral>::collect' % st, required=False)
        fin = F.body('<%s as voronoi::integrals::CellIntegral>::finalize' % st, required=False)
        if col is None or fin is None:
            continue
        a = F.adt(st, required=False)
        fields = [f['name'] for f in a['variants'][0]['fields']] if a else []
        if 'volume' not in fields:
            continue
        n += 1
        ip = I.Interp(F)
        me = I.St(st, st.split('::')[-1], {'volume': RF.sym('W')})
        if 'centroid' in fields:
            me = I.set_field(me, 'centroid', I.sym_vec3('C'))
        ref = ip.ref_to(me, '&mut ' + st, mut=True)
        pts = [I.sym_vec3(x) for x in ('v0', 'v1', 'v2', 'g')]
        ip.call_body(col, [ref] + pts)
        ctx.evaluations += ip.evaluations
        after = I.read_lv(ref.lv)
        P = [c3(x) for x in pts]
        V = det3(vsub(P[1], P[0]), vsub(P[2], P[0]), vsub(P[3], P[0])) / 6
        w = where(col)
        inst = st.split('::')[-1]
        ctx.check(rule, '%s:volume-accumulation%s' % (inst, sfx), as_rf(I.get_field(after, 'volume')) == RF.sym('W') + V, 'volume\' = %r' % (as_rf(I.get_field(after, 'volume')) - RF.sym('W'),), 'volume + signed_volume_tet(v0,v1,v2,apex)', w, key_extra='volume')
        if 'centroid' in fields:
            Cn = c3(I.get_field(after, 'centroid'))
            C0 = [RF.sym('C.' + c) for c in 'xyz']
            ok = all(Cn[i] == C0[i] + V * (P[0][i] + P[1][i] + P[2][i] + P[3][i]) for i in range(3))
            ctx.check(rule, '%s:centroid-accumulation%s' % (inst, sfx), ok, 'centroid increment', 'vol*(v0+v1+v2+apex): equal weights on the four points', w, key_extra='centroid')
            ip2 = I.Interp(F)
            me2 = I.St(st, inst, {'volume': RF.sym('W'), 'centroid': I.sym_vec3('C')})
            out, _ = ip2.call_body(fin, [me2])
            ctx.evaluations += ip2.evaluations
            oc = c3(I.get_field(out, 'centroid'))
            ok_pos = ok_zero = False
            lv = split_cases(oc[0])
            for conds, leaf in lv:
                if len(conds) != 1:
                    continue
                c = conds[0]
                positive = c.op == 'cmp' and c.args[0] == '<' and isinstance(c.args[1], RF) and c.args[1].is_zero() and repr(c.args[2]) == 'W'
                if positive:
                    ok_pos = as_rf(leaf) == C0[0] * Fraction(1, 4) / RF.sym('W')
                else:
                    ok_zero = as_rf(leaf).is_zero()
            ctx.check(rule, '%s:normalisation%s' % (inst, sfx), ok_pos and ok_zero and as_rf(I.get_field(out, 'volume')) == RF.sym('W'), 'centroid.x -> %s' % repr(oc[0])[:120], 'C*(1/4)/W when W > 0, else 0; volume unchanged', where(fin), key_extra='normalisation')
    ctx.floor(rule, 'built-in cell integrals with a volume' + sfx, n, 2)
    # apex provenance: compute_cell_integral feeds (tet.v0, v1, v2, self.loc)
    cci = F.body_by_suffix('ConvexCell::compute_cell_integral')
    cl = [(bl, t) for bl, t in calls(cci) if (t.get('callee') or '').endswith('CellIntegral::collect')]
    if len(cl) != 1:
        raise AnalysisIncomplete('collect calls in compute_cell_integral: %d' % len(cl))
    bl, t = cl[0]
    src = operand_source(cci, t['args'][4])
    ctx.check(rule, 'apex-is-generator' + sfx, src == ['loc'], 'apex argument <- self.%s' % src, 'self.loc', where(cci, t['line']), key_extra='apex')
    tets = [resolve_const_indices(cci, operand_source(cci, t['args'][i])) for i in (1, 2, 3)]
    ctx.check(rule, 'tet-vertices-in-order' + sfx, tets == [['vertices', 0], ['vertices', 1], ['vertices', 2]], 'vertex arguments <- %s' % tets, 'tet.vertices[0], [1], [2]', where(cci, t['line']), key_extra='tet-order')


def operand_source(b, op):
    """Field path (names / constant indices) of the place a temporary operand was copied from."""
    if op['k'] not in ('copy', 'move'):
        return None
    l = op['place']['l']
    if op['place']['p']:
        return path_names(op['place'])
    defs = [s for bl in b['blocks'] for s in bl['stmts'] if s['k'] == 'assign' and s['place']['l'] == l and not s['place']['p']]
    if len(defs) != 1 or defs[0]['rv']['k'] != 'use' or defs[0]['rv']['x']['k'] not in ('copy', 'move'):
        return None
    return path_names(defs[0]['rv']['x']['place'])


def path_names(place):
    out = []
    for e in place['p']:
        if e['k'] == 'field':
            out.append(e.get('n', e['i']))
        elif e['k'] == 'cindex':
            out.append(e['off'])
        elif e['k'] == 'index':
            out.append('[_%d]' % e['l'])
    return out


def resolve_const_indices(b, names):
    """Replace '[_n]' entries by the integer constant assigned to local n, when it is one."""
    out = []
    for x in names or []:
        if isinstance(x, str) and x.startswith('[_'):
            l = int(x[2:-1])
            defs = [s for bl in b['blocks'] for s in bl['stmts'] if s['k'] == 'assign' and s['place']['l'] == l and not s['place']['p']]
            if len(defs) == 1 and defs[0]['rv']['k'] == 'use' and 'int' in defs[0]['rv']['x']:
                out.append(int(defs[0]['rv']['x']['int']))
                continue
        out.append(x)
    return out


def _store_map(v, base='P'):
    """Nested store(store(P, i, x), j, y) -> ({repr(i): repr(x), ...}, base repr)."""
    out = {}
    cur = v
    chain = []
    while True:
        cur = cur.atom if isinstance(cur, I.Sym) else cur
        if isinstance(cur, nf.Atom) and cur.kind == 'app' and cur.name == 'store':
            chain.append((repr(cur.args[1]), repr(cur.args[2])))
            cur = cur.args[0]
            continue
        break
    for i, x in reversed(chain):
        out[i] = x
    return out, repr(cur)


def cycle_roles(F):
    """Private layout of SimpleCycle and its iterator by role, from the field types and from what iter() stores:
    the successor table is the Vec<usize>; the usize handed to the iterator's cursor is the start; the other is the length."""
    a = F.adt_by_path.get('simple_cycle::SimpleCycle')
    itb = F.body_by_suffix('SimpleCycle::iter')
    it = None
    rty = re.sub(r"<.*$", '', (itb.get('ret') or itb['locals'][0]['ty'])).strip()
    it = F.adt_by_path.get(rty)
    if not a or not it:
        raise AnalysisIncomplete('SimpleCycle / the walker returned by SimpleCycle::iter (%s) not found' % rty)
    fs = a['variants'][0]['fields']
    vecs = [f['name'] for f in fs if f['ty'].replace(' ', '') == 'std::vec::Vec<usize>']
    us = [f['name'] for f in fs if f['ty'] == 'usize']
    ifs = it['variants'][0]['fields']
    irefs = [f['name'] for f in ifs if f['ty'].endswith('simple_cycle::SimpleCycle') and f['ty'].startswith('&')]
    IT = it['path']
    ius = [f['name'] for f in ifs if f['ty'] == 'usize']
    if len(vecs) != 1 or len(us) != 2 or len(fs) != 3 or len(irefs) != 1 or len(ius) != 1 or len(ifs) != 2:
        raise AnalysisIncomplete('unexpected layout of SimpleCycle (%s) or its iterator (%s)' % ([f['name'] for f in fs], [f['name'] for f in ifs]))
    cyc = I.St('simple_cycle::SimpleCycle', 'SimpleCycle', {vecs[0]: I.Sym(nf.sym_atom('P'), 'std::vec::Vec<usize>'), us[0]: RF.sym('U0'), us[1]: RF.sym('U1')})
    ip = I.Interp(F)
    v, _ = ip.call_body(F.body_by_suffix('SimpleCycle::iter'), [ip.ref_to(cyc)])
    cur = repr(I.get_field(v, ius[0]))
    if cur not in ('U0', 'U1'):
        raise AnalysisIncomplete('iter() starts its cursor at %s' % cur)
    start = us[0] if cur == 'U0' else us[1]
    ln = us[1] if cur == 'U0' else us[0]
    return {'ptrs': vecs[0], 'start': start, 'len': ln, 'it_cycle': irefs[0], 'it_next': ius[0], 'it_adt': IT}


T3 = 'abc'


def try_extend_outcomes(ctx, F):
    """Abstractly evaluate SimpleCycle::try_extend(a, b, c) on a symbolic cycle (successor table P, start S, length N) and
    tabulate its effect under every assignment of the conditions it tests (Pxy: `ptrs[x] == y`, Sx: `start == x`).
    -> (body, atoms used, all atom names, [(env, stores, base, len delta (RF), start, result)])"""
    import itertools
    from .. import dtab
    te = F.body_by_suffix('SimpleCycle::try_extend')
    ip = I.Interp(F)
    ip.unroll_limit = 4
    ip.unroll_allow_returns = True
    RO = cycle_roles(F)
    cyc = I.St('simple_cycle::SimpleCycle', 'SimpleCycle', {RO['ptrs']: I.Sym(nf.sym_atom('P'), 'std::vec::Vec<usize>'), RO['start']: RF.sym('S'), RO['len']: RF.sym('N')})
    r = ip.ref_to(cyc, mut=True)
    v, rets = ip.call_body(te, [r, RF.sym('a'), RF.sym('b'), RF.sym('c')])
    ctx.evaluations += ip.evaluations
    final = I.read_lv(r.lv)
    if 'phi' in repr(final) or '::next(' in repr(final):
        raise AnalysisIncomplete('the rotation loop of try_extend did not unroll')
    T = T3
    names = ['P%s%s' % (x, y) for x in T for y in T] + ['S' + x for x in T]

    def classify(leaf):
        if leaf.op == 'cmp' and leaf.args[0] in ('==', '!='):
            a_, b_ = repr(leaf.args[1]), repr(leaf.args[2])
            for x, y in ((a_, b_), (b_, a_)):
                if x.startswith('P[') and x.endswith(']') and x[2:-1] in T and y in T:
                    return ('P%s%s' % (x[2:-1], y), leaf.args[0] == '==')
                if x == 'S' and y in T:
                    return ('S' + y, leaf.args[0] == '==')
        return None
    used = set()
    for x in (I.get_field(final, RO['ptrs']), I.get_field(final, RO['start']), I.get_field(final, RO['len']), v):
        for l in dtab.b_leaves(x).values():
            c = classify(l)
            if c is None:
                raise AnalysisIncomplete('try_extend depends on a condition outside the cycle model: %r' % (l,))
            used.add(c[0])
    atoms = [n for n in names if n in used]
    out = []
    for bits in itertools.product((False, True), repeat=len(atoms)):
        env = dict(zip(atoms, bits))
        env.update({n: False for n in names if n not in env})

        def val(leaf):
            n, pol = classify(leaf)
            return env[n] == pol
        got_p = dtab.evaluate(I.get_field(final, RO['ptrs']), val)
        gm, gbase = _store_map(got_p)
        got_len = as_rf(dtab.evaluate(as_rf(I.get_field(final, RO['len'])), val)) - RF.sym('N')
        got_start = repr(dtab.evaluate(as_rf(I.get_field(final, RO['start'])), val))
        got_res = dtab.evaluate(v, val)
        gres = getattr(got_res, 'variant', None) or repr(got_res)
        out.append((env, gm, gbase, got_len, got_start, gres))
    return te, atoms, names, out


def try_extend_spec(env):
    """Meaning of one attachment step: (stores, len delta, new start or None, result)."""
    T = T3
    contained = {x: not env['P%s%s' % (x, x)] for x in T}
    for i, j, k in ((0, 1, 2), (1, 2, 0), (2, 0, 1)):
        ti, tj, tk = T[i], T[j], T[k]
        if (not contained[ti]) and contained[tj] and contained[tk] and env['P%s%s' % (tk, tj)]:
            return {tk: ti, ti: tj}, 1, None, 'Ok'
        if contained[ti] and contained[tj] and contained[tk] and env['P%s%s' % (tk, tj)] and env['P%s%s' % (tj, ti)]:
            return {tk: ti, tj: tj}, -1, (ti if env['S' + tj] else None), 'Ok'
    return {}, 0, None, 'Err'


def r7(ctx, F, rule, sfx):
    from .. import dtab
    te, atoms, names, outcomes = try_extend_outcomes(ctx, F)
    RO = cycle_roles(F)
    cyc = I.St('simple_cycle::SimpleCycle', 'SimpleCycle', {RO['ptrs']: I.Sym(nf.sym_atom('P'), 'std::vec::Vec<usize>'), RO['start']: RF.sym('S'), RO['len']: RF.sym('N')})
    w = where(te)
    bad = []
    rows = 0
    for env, gm, gbase, got_len, got_start, gres in outcomes:
        rows += 1
        exp_st, exp_len, exp_start, exp_res = try_extend_spec(env)
        ok = gm == exp_st and gbase == 'P' and got_len.is_const() and got_len.const_value() == exp_len and got_start == (exp_start or 'S') and gres == exp_res
        if not ok:
            bad.append((dtab.fmt_env({k_: v_ for k_, v_ in env.items() if k_ in atoms and v_}), gm, got_len, got_start, gres, exp_st, exp_len, exp_start, exp_res))
    if bad:
        b0 = bad[0]
        ctx.bad(rule, 'try_extend-edge-surgery' + sfx, '%d of %d rows differ; e.g. with [%s]: stores %s, len %+d, start %s, %s' % (len(bad), rows, b0[0], b0[1], int(b0[2].const_value()) if b0[2].is_const() else 0, b0[3], b0[4]),
                'stores %s, len %+d, start %s, %s' % (b0[5], b0[6], b0[7] or 'S', b0[8]), w, key_extra='surgery')
    else:
        ctx.ok(rule, 'try_extend-edge-surgery' + sfx, '%d rows over %d atoms agree' % (rows, len(atoms)), 'insert t_i between t_k and t_j / contract t_k->t_j->t_i / else unchanged', w)
    # init: a -> b -> c -> a, start a, len 3 (the reset of the previous cycle is a loop over runtime data: not decided)
    ini = F.body_by_suffix('SimpleCycle::init')
    ip2 = I.Interp(F)
    r2 = ip2.ref_to(cyc, mut=True)
    ip2.call_body(ini, [r2, RF.sym('a'), RF.sym('b'), RF.sym('c')])
    ctx.evaluations += ip2.evaluations
    fin = I.read_lv(r2.lv)
    gm, gbase = _store_map(I.get_field(fin, RO['ptrs']))
    ok = gm == {'a': 'b', 'b': 'c', 'c': 'a'} and repr(I.get_field(fin, RO['start'])) == 'a' and as_rf(I.get_field(fin, RO['len'])) == RF.const(3)
    ctx.check(rule, 'init-is-triangle-cycle' + sfx, ok, 'stores %s, start %s, len %s' % (gm, repr(I.get_field(fin, RO['start'])), repr(I.get_field(fin, RO['len']))), 'a -> b -> c -> a, start = a, len = 3', where(ini), key_extra='init')
    # iterator follows successor pointers from start
    itb = F.body_by_suffix('SimpleCycle::iter')
    ip3 = I.Interp(F)
    v3, _ = ip3.call_body(itb, [ip3.ref_to(cyc)])
    ok = repr(I.get_field(v3, RO['it_next'])) == 'S'
    nb = [b for b in F.bodies if RO['it_adt'] in b['path'] and b['path'].endswith('::next')]
    if len(nb) == 1:
        ip4 = I.Interp(F)
        st_ = I.St(RO['it_adt'], RO['it_adt'].rsplit('::', 1)[-1], {RO['it_cycle']: ip4.ref_to(cyc), RO['it_next']: RF.sym('cur')})
        r4_ = ip4.ref_to(st_, mut=True)
        v4, _ = ip4.call_body(nb[0], [r4_])
        ok = ok and isinstance(v4, I.St) and v4.variant == 'Some' and repr(v4.fields[0]) == 'cur' and repr(I.get_field(I.read_lv(r4_.lv), RO['it_next'])) == 'P[cur]'
    else:
        ok = False
    ctx.check(rule, 'cycle-walk-follows-successors' + sfx, ok, 'iter starts at %s' % repr(I.get_field(v3, RO['it_next'])), 'yield cur, then cur := ptrs[cur], starting at start', where(itb), key_extra='walk')
    # compute_boundary: init from the first removed vertex, every other removed vertex offered in stored order
    cb = F.body_by_suffix('ConvexCell::compute_boundary')
    no = [b['path'] for b in F.bodies if 'simple_cycle::SimpleCycle' in b['path']]
    ip5 = I.Interp(F, no_inline=no)
    vs = I.Sym(nf.sym_atom('vs'), '&mut [voronoi::convex_cell::Vertex]')
    ip5.call_body(cb, [ip5.ref_to(I.Sym(nf.sym_atom('cyc'), 'simple_cycle::SimpleCycle'), mut=True), vs])
    ctx.evaluations += ip5.evaluations
    wcb = where(cb)
    ie = [e for e in ip5.events if e.callee and e.callee.endswith('SimpleCycle::init')]
    ok = len(ie) == 1 and [repr(a) for a in ie[0].fargs[1:]] == ['vs[0].dual[%d]' % i for i in range(3)] and not ie[0].in_loop
    ctx.check(rule, 'cycle-starts-from-first-removed-vertex' + sfx, ok, [repr(a) for a in ie[0].fargs[1:]] if ie else 'no init', 'boundary.init(vertices[0].dual[0], [1], [2])', wcb, key_extra='cb-init')
    tev = [e for e in ip5.events if e.callee and e.callee.endswith('SimpleCycle::try_extend')]
    ok = len(tev) == 1
    if ok:
        a_ = [repr(x) for x in tev[0].fargs[1:]]
        pre = a_[0][:-len('.dual[0]')] if a_[0].endswith('.dual[0]') else None
        ok = pre is not None and a_ == ['%s.dual[%d]' % (pre, i) for i in range(3)]
    ctx.check(rule, 'triples-offered-in-stored-order' + sfx, ok, [repr(x)[-30:] for x in tev[0].fargs[1:]] if tev else 'no try_extend', 'try_extend(v.dual[0], v.dual[1], v.dual[2]) of one candidate vertex', wcb, key_extra='cb-extend')
    outer = [L for L in ip5.loops if L['body'] is cb]
    rng = [repr(I.frozen(x)) for L in outer for x in L['init'] if x is not None and 'Range{' in repr(I.frozen(x))]
    ctx.check(rule, 'every-removed-vertex-attached' + sfx, any(x.replace(' ', '') == 'Range{start:1,end:len(vs)}' for x in rng), rng[:2], 'for i in 1..vertices.len()', wcb, key_extra='cb-range')
    # clip routine: removed vertices = tail [num_v..]; walk len+1 items; grow once when a plane is added
    sc = scen.build_scenario(F)
    clipb = F.body(sc.clip_path)
    ipc, selfref = clip_scenario(F, clipb)
    cbe = [e for e in ipc.events if e.callee == cb['path'] and e.body is clipb]
    tk = [e for e in ipc.events if e.callee and e.callee.endswith('Iterator::take') and e.body is clipb]
    gr = [e for e in ipc.events if e.callee and e.callee.endswith('SimpleCycle::grow') and e.body is clipb]
    tr = [e for e in ipc.events if e.callee and e.callee.endswith('Vec::<T, A>::truncate') and e.body is clipb]
    wcl = where(clipb)
    ok = len(cbe) == 1 and 'RangeFrom{start: ' in repr(cbe[0].fargs[1]) and '.vertices' in repr(cbe[0].fargs[1])
    ctx.check(rule, 'removed-vertices-passed-to-boundary' + sfx, ok, repr(cbe[0].fargs[1])[-120:] if cbe else 'no call', '&mut self.vertices[num_v..]', wcl, key_extra='clip-tail')
    wk = clip_walk(F)
    cnt = repr(wk['count']) if wk['count'] is not None else 'unbounded'
    ok = wk['count'] is not None and cnt.startswith('mut:') and 'compute_boundary(0, \'%s\'' % RO['len'] in cnt and 'compute_boundary' in wk['cycle']
    ctx.check(rule, 'walk-closes-the-cycle' + sfx, ok, 'one vertex per item of a stream of %s pairs over %s' % (cnt[:60], wk['cycle'][:50]), 'len pairs (cur, next) of the reconstructed cycle: the walk takes len + 1 items', wcl, key_extra='clip-take')
    ctx.check(rule, 'cycle-grows-with-each-new-plane' + sfx, len(gr) == 1, '%d grow call(s)' % len(gr), 'one boundary.grow() per pushed plane', wcl, key_extra='clip-grow')
    if tr and cbe:
        # truncate to the same num_v the tail starts from
        m = repr(cbe[0].fargs[1])
        ok = repr(tr[0].fargs[1]) in m
        ctx.check(rule, 'truncate-drops-exactly-the-removed' + sfx, ok, repr(tr[0].fargs[1])[:60], 'self.vertices.truncate(num_v)', wcl, key_extra='clip-truncate')


# ------------------------------------------------------------------------------------------------------------------
def _walk_descriptor(v):
    """Position arithmetic of a stream derived from the cycle walk W = (start, ptrs[start], ...): -> dict(off, bound, src) for a
    plain stream (its t-th item is W[off + t], t < bound; bound None = unbounded) or dict(pair=(a, b), bound) for a zip."""
    ch, src = stream_chain(I.frozen(v))
    d = None
    if isinstance(src, I.St) and src.base is not None:
        # a walker whose fields were advanced by an opaque `next`: W after one item
        for fv in src.fields.values():
            at = fv.atom if isinstance(fv, I.Sym) else (I.single_atom(fv) if isinstance(fv, RF) else None)
            if at is not None and at.kind == 'app' and at.name.startswith('mut:') and at.name.endswith('::next'):
                inner = [a for a in at.args[1:] if not isinstance(a, (int, str))]
                if inner:
                    d = _walk_descriptor(inner[0])
                    d['off'] = d['off'] + 1
                    if d['bound'] is not None:
                        d['bound'] = d['bound'] - 1
                    break
    for name, args in reversed(ch):
        if name == 'iter' and d is None:
            d = {'off': RF.const(0), 'bound': None, 'src': src}
        elif d is None:
            raise AnalysisIncomplete('stream over %s does not start at SimpleCycle::iter' % repr(src)[:60])
        elif name in ('into_iter', 'by_ref', 'fuse'):
            continue
        elif name.startswith('mut:') and name.endswith('next'):
            if 'pair' in d:
                raise AnalysisIncomplete('item taken out of a zipped walk')
            d['off'] = d['off'] + 1
            if d['bound'] is not None:
                d['bound'] = d['bound'] - 1
        elif name == 'take':
            n = as_rf(args[0])
            d['bound'] = n if d['bound'] is None else nf.fn_min(d['bound'], n)
        elif name == 'skip':
            if 'pair' in d:
                raise AnalysisIncomplete('skip on a zipped walk')
            d['off'] = d['off'] + as_rf(args[0])
            if d['bound'] is not None:
                d['bound'] = d['bound'] - as_rf(args[0])
        elif name == 'zip':
            o = _walk_descriptor(args[0])
            if 'pair' in d or 'pair' in o:
                raise AnalysisIncomplete('nested zip of walks')
            b = d['bound'] if o['bound'] is None else (o['bound'] if d['bound'] is None else nf.fn_min(d['bound'], o['bound']))
            d = {'pair': (d, o), 'bound': b, 'src': d['src']}
        else:
            raise AnalysisIncomplete('adaptor %s on the cycle walk is not modelled' % name)
    if d is None:
        raise AnalysisIncomplete('not a stream over the cycle walk: %s' % repr(v)[:80])
    return d


def clip_walk(F):
    """How the clip routine turns the reconstructed boundary cycle into new vertices, as positions on the walk
    W = (start, ptrs[start], ptrs[ptrs[start]], ...): -> dict(cur=offset of the first plane, next=offset of the second plane,
    count=number of vertices created, cycle=text of the cycle walked, len=text of its length, event=the from_dual event)."""
    sc = scen.build_scenario(F)
    cb = F.body(sc.clip_path)
    ip, selfref = clip_scenario(F, cb)
    fd = [e for e in ip.events if e.callee and strip_generics(e.callee).endswith('Vertex::from_dual') and e.body is cb]
    if len(fd) != 1:
        raise AnalysisIncomplete('vertex creation sites in the clip routine: %d' % len(fd))
    e = fd[0]
    L = loop_of_event(ip, e)
    if L is None:
        raise AnalysisIncomplete('vertex creation is not in a loop')
    nx = [x for x in next_events(ip, cb) if x.in_loop and event_block(x) in L['blocks']]
    if len(nx) != 1:
        raise AnalysisIncomplete('the vertex creation loop reads %d streams' % len(nx))
    rec, li = loop_record_of(ip, nx[0])
    d = _walk_descriptor(rec['init'][li])
    item = I.get_field(I.downcast(nx[0].result, 'Some'), 0)
    a0, a1 = e.fargs[0], e.fargs[1]

    def pos_of(x):
        """offset on the walk of a from_dual argument"""
        tx = repr(I.frozen(x))
        if 'pair' in d:
            for k in (0, 1):
                if tx == repr(I.frozen(I.get_field(item, k))):
                    return d['pair'][k]['off']
            return None
        if tx == repr(I.frozen(item)):
            return d['off']
        # loop-carried: initialised with an item taken from the walk before the loop, then the previous item
        for i, (a, p) in enumerate(zip(rec['init'], rec['phi'])):
            if p is not None and a is not None and a is not p and repr(I.frozen(p)) == tx:
                backs = [vals.get(i) for g, vals in rec['back']]
                if not backs or not all(repr(I.frozen(b)) == repr(I.frozen(item)) for b in backs):
                    return None
                ini = I.frozen(a)
                at = ini.atom if isinstance(ini, I.Sym) else I.single_atom(as_rf(ini)) if isinstance(ini, RF) else None
                # unwrap(next(X)) / next(X).Some.0
                while at is not None and at.kind == 'app' and at.name in ('unwrap', 'field'):
                    at = at.args[0].atom if isinstance(at.args[0], I.Sym) else at.args[0]
                    if not isinstance(at, nf.Atom):
                        at = None
                if at is None or at.kind != 'app' or not (at.name.startswith('call:') and at.name.endswith('::next')):
                    return None
                d0 = _walk_descriptor(at.args[0])
                if 'pair' in d0 or repr(d0['src']) != repr(d['src']):
                    return None
                # the loop stream must continue right after that item
                if not (d['off'] - d0['off'] - 1).is_zero():
                    return None
                return d['off'] - 1
        return None
    return {'cur': pos_of(a0), 'next': pos_of(a1), 'count': d['bound'], 'cycle': repr(d['src']), 'event': e, 'body': cb, 'ip': ip}
