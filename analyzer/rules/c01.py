"""C01 — every cell is the nearest-generator region of its generator (necessary structural clauses)."""
from fractions import Fraction
from .. import interp as I, nf
from ..nf import RF, as_rf
from ..tables import c3, dot3, cross3, det3
from ..facts import AnalysisIncomplete, strip_generics, calls, callee_name
from ..cfg import CFG
from .util import *
from . import scen, c16

META = {
    'level': 'other',
    'configs': {'quick': ['default'], 'thorough': ['default', 'norayon', 'default_nodebug']},
    'rules': {
        'R1': 'clip-or-terminate: in the builder loop every normal path from a received candidate back to the loop header passes through the clip call; the clip is skipped only by the termination test',
        'R2': 'bisector: the half-space built for a candidate has n == (L-R)/|L-R|, p == (L+R)/2, R == generators[i].loc (+ shift when present), right_idx == Some(i) and the shift of the same stream item',
        'R3': 'termination radius: the loop ends only when the candidate is farther than 2x the farthest vertex (shared with C16.R4)',
        'R4': 'side test: HalfSpace::new stores d == n.p; clip(v) is 0 (tie) or signum(n.v - d); the clip routine removes a vertex iff that value (or the exact predicate on ties) is < 0',
        'R5': 'a vertex is the intersection of exactly the three planes listed in its dual, at both vertex creation sites, against the cell\'s own plane list and generator',
        'R6': 'built-in integrals: volume = sum signed_volume_tet(v0,v1,v2,apex); centroid = sum vol*(v0+v1+v2+apex) * (1/4)/sum vol with the cell generator as apex',
    },
    'explanation': 'Decides necessary conditions of the incremental construction, each for all inputs: the loop clips with every '
                   'candidate it does not terminate on (R1); the clipping plane is the perpendicular bisector of the generator and the '
                   '(shifted) neighbour as an identity of normal forms (R2); termination obeys the security-radius theorem (R3); the '
                   'sign convention of the side test matches the inward normal (R4); vertices are tied to the planes they are computed '
                   'from (R5); volume/centroid accumulate the documented signed tetrahedra with weights summing to one (R6). Not '
                   'decided: that the sequence of clips yields the right vertex set and the correctness of the tetrahedral '
                   'decompositions (numeric/topological, runtime-value dependent).',
    'trusted_base': ['glam semantics table', 'std Iterator::next on the boxed stream as an uninterpreted source of (index, shift) items', 'E0 extractor'],
    'assumptions': ['real arithmetic', 'C17 (candidates arrive in order of distance)'],
}


def run(ctx):
    for cfg in ctx.configs_used:
        F = ctx.facts(cfg)
        sfx = '' if cfg == 'default' else '@' + cfg
        for fn in (r1, r2, r3, r4, r5, r6):
            rule = 'C01.' + fn.__name__.upper()
            ctx.guarded(rule, 'evaluate' + sfx, lambda: fn(ctx, F, rule, sfx))


def r1(ctx, F, rule, sfx):
    sc = scen.build_scenario(F)
    b, cfg = sc.body, sc.cfg
    ctx.evaluations += sc.ip.evaluations
    # CFG part: Some arm of the switch on the stream item
    nb, nt = sc.next_block, sc.next_term
    some_arm = None
    dest = nt['dest']['l']
    cur = nt['target']
    # follow to the switch on discr(dest)
    seen = set()
    while cur is not None and cur not in seen:
        seen.add(cur)
        bl = b['blocks'][cur]
        t = bl['term']
        if t['k'] == 'switch':
            for v, tgt in t['targets']:
                if v == '1':
                    some_arm = tgt
            break
        cur = t.get('target') if t['k'] in ('goto', 'call', 'drop', 'assert') else None
    if some_arm is None:
        raise AnalysisIncomplete('switch on the stream item not found in the builder loop', b['path'])
    back_ok = sc.header not in cfg.reachable_from(some_arm, avoid={sc.clip_block}) or some_arm == sc.header
    ctx.check(rule, 'every-candidate-is-clipped' + sfx, back_ok, 'paths Some-arm(bb%d) -> loop header(bb%d) avoiding the clip call(bb%d): %s' % (some_arm, sc.header, sc.clip_block, 'none' if back_ok else 'exist'),
              'none', where(b, sc.clip_term['line']), key_extra='bypass')
    # stream provenance: the loop consumes the neighbour stream argument itself; the only items not offered to the
    # clip are those consumed explicitly before the loop (the self item); no filtering/truncating adaptor in between
    nev = [e for e in sc.ip.events if e.term is nt]
    if len(nev) != 1:
        raise AnalysisIncomplete('stream read evaluated %d times' % len(nev))
    chain, src = loop_stream(sc.ip, nev[0])
    names = [n for n, _ in chain]
    consumed = names.count('mut:next')
    skipped = [a for n, a in chain if n == 'skip']
    other = [n for n in names if n not in ('into_iter', 'mut:next', 'by_ref', 'skip')]
    nskip = consumed + sum(int(as_rf(a[0]).const_value()) if a and isinstance(a[0], RF) and a[0].is_const() else 99 for a in skipped)
    ok_stream = repr(src) == 'nn' and not other and nskip == 1
    ctx.check(rule, 'loop-consumes-the-whole-candidate-stream' + sfx, ok_stream, 'stream: %s over %r; items consumed before the loop: %d' % (' <- '.join(names), src, nskip),
              'the neighbour stream argument minus exactly its first item (the generator itself), no filtering adaptor', where(b, nt['line']), key_extra='stream:%s' % ','.join(other or ['skip%d' % nskip]))
    # abstract part: the clip is guarded only by "item is Some" and the negated termination test
    if len(sc.clip_events) != 1:
        raise AnalysisIncomplete('clip call evaluated %d times' % len(sc.clip_events))
    g = sc.clip_events[0].guard
    extra = []
    n_some = n_term = 0
    for c in g:
        txt = repr(c)
        if c.op == 'cmp' and c.args[0] == '==' and 'discr(' in repr(c.args[1]) and '::next(' in repr(c.args[1]):
            n_some += 1
        elif c.op == 'cmp' and c.args[0] in ('<', '<=') and 'safety_radius' in repr(c.args[2]):
            n_term += 1
        else:
            extra.append(txt[:160])
    ctx.check(rule, 'clip-guard' + sfx, not extra and n_term == 1, 'clip guarded by: item-is-Some x%d, termination test x%d, other: %s' % (n_some, n_term, extra or 'none'),
              'only the stream item test and the termination test', where(b, sc.clip_term['line']), key_extra='guard')


def r2(ctx, F, rule, sfx):
    sc = scen.build_scenario(F)
    b = sc.body
    if len(sc.hs_events) != 1:
        raise AnalysisIncomplete('half-space constructions in the builder: %d' % len(sc.hs_events))
    ev = sc.hs_events[0]
    w = where(b, ev.line)
    n, p, ridx, shift = ev.args
    X, sh, cs = c16.neighbour_position(sc, ev)
    # the clip receives exactly this half-space
    hs = sc.clip_events[0].args[1]
    ctx.check(rule, 'clip-receives-bisector' + sfx, I.vkey(hs) == I.vkey(ev.result), 'argument of the clip call', 'the half-space constructed from this candidate', w, key_extra='arg')
    # stream item provenance: idx and shift are the two components of the same item
    ix = I.single_atom(X)
    same_item = ix is not None and isinstance(sh, I.Sym) and ix.kind == 'app' and ix.name == 'field' and sh.atom.kind == 'app' and sh.atom.name == 'field' \
        and I.vkey(ix.args[0]) == I.vkey(sh.atom.args[0])
    ctx.check(rule, 'index-and-shift-of-one-item' + sfx, same_item, 'right_idx=%r shift=%r' % (X, sh), 'both taken from the same stream item', w, key_extra='item')
    L = sc.L
    for name, (mp, R) in cs.items():
        nk = [I.subst(x, mp) for x in c3(n)]
        pk = [I.subst(x, mp) for x in c3(p)]
        d = vsub(L, R)
        dist = nf.fn_sqrt(dot3(d, d))
        okn = all(nk[i] == d[i] / dist for i in range(3))
        okp = all(pk[i] == (L[i] + R[i]) / 2 for i in range(3))
        ctx.check(rule, 'normal-%s%s' % (name, sfx), okn, 'n = %r' % (nk[0],), '(L-R)/|L-R| with R = generators[i].loc%s' % (' + shift' if name == 'shifted' else ''), w, key_extra='normal')
        ctx.check(rule, 'midpoint-%s%s' % (name, sfx), okp, 'p.x = %r' % (pk[0],), '(L+R)/2', w, key_extra='midpoint')


def r3(ctx, F, rule, sfx):
    sc = scen.build_scenario(F)
    res = c16.termination_factor(ctx, F, sc)
    if res is None:
        ctx.bad(rule, 'termination' + sfx, 'termination test not recognised', 'c_l*safety_radius < c_r*|L-R|', where(sc.body), key_extra='no-test')
        return
    ab, w = res
    kf = c16.r1_quiet(ctx, F)
    if kf is None:
        raise AnalysisIncomplete('radius formula undetermined')
    ctx.check(rule, 'termination-factor' + sfx, ab * kf[0] >= 2, 'stops when |L-R| > %s * (max vertex distance)' % (ab * kf[0]), 'factor >= 2 (security radius theorem)', w, key_extra='factor')


def r4(ctx, F, rule, sfx):
    # HalfSpace::new
    hn = F.body_by_suffix('half_space::HalfSpace::new')
    ip = I.Interp(F)
    n, p = I.sym_vec3('n'), I.sym_vec3('p')
    v, _ = ip.call_body(hn, [n, p, I.NONE, I.NONE])
    ctx.evaluations += ip.evaluations
    d = as_rf(I.get_field(v, 'd', 'f64'))
    pl = I.get_field(v, 'plane')
    ok = d == dot3(c3(n), c3(p)) and all(a == b for a, b in zip(c3(I.get_field(pl, 'n')), c3(n))) and all(a == b for a, b in zip(c3(I.get_field(pl, 'p')), c3(p)))
    ctx.check(rule, 'offset-d' + sfx, ok, 'd = %r' % d, 'n.p with plane (n, p) stored unchanged', where(hn), key_extra='d')
    errb = as_rf(I.get_field(v, 'errb', 'f64'))
    # the error bound is positive: EPS*(1 + |n|.|p|)
    ctx.check(rule, 'error-bound-positive-form' + sfx, errb.is_poly() and all(c > 0 for c in errb.num.values()) and () in errb.num
              and all(nf.atom_by_id(a).name == 'abs' for a in errb.atoms()), 'errb = %s' % repr(errb)[:120], 'eps*(1 + sum of |.|*|.| terms), eps > 0', where(hn), key_extra='errb')
    # HalfSpace::clip
    hc = F.body_by_suffix('half_space::HalfSpace::clip')
    ip = I.Interp(F)
    hs = I.St('voronoi::half_space::HalfSpace', 'HalfSpace', {'plane': I.St('geometry::Plane', 'Plane', {'n': n, 'p': p}), 'd': RF.sym('d'), 'errb': RF.sym('errb')})
    x = I.sym_vec3('v')
    cv, _ = ip.call_body(hc, [ip.ref_to(hs), x])
    ctx.evaluations += ip.evaluations
    e = dot3(c3(n), c3(x)) - RF.sym('d')
    leaves = cases(cv)
    vals = sorted(repr(l) for _, l in leaves)
    want = sorted([repr(RF.const(0)), repr(nf.fn_signum(e))])
    tie_ok = False
    for conds, leaf in leaves:
        if as_rf(leaf).is_zero() and len(conds) == 1:
            c = conds[0]
            tie_ok = c.op == 'cmp' and c.args[0] == '<' and c.args[1] == nf.fn_abs(e) and repr(c.args[2]) == 'errb'
    ctx.check(rule, 'clip-value' + sfx, vals == want and tie_ok, 'clip(v) in {%s}' % ', '.join(vals)[:200], '0 when |n.v-d| < errb else signum(n.v-d)', where(hc), key_extra='clip')
    # removal condition in the clip routine
    sc = scen.build_scenario(F)
    cb = F.body(sc.clip_path)
    r4_removal(ctx, F, rule, sfx, cb)


def clip_scenario(F, cb):
    key = ('clip', id(F))
    if key in scen._cache:
        return scen._cache[key]
    no_inline = set()
    for bb in F.bodies:
        pth = strip_generics(bb['path'])
        if pth.endswith(('Vertex::from_dual', '::update_safety_radius', '::compute_boundary', 'SimulationBoundary::iloc', 'HalfSpace::right_loc',
                         'geometry::in_sphere_test_exact', 'HalfSpace::clip', 'SimpleCycle::grow', 'SimpleCycle::iter')):
            no_inline.add(bb['path'])
    ip = I.Interp(F, no_inline=no_inline)
    cell = I.St('voronoi::convex_cell::ConvexCell', None, {}, I.Sym(nf.sym_atom('cell'), 'voronoi::convex_cell::ConvexCell<voronoi::convex_cell::WithoutFaces>'))
    selfref = ip.ref_to(cell, cb['locals'][1]['ty'], mut=True)
    hs = I.Sym(nf.sym_atom('newplane'), 'voronoi::half_space::HalfSpace')
    gens = I.Sym(nf.sym_atom('generators'), '&[voronoi::generator::Generator]')
    bd = ip.ref_to(I.Sym(nf.sym_atom('boundary'), 'voronoi::boundary::SimulationBoundary'), '&voronoi::boundary::SimulationBoundary')
    args = []
    for i in range(1, cb['arg_count'] + 1):
        ty = cb['locals'][i]['ty']
        if ty.startswith('&mut') and 'ConvexCell' in ty:
            args.append(selfref)
        elif ty.endswith('half_space::HalfSpace'):
            args.append(hs)
        elif 'Generator' in ty:
            args.append(gens)
        elif 'SimulationBoundary' in ty:
            args.append(bd)
        else:
            raise AnalysisIncomplete('clip routine has an unexpected argument of type %s' % ty)
    ip.call_body(cb, args)
    res = (ip, selfref)
    scen._cache[key] = res
    return res


def r4_removal(ctx, F, rule, sfx, cb):
    ip, selfref = clip_scenario(F, cb)
    ctx.evaluations += ip.evaluations
    swaps = [e for e in ip.events if e.callee and e.callee.endswith('::swap') and e.body is cb]
    if len(swaps) != 1:
        raise AnalysisIncomplete('vertex removal (swap) sites in the clip routine: %d' % len(swaps))
    g = swaps[0].guard
    neg = [c for c in g if c.op == 'cmp' and c.args[0] == '<' and isinstance(c.args[2], RF) and c.args[2].is_zero()]
    ok = len(neg) == 1
    val = neg[0].args[1] if ok else None
    ctx.check(rule, 'remove-iff-negative' + sfx, ok, 'vertex removal guarded by %s' % [repr(c)[:100] for c in g[-2:]], 'side value < 0', where(cb, swaps[0].line), key_extra='removal')
    return val


def r5(ctx, F, rule, sfx):
    fd = F.body_by_suffix('Vertex::from_dual')
    ip = I.Interp(F, no_inline=['geometry::intersect_planes'])
    planes = I.Sym(nf.sym_atom('planes'), '&[voronoi::half_space::HalfSpace]')
    g = I.sym_vec3('G')
    v, _ = ip.call_body(fd, [RF.sym('i'), RF.sym('j'), RF.sym('k'), planes, g, I.St('voronoi::Dimensionality', 'ThreeD', {})])
    ctx.evaluations += ip.evaluations
    ie = [e for e in ip.events if e.callee == 'geometry::intersect_planes']
    if len(ie) != 1:
        raise AnalysisIncomplete('three-plane intersections in the vertex constructor: %d' % len(ie))
    used = sorted(repr(a) for a in ie[0].fargs)
    want = sorted('planes[%s].plane' % x for x in 'ijk')
    loc_ok = I.vkey(I.get_field(v, 'loc')) == I.vkey(ie[0].result)
    ctx.check(rule, 'vertex-constructor' + sfx, used == want and loc_ok, 'loc = intersect(%s)' % ', '.join(used), 'intersection of planes[i], planes[j], planes[k] (the dual)', where(fd), key_extra='planes')
    # creation sites
    sites = 0
    for b in F.bodies:
        if 'convex_cell_alternative' in b['path']:
            continue
        for bl, t in calls(b):
            if callee_name(t) == fd['path']:
                sites += 1
    ctx.floor(rule, 'vertex creation sites' + sfx, sites, 9)
    # clip routine site: planes argument is the cell's own plane list (after the push), generator is the cell's
    sc = scen.build_scenario(F)
    cb = F.body(sc.clip_path)
    ipc, selfref = clip_scenario(F, cb)
    evs = [e for e in ipc.events if e.callee == fd['path'] and e.body is cb]
    if len(evs) != 1:
        raise AnalysisIncomplete('vertex constructor calls evaluated in the clip routine: %d' % len(evs))
    e = evs[0]
    pl = repr(e.fargs[3])
    gl = repr(e.fargs[4])
    newidx = repr(e.args[2])
    ok_pl = 'clipping_planes' in pl and pl.startswith(('mut:', 'cell.', 'phi'))
    ctx.check(rule, 'clip-site-planes' + sfx, 'clipping_planes' in pl, pl[:160], 'the cell\'s plane list', where(cb, e.line), key_extra='planes-arg')
    ctx.check(rule, 'clip-site-generator' + sfx, gl.replace(' ', '') in ('cell.loc', 'DVec3{x:cell.loc.x,y:cell.loc.y,z:cell.loc.z}'), gl[:120], 'the cell\'s generator position', where(cb, e.line), key_extra='generator-arg')
    # the third index is the index at which the new plane was pushed (= len before the push)
    push = [x for x in ipc.events if x.callee and x.callee.endswith('Vec::<T, A>::push') and x.body is cb and repr(x.fargs[1]) == 'newplane' and 'clipping_planes' in repr(x.fargs[0])]
    ok_idx = len(push) == 1 and newidx.startswith('len(') and 'clipping_planes' in newidx
    ctx.check(rule, 'clip-site-new-plane-index' + sfx, ok_idx, 'third dual index = %s; new plane pushed %d time(s)' % (newidx[:80], len(push)), 'len(planes) before pushing the new plane', where(cb, e.line), key_extra='new-index')


def r6(ctx, F, rule, sfx):
    n = 0
    for imp in F.impls_of_trait('voronoi::integrals::CellIntegral'):
        st = imp['self']
        col = F.body('<%s as voronoi::integrals::CellIntegral>::collect' % st, required=False)
        fin = F.body('<%s as voronoi::integrals::CellIntegral>::finalize' % st, required=False)
        if col is None or fin is None:
            continue
        a = F.adt(st, required=False)
        fields = [f['name'] for f in a['variants'][0]['fields']] if a else []
        if 'volume' not in fields:
            continue
        n += 1
        ip = I.Interp(F)
        me = I.St(st, st.split('::')[-1], {'volume': RF.sym('W')})
        if 'centroid' in fields:
            me = I.set_field(me, 'centroid', I.sym_vec3('C'))
        ref = ip.ref_to(me, '&mut ' + st, mut=True)
        pts = [I.sym_vec3(x) for x in ('v0', 'v1', 'v2', 'g')]
        ip.call_body(col, [ref] + pts)
        ctx.evaluations += ip.evaluations
        after = I.read_lv(ref.lv)
        P = [c3(x) for x in pts]
        V = det3(vsub(P[1], P[0]), vsub(P[2], P[0]), vsub(P[3], P[0])) / 6
        w = where(col)
        inst = st.split('::')[-1]
        ctx.check(rule, '%s:volume-accumulation%s' % (inst, sfx), as_rf(I.get_field(after, 'volume')) == RF.sym('W') + V, 'volume\' = %r' % (as_rf(I.get_field(after, 'volume')) - RF.sym('W'),), 'volume + signed_volume_tet(v0,v1,v2,apex)', w, key_extra='volume')
        if 'centroid' in fields:
            Cn = c3(I.get_field(after, 'centroid'))
            C0 = [RF.sym('C.' + c) for c in 'xyz']
            ok = all(Cn[i] == C0[i] + V * (P[0][i] + P[1][i] + P[2][i] + P[3][i]) for i in range(3))
            ctx.check(rule, '%s:centroid-accumulation%s' % (inst, sfx), ok, 'centroid increment', 'vol*(v0+v1+v2+apex): equal weights on the four points', w, key_extra='centroid')
            ip2 = I.Interp(F)
            me2 = I.St(st, inst, {'volume': RF.sym('W'), 'centroid': I.sym_vec3('C')})
            out, _ = ip2.call_body(fin, [me2])
            ctx.evaluations += ip2.evaluations
            oc = c3(I.get_field(out, 'centroid'))
            ok_pos = ok_zero = False
            lv = split_cases(oc[0])
            for conds, leaf in lv:
                if len(conds) != 1:
                    continue
                c = conds[0]
                positive = c.op == 'cmp' and c.args[0] == '<' and isinstance(c.args[1], RF) and c.args[1].is_zero() and repr(c.args[2]) == 'W'
                if positive:
                    ok_pos = as_rf(leaf) == C0[0] * Fraction(1, 4) / RF.sym('W')
                else:
                    ok_zero = as_rf(leaf).is_zero()
            ctx.check(rule, '%s:normalisation%s' % (inst, sfx), ok_pos and ok_zero and as_rf(I.get_field(out, 'volume')) == RF.sym('W'), 'centroid.x -> %s' % repr(oc[0])[:120], 'C*(1/4)/W when W > 0, else 0; volume unchanged', where(fin), key_extra='normalisation')
    ctx.floor(rule, 'built-in cell integrals with a volume' + sfx, n, 2)
    # apex provenance: compute_cell_integral feeds (tet.v0, v1, v2, self.loc)
    cci = F.body_by_suffix('ConvexCell::compute_cell_integral')
    cl = [(bl, t) for bl, t in calls(cci) if (t.get('callee') or '').endswith('CellIntegral::collect')]
    if len(cl) != 1:
        raise AnalysisIncomplete('collect calls in compute_cell_integral: %d' % len(cl))
    bl, t = cl[0]
    src = operand_source(cci, t['args'][4])
    ctx.check(rule, 'apex-is-generator' + sfx, src == ['loc'], 'apex argument <- self.%s' % src, 'self.loc', where(cci, t['line']), key_extra='apex')
    tets = [resolve_const_indices(cci, operand_source(cci, t['args'][i])) for i in (1, 2, 3)]
    ctx.check(rule, 'tet-vertices-in-order' + sfx, tets == [['vertices', 0], ['vertices', 1], ['vertices', 2]], 'vertex arguments <- %s' % tets, 'tet.vertices[0], [1], [2]', where(cci, t['line']), key_extra='tet-order')


def operand_source(b, op):
    """Field path (names / constant indices) of the place a temporary operand was copied from."""
    if op['k'] not in ('copy', 'move'):
        return None
    l = op['place']['l']
    if op['place']['p']:
        return path_names(op['place'])
    defs = [s for bl in b['blocks'] for s in bl['stmts'] if s['k'] == 'assign' and s['place']['l'] == l and not s['place']['p']]
    if len(defs) != 1 or defs[0]['rv']['k'] != 'use' or defs[0]['rv']['x']['k'] not in ('copy', 'move'):
        return None
    return path_names(defs[0]['rv']['x']['place'])


def path_names(place):
    out = []
    for e in place['p']:
        if e['k'] == 'field':
            out.append(e.get('n', e['i']))
        elif e['k'] == 'cindex':
            out.append(e['off'])
        elif e['k'] == 'index':
            out.append('[_%d]' % e['l'])
    return out


def resolve_const_indices(b, names):
    """Replace '[_n]' entries by the integer constant assigned to local n, when it is one."""
    out = []
    for x in names or []:
        if isinstance(x, str) and x.startswith('[_'):
            l = int(x[2:-1])
            defs = [s for bl in b['blocks'] for s in bl['stmts'] if s['k'] == 'assign' and s['place']['l'] == l and not s['place']['p']]
            if len(defs) == 1 and defs[0]['rv']['k'] == 'use' and 'int' in defs[0]['rv']['x']:
                out.append(int(defs[0]['rv']['x']['int']))
                continue
        out.append(x)
    return out
