"""C09 — results are a pure function of the input, independent of thread schedule."""
import re, json, hashlib
import os
from ..facts import calls, callee_name, strip_generics, AnalysisIncomplete
from ..callgraph import CallGraph, public_roots
from ..cfg import CFG
from .util import where

V = os.path.dirname(os.path.dirname(os.path.dirname(os.path.abspath(__file__))))

META = {
    'level': 'proof',
    'configs': {'quick': ['default', 'norayon'], 'thorough': ['default', 'norayon', 'dashu', 'malachite', 'num_bigint', 'default_nodebug']},
    'rules': {
        'R1': 'every call into rayon is an order-preserving, deterministic adaptor (indexed iterators, map/filter_map/flatten/zip/enumerate, collect into Vec); none is schedule-dependent (reduce/fold/sum/find_any/par_bridge/hash collections/...)',
        'R2': 'every closure executed by a rayon adaptor (and the closures nested in it) captures only shared references to data that is deeply free of interior mutability; no mutable capture',
        'R3': 'no nondeterminism source is reachable from the exported API: hash-container iteration, RNG, clock, thread identity/count, environment, pointer-to-integer casts, mutable or thread-local statics, atomics/locks/cells',
        'R5': '(thorough tier) independent cross-reference: `cargo clippy` with a disallowed-methods table of the schedule-dependent rayon operations and of clock / thread-identity / '
              'environment reads (lintcfg/clippy.toml) reports no call in the crate; a positive control (the same lint run on a scratch copy with a parallel `sum` added) must report one',
        'R4': 'sequential sibling: without the rayon feature every function has the same adaptor chain (par_iter->iter etc.) and structurally identical closure bodies',
    },
    'explanation': 'Decides the whole statement given the trusted base: the cell loop and every integral loop are compositions of '
                   'rayon adaptors that rayon documents as order-preserving, fed with closures that cannot communicate (shared state '
                   'is immutable and free of interior mutability, checked on the type-checked captures), and nothing the exported '
                   'API can reach reads a schedule-, time-, address- or hash-seed-dependent value. Hence every output element is a '
                   'function of the input and its index only, and the non-rayon build evaluates the same functions in the same order.',
    'trusted_base': ['rayon 1.x: IndexedParallelIterator adaptors and collect::<Vec<_>>() preserve iterator order (rayon docs; src/iter/collect, extend.rs)',
                     'IEEE-754 operations and the dependencies glam/rstar/big-integer crates are deterministic functions of their operands',
                     'rustc type checking (Send/Sync, borrow checker: the only &mut visible to a parallel closure is its own item)',
                     'E0 fact extractor: resolved callees, closure captures, deep interior-mutability walk'],
    'assumptions': ['user-supplied integral implementations and extra data (type parameters I, D) are themselves deterministic and free of interior mutability'],
    'technique': 'static analysis: type-resolved who-may-call classification of rayon call sites, closure-capture effect analysis (deep interior-mutability walk), call-graph reachability of nondeterminism sources, sibling comparison of the rayon and non-rayon MIR',
}

ORDER_PRESERVING = {
    'par_iter', 'par_iter_mut', 'into_par_iter', 'enumerate', 'zip', 'zip_eq', 'map', 'map_with', 'map_init', 'filter', 'filter_map',
    'flatten', 'flatten_iter', 'flat_map', 'flat_map_iter', 'collect_into_vec', 'unzip', 'unzip_into_vecs', 'chain', 'cloned', 'copied', 'rev', 'skip', 'take',
    'step_by', 'interleave', 'interleave_shortest', 'with_min_len', 'with_max_len', 'par_chunks', 'par_chunks_mut', 'par_chunks_exact',
    'par_chunks_exact_mut', 'par_windows', 'update', 'intersperse', 'panic_fuse', 'fold_chunks', 'fold_chunks_with', 'count', 'partition', 'partition_map',
    'opt_len', 'len', 'par_extend', 'par_drain', 'par_split', 'par_lines', 'par_chars', 'par_bytes', 'positions', 'par_sort', 'par_sort_by', 'par_sort_by_key', 'par_sort_by_cached_key',
}
EFFECT_ONLY = {'for_each', 'for_each_with', 'for_each_init', 'join', 'inspect'}   # deterministic iff the closures satisfy R2
SCHEDULE_DEPENDENT = {
    'reduce', 'reduce_with', 'fold', 'fold_with', 'try_fold', 'try_fold_with', 'try_reduce', 'try_reduce_with', 'sum', 'product', 'min', 'max',
    'min_by', 'max_by', 'min_by_key', 'max_by_key', 'try_for_each', 'try_for_each_with', 'try_for_each_init', 'find_any', 'find_map_any',
    'position_any', 'any', 'all', 'par_bridge', 'while_some', 'take_any', 'skip_any', 'take_any_while', 'skip_any_while', 'collect_vec_list',
    'par_sort_unstable', 'par_sort_unstable_by', 'par_sort_unstable_by_key', 'scope', 'scope_fifo', 'spawn', 'spawn_fifo', 'in_place_scope', 'broadcast', 'spawn_broadcast',
    'current_num_threads', 'current_thread_index', 'find_first', 'find_last', 'find_map_first', 'find_map_last', 'position_first', 'position_last', 'yield_now', 'yield_local', 'max_num_threads',
}
# find_first/position_first are deterministic in their result; they are listed conservatively only because their closures may observe short-circuiting.

NONDET = [
    ('hash-iteration', re.compile(r'(HashMap|HashSet|hash_map|hash_set|hashbrown|IndexMap).*::(iter|iter_mut|into_iter|keys|values|values_mut|drain|retain|extract_if|into_keys|into_values|par_iter|into_par_iter)$')),
    ('rng', re.compile(r'^(<[^>]*)?(rand|rand_core|fastrand|getrandom|oorandom)::')),
    ('hash-seed', re.compile(r'RandomState::new|ahash::RandomState|hash::random')),
    ('clock', re.compile(r'std::time::(Instant|SystemTime)(::<[^>]*>)?::(now|elapsed)')),
    ('thread-identity', re.compile(r'std::thread::(current|available_parallelism|ThreadId)|rayon(_core)?::(current_num_threads|current_thread_index|max_num_threads)')),
    ('environment', re.compile(r'std::env::')),
    ('atomics-locks-cells', re.compile(r'(std|core)::sync::atomic::|std::sync::(Mutex|RwLock|Once|OnceLock|mpsc|Condvar|Barrier|poison)|parking_lot|(std|core)::cell::(Cell|RefCell|UnsafeCell|OnceCell)|crossbeam')),
    ('address', re.compile(r'::(addr|expose_provenance|expose_addr)$|std::ptr::(addr_of|from_ref).*as usize')),
]


def is_rayon(t):
    return any((t.get(k) or '').startswith('rayon') for k in ('callee_crate', 'resolved_crate', 'trait_crate'))


def run(ctx):
    F = ctx.facts('default')
    r1_r2(ctx, F)
    r3(ctx, F, 'default')
    r3(ctx, ctx.facts('norayon'), 'norayon')
    for c in ctx.configs_used:
        if c not in ('default', 'norayon'):
            r1_r2(ctx, ctx.facts(c), '@' + c)
            r3(ctx, ctx.facts(c), c)
    r4(ctx, F, ctx.facts('norayon'))
    if ctx.tier == 'thorough' and not os.environ.get('VERIF_SELFTEST_CHILD'):
        ctx.guarded('C09.R5', 'clippy', lambda: r5(ctx))


def r1_r2(ctx, F, sfx=''):
    sites = 0
    fns = set()
    par_closures = []
    for b in F.bodies:
        for bl, t in calls(b):
            if not is_rayon(t):
                continue
            sites += 1
            fns.add(b['path'])
            name = (t.get('callee') or callee_name(t)).rsplit('::', 1)[-1]
            inst = '%s:%s#%d%s' % (strip_generics(b['path']), name, sum(1 for x in ctx.results if x.instance.startswith(strip_generics(b['path']) + ':' + name + '#')), sfx)
            w = where(b, t['line'])
            ctx.evaluations += 1
            if name == 'collect':
                target = (t.get('substs') or ['?'])[-1]
                ok = target.startswith('std::vec::Vec<') or re.match(r'^\(std::vec::Vec<.*std::vec::Vec<', target) is not None \
                    or target.startswith('std::collections::LinkedList<') or target.startswith('std::collections::VecDeque<') or target == 'std::string::String'
                ctx.check('C09.R1', inst, ok, 'collect::<%s>' % target, 'collect into an order-preserving container (Vec)', w, key_extra='collect:' + target.split('<')[0])
            elif name in ORDER_PRESERVING:
                ctx.ok('C09.R1', inst, name, 'order-preserving adaptor', w)
            elif name in EFFECT_ONLY:
                ctx.ok('C09.R1', inst, name + ' (effects decided by R2)', 'order-preserving or effect-only adaptor', w)
            elif name in SCHEDULE_DEPENDENT:
                ctx.bad('C09.R1', inst, 'rayon %s' % name, 'no schedule-dependent rayon operation', w, key_extra=name)
            else:
                ctx.incomplete('C09.R1', inst, 'rayon function %s is not classified' % callee_name(t), w)
            for c in t.get('arg_closures', []):
                if c:
                    par_closures.append((c, b, t))
    ctx.floor('C09.R1', 'rayon call sites' + sfx, sites, 40)
    ctx.floor('C09.R1', 'functions with rayon calls' + sfx, len(fns), 9)
    # R2: closures executed in parallel (+ nested closures)
    seen = set()
    n = 0
    for cpath, b, t in par_closures:
        cb = F.body(cpath)
        group = [cb] + F.closures_of(cb)
        root = F.body(cb.get('root', b['path']), required=False) or b
        generics = set(root.get('generics', []))
        for c in group:
            if c['path'] in seen:
                continue
            seen.add(c['path'])
            n += 1
            ctx.evaluations += 1
            w = where(c)
            ups = c.get('upvars', [])
            problems = []
            notes = []
            for u in ups:
                ck = u.get('capture_kind', '')
                if 'Mutable' in ck or 'UniqueImmutable' in ck or u.get('has_mut_ref') or u['ty'].startswith('&mut'):
                    # a nested closure may capture the *per-item* &mut of its parent closure's argument: that is
                    # an upvar of the nested closure only; the closure handed to rayon itself must not.
                    if c is cb:
                        problems.append('%s captured mutably (%s)' % (u.get('name'), u['ty']))
                    else:
                        notes.append('%s: per-item mutable capture inside %s' % (u.get('name'), strip_generics(cb['path'])))
                im = u.get('interior_mut')
                if im == 'yes':
                    problems.append('%s: %s has interior mutability (%s)' % (u.get('name'), u['ty'], u.get('interior_why')))
                elif im == 'unknown':
                    why = u.get('interior_why', '')
                    if why in generics:
                        notes.append('%s: caller-supplied type parameter %s' % (u.get('name'), why))
                    else:
                        problems.append('%s: interior mutability of %s undetermined (%s)' % (u.get('name'), u['ty'], why))
            inst = strip_generics(c['path']) + sfx
            if problems:
                ctx.bad('C09.R2', inst, '; '.join(problems), 'shared, deeply immutable captures only', w, key_extra='capture')
            else:
                ctx.ok('C09.R2', inst, '%d captures: %s' % (len(ups), ', '.join('%s:%s' % (u.get('name'), u.get('interior_mut')) for u in ups) or 'none'), 'shared, deeply immutable captures only', w)
            if notes:
                ctx.notes.extend(notes)
    ctx.floor('C09.R2', 'closures run by rayon' + sfx, n, 10)


def r3(ctx, F, cfg):
    cg = CallGraph(F)
    roots = public_roots(F)
    reach = cg.reachable(roots)
    ctx.floor('C09.R3', 'bodies reachable from the exported API@' + cfg, len(reach), 150)
    hits = 0
    scanned = 0
    for p in sorted(reach):
        b = F.body(p)
        for callee, crate, t, bb in cg.ext.get(p, []):
            scanned += 1
            if t.get('expn') and re.search(r'panicking|fmt::|Arguments', callee):
                continue
            for kind, rx in NONDET:
                if rx.search(callee):
                    hits += 1
                    path = cg.path_to(roots, p)
                    ctx.bad('C09.R3', '%s:%s@%s' % (strip_generics(p), kind, cfg), 'calls %s (reachable: %s)' % (callee, ' -> '.join(strip_generics(x) for x in (path or [p])[-4:])),
                            'no %s on any path from the exported API' % kind, where(b, t['line']), key_extra=kind + ':' + strip_generics(callee))
        for u in b.get('unsafe_ops', []):
            if u.get('what') == 'ptr_int_cast':
                hits += 1
                ctx.bad('C09.R3', '%s:ptr-int-cast@%s' % (strip_generics(p), cfg), 'pointer-to-integer cast', 'no address-dependent values', where(b, u.get('line')), key_extra='ptr_int_cast')
        txt = json.dumps(b['blocks'])
        if '"static_mut": true' in txt or '"k": "tls"' in txt:
            hits += 1
            ctx.bad('C09.R3', '%s:static@%s' % (strip_generics(p), cfg), 'accesses a mutable or thread-local static', 'no mutable global state', where(b), key_extra='static')
        ctx.evaluations += 1
    if hits == 0:
        ctx.ok('C09.R3', 'reachable-code-scan@' + cfg, '%d bodies, %d external call sites scanned, 0 nondeterminism sources' % (len(reach), scanned), 'none', None)
    # positive control: the rule set must recognise a hash iteration where one exists in the crate (bounding_sphere, unreachable)
    ctrl = 0
    for p, lst in cg.ext.items():
        for callee, crate, t, bb in lst:
            if NONDET[0][1].search(callee):
                ctrl += 1
    ctx.check('C09.R3', 'positive-control:hash-iteration-recognised@' + cfg, ctrl >= 1 or not F.bodies_matching('bounding_sphere::Epos6'),
              '%d hash-iteration sites recognised crate-wide (all outside the exported API)' % ctrl, '>= 1 while bounding_sphere::Epos6 exists', None, key_extra='control')


SEQ_NAME = {'par_iter': 'iter', 'par_iter_mut': 'iter_mut', 'into_par_iter': 'into_iter'}
ADAPTORS = {'iter', 'iter_mut', 'into_iter', 'enumerate', 'zip', 'map', 'filter_map', 'filter', 'flatten', 'flat_map', 'collect', 'rev', 'take', 'skip', 'chain', 'cloned', 'copied', 'for_each', 'unzip'}


def chain_of(b):
    """Ordered iterator-adaptor chain of a body with rayon adaptors renamed to their std siblings."""
    out = []
    for bl, t in calls(b):
        name = (t.get('callee') or callee_name(t)).rsplit('::', 1)[-1]
        cal = t.get('callee') or ''
        if is_rayon(t):
            out.append((SEQ_NAME.get(name, name), [strip_generics(c) for c in t.get('arg_closures', []) if c]))
        elif name in ADAPTORS and (cal.startswith('std::iter::') or cal.startswith('core::slice::') or cal.startswith('core::iter::')
                                   or 'IntoIterator' in cal):
            out.append((name, [strip_generics(c) for c in t.get('arg_closures', []) if c]))
    return out


def body_shape(b):
    """Structural hash of a body modulo line numbers and the parallel/sequential iterator types."""
    def scrub(x):
        if isinstance(x, dict):
            return {k: scrub(v) for k, v in x.items() if k not in ('line', 'fn_line', 'expn', 'macro', 'ty', 'arg_tys', 'substs', 'resolved_substs', 'from_ty', 'lty', 'xty', 'discr_ty', 'func', 'resolved_self')}
        if isinstance(x, list):
            return [scrub(v) for v in x]
        return x
    return hashlib.sha1(json.dumps(scrub(b['blocks']), sort_keys=True).encode()).hexdigest()


def r4(ctx, Fp, Fs):
    n = 0
    for b in Fp.bodies:
        if not any(is_rayon(t) for _, t in calls(b)):
            continue
        n += 1
        sb = Fs.body(b['path'], required=False)
        inst = strip_generics(b['path'])
        if sb is None:
            ctx.bad('C09.R4', inst, 'no sequential sibling in the non-rayon build', 'same function in both builds', where(b), key_extra='missing')
            continue
        cp = chain_of(b)
        cs = chain_of(sb)
        # the sequential body may contain extra std iterator calls unrelated to the parallel chain; require the parallel
        # chain to be a subsequence-equal prefix-free match: compare exactly the adaptor names in order
        names_p = [x for x, _ in cp]
        names_s = [x for x, _ in cs]
        ctx.evaluations += 1
        ok = names_p == names_s and [c for _, c in cp] == [c for _, c in cs]
        ctx.check('C09.R4', inst + ':chain', ok, 'parallel %s | sequential %s' % (' '.join(names_p), ' '.join(names_s)), 'identical adaptor chains and closure roles', where(b), key_extra='chain')
        for c in Fp.closures_of(b):
            sc = Fs.body(c['path'], required=False)
            if sc is None:
                ctx.bad('C09.R4', strip_generics(c['path']) + ':closure', 'closure missing in the non-rayon build', 'same closures', where(c), key_extra='closure-missing')
                continue
            same = body_shape(c) == body_shape(sc)
            ctx.check('C09.R4', strip_generics(c['path']) + ':closure', same, 'MIR shape %s vs %s' % (body_shape(c)[:8], body_shape(sc)[:8]), 'structurally identical closure bodies', where(c), key_extra='closure-shape')
    ctx.floor('C09.R4', 'functions with a parallel/sequential pair', n, 9)


def _clippy(repo, tdir):
    """-> list of (method text, file, line) for clippy::disallowed_methods hits in the library target of `repo`."""
    import subprocess, json as _json
    env = dict(os.environ, CLIPPY_CONF_DIR=os.path.join(V, 'lintcfg'), CARGO_TARGET_DIR=tdir, CARGO_NET_OFFLINE='true', CARGO_INCREMENTAL='0')
    # clippy caches per target dir: make sure the crate itself is re-linted
    import glob, shutil
    for d in glob.glob(os.path.join(tdir, 'debug', '.fingerprint', 'meshless_voronoi-*')):
        shutil.rmtree(d, ignore_errors=True)
    p = subprocess.run(['cargo', '+nightly', 'clippy', '--offline', '--lib', '--message-format=json', '--', '-A', 'clippy::all', '-W', 'clippy::disallowed_methods'],
                       cwd=repo, env=env, capture_output=True, text=True)
    hits = []
    finished = False
    for line in p.stdout.splitlines():
        try:
            m = _json.loads(line)
        except ValueError:
            continue
        if m.get('reason') == 'build-finished':
            finished = bool(m.get('success'))
        if m.get('reason') != 'compiler-message':
            continue
        msg = m['message']
        if (msg.get('code') or {}).get('code') == 'clippy::disallowed_methods':
            sp = (msg.get('spans') or [{}])[0]
            hits.append((msg.get('message', ''), sp.get('file_name'), sp.get('line_start')))
    if not finished:
        raise AnalysisIncomplete('cargo clippy did not finish: %s' % p.stderr[-400:])
    return hits


def r5(ctx):
    import tempfile, shutil, subprocess
    from ..framework import REPO, WORK
    tdir = os.path.join(WORK, 'target-clippy')
    hits = _clippy(REPO, tdir)
    ctx.evaluations += 1
    if hits:
        for msg, f, ln in hits:
            ctx.bad('C09.R5', 'disallowed-call:%s:%s' % (f, msg[:80]), '%s at %s:%s' % (msg, f, ln), 'no schedule-dependent operation / nondeterminism source is called', '%s:%s' % (f, ln), key_extra='clippy')
    else:
        ctx.ok('C09.R5', 'no-disallowed-call', 'clippy::disallowed_methods: 0 hits in the library', 'no schedule-dependent operation / nondeterminism source is called')
    # positive control on a scratch copy
    tmp = tempfile.mkdtemp(prefix='mv-clippy-')
    try:
        dst = os.path.join(tmp, 'repo')
        shutil.copytree(REPO, dst, ignore=shutil.ignore_patterns('target', '.git', '_out'))
        pp = subprocess.run(['patch', '-p1', '-s', '-i', os.path.join(V, 'lintcfg', 'positive_control.diff')], cwd=dst, capture_output=True, text=True)
        if pp.returncode != 0:
            ctx.notes.append('C09.R5 positive control patch does not apply to the current tree (skipped)')
            return
        h2 = _clippy(dst, tdir)
        ctx.evaluations += 1
        ctx.check('C09.R5', 'positive-control', len(h2) >= 1, '%d hit(s) on the control variant' % len(h2), 'the lint reports the added parallel sum', None, key_extra='control')
    finally:
        shutil.rmtree(tmp, ignore_errors=True)
