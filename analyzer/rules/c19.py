"""C19 — public geometry helpers satisfy their defining equations (DESIGN §6 C19).
Each helper's MIR is evaluated once over symbolic inputs; the result's normal form is compared
with the defining equation as an identity of rational functions (exact over the reals)."""
from fractions import Fraction
from .. import interp as I, nf
from ..nf import RF, as_rf
from ..tables import c3, dot3, cross3, det3
from ..facts import AnalysisIncomplete
from .util import *

META = {
    'level': 'proof',
    'configs': {'quick': ['default'], 'thorough': ['default', 'norayon', 'default_nodebug']},
    'rules': {
        'R1': 'intersect_planes(p0,p1,p2) lies on all three planes: n_i.(X-p_i) == 0',
        'R2': 'Plane::project_onto lands on the plane, moves along the normal, is idempotent',
        'R3': 'Plane::project_onto_intersection lands on both planes, stays in the plane through the point spanned by the normals, is idempotent',
        'R4': 'signed_volume_tet == det[v1-v0,v2-v0,v3-v0]/6, antisymmetric under vertex transpositions, +1/6 on the reference tetrahedron',
        'R5': 'signed_area_tri == sign((t-v0).n) * |n|, n = (v1-v0)x(v2-v0)/2; flips sign under v1<->v2; positive for counter-clockwise seen from t',
        'R6': 'Sphere::from_two_points: both points at distance radius from the centre; centre is the midpoint',
        'R7': 'Sphere::from_three_points: three points equidistant (= radius) from a centre lying in their plane',
        'R8': 'Sphere::from_four_points: four points equidistant (= radius) from the centre',
        'R10': 'Sphere::contains (the test on which extend leaves the sphere unchanged, and which Plane::intersects_sphere uses) is the containment test at every length scale: '
               'contains(x) <=> r > 0 and |x - c|^2 <= k * r^2 with a constant 1 <= k <= 1 + 1e-6 — a relative tolerance only; an absolute term would make small spheres "contain" far points',
        'R9': 'Sphere::extend: the new sphere has the point and the antipode of the old sphere on its boundary (radius (r+s)/2, centre on the segment); unchanged when the point is contained; no division by the radius (defined for the sphere through one point)',
    },
    'explanation': 'Decides the whole statement over the reals: every exported helper of meshless_voronoi::geometry is '
                   'abstractly evaluated (algebraic value numbering over MIR, no execution) on fully symbolic arguments and '
                   'its result is compared, as a rational-function identity, with the defining equation. Floating-point '
                   'rounding and the degenerate arguments excluded by the property (zero determinant, coincident points) are '
                   'outside the claim. Sphere::contains (a tolerance comparison) is treated as an uninterpreted guard.',
    'trusted_base': ['rustc MIR construction', 'E0 fact extractor', 'glam 0.27 DVec3/DMat3/DMat4 semantics table',
                     'core f64 sqrt/abs/signum as uninterpreted functions with sqrt(e)^2=e, abs(e)^2=e^2, signum(-e)=-signum(e)'],
    'assumptions': ['real arithmetic (rounding excluded)', 'arguments non-degenerate as the property states'],
}

G = 'geometry::'


def run(ctx):
    for cfg in ctx.configs_used:
        F = ctx.facts(cfg)
        sfx = '' if cfg == 'default' else '@' + cfg
        for fn in (r1, r2, r3, r4, r5, r6, r7, r8, r9, r10):
            rule = 'C19.' + fn.__name__.upper()
            ctx.guarded(rule, 'evaluate' + sfx, lambda: fn(ctx, F, rule, sfx))


def ev(ctx, F, path, args, no_inline=()):
    ip = I.Interp(F, no_inline=no_inline)
    body = F.body(path)
    v, rets = ip.call_body(body, args)
    ctx.evaluations += ip.evaluations
    return ip, body, v


def r1(ctx, F, rule, sfx):
    ip = I.Interp(F)
    P = [sym_plane(ip, 'p%d' % i) for i in range(3)]
    body = F.body(G + 'intersect_planes')
    v, _ = ip.call_body(body, [ip.ref_to(p) for p in P])
    ctx.evaluations += ip.evaluations
    X = c3(v)
    for i, p in enumerate(P):
        r = dot3(c3(p.fields['n']), vsub(X, c3(p.fields['p'])))
        ctx.check(rule, 'on-plane-%d%s' % (i, sfx), r.is_zero(), 'n%d.(X-p%d) = %s' % (i, i, short(r)), '0', where(body))
    # permutation invariance of the result (any order of the planes gives the same point)
    v2, _ = I.Interp(F).call_body(body, [ip.ref_to(P[1]), ip.ref_to(P[2]), ip.ref_to(P[0])])
    same = all(a == b for a, b in zip(c3(v), c3(v2)))
    ctx.check(rule, 'cyclic-invariance' + sfx, same, 'X(p0,p1,p2) vs X(p1,p2,p0)', 'equal', where(body))


def short(r, n=160):
    s = repr(r)
    return s if len(s) < n else s[:n] + '…'


def r2(ctx, F, rule, sfx):
    ip = I.Interp(F)
    pl = sym_plane(ip, 'pl')
    x = I.sym_vec3('x')
    body = F.body(G + 'Plane::project_onto')
    v, _ = ip.call_body(body, [ip.ref_to(pl), x])
    ctx.evaluations += ip.evaluations
    X = c3(v)
    n, p, xx = c3(pl.fields['n']), c3(pl.fields['p']), c3(x)
    ctx.check(rule, 'on-plane' + sfx, dot3(n, vsub(X, p)).is_zero(), short(dot3(n, vsub(X, p))), '0', where(body))
    cr = cross3(vsub(X, xx), n)
    ctx.check(rule, 'along-normal' + sfx, is_zero_vec(cr), '(X-x) x n = %s' % short(cr), '0', where(body))
    v2, _ = I.Interp(F).call_body(body, [ip.ref_to(pl), v])
    ctx.check(rule, 'idempotent' + sfx, all(a == b for a, b in zip(c3(v2), X)), 'P(P(x)) vs P(x)', 'equal', where(body))


def r3(ctx, F, rule, sfx):
    ip = I.Interp(F)
    p1, p2 = sym_plane(ip, 'q1'), sym_plane(ip, 'q2')
    x = I.sym_vec3('x')
    body = F.body(G + 'Plane::project_onto_intersection')
    v, _ = ip.call_body(body, [ip.ref_to(p1), ip.ref_to(p2), x])
    ctx.evaluations += ip.evaluations
    X = c3(v)
    for nm, pl in (('self', p1), ('other', p2)):
        r = dot3(c3(pl.fields['n']), vsub(X, c3(pl.fields['p'])))
        ctx.check(rule, 'on-plane-%s%s' % (nm, sfx), r.is_zero(), short(r), '0', where(body))
    d = cross3(c3(p1.fields['n']), c3(p2.fields['n']))
    r = dot3(vsub(X, c3(x)), d)
    ctx.check(rule, 'perpendicular-to-line' + sfx, r.is_zero(), '(X-x).(n1 x n2) = %s' % short(r), '0', where(body))


def r4(ctx, F, rule, sfx):
    body = F.body(G + 'signed_volume_tet')
    vs = [I.sym_vec3(n) for n in ('v0', 'v1', 'v2', 'v3')]
    ip = I.Interp(F)
    v, _ = ip.call_body(body, vs)
    ctx.evaluations += ip.evaluations
    a = [c3(x) for x in vs]
    spec = det3(vsub(a[1], a[0]), vsub(a[2], a[0]), vsub(a[3], a[0])) / 6
    ctx.check(rule, 'equals-det/6' + sfx, as_rf(v) == spec, short(v), 'det[v1-v0,v2-v0,v3-v0]/6', where(body))
    for i, j in ((0, 1), (1, 2), (2, 3), (0, 3)):
        w = list(vs)
        w[i], w[j] = w[j], w[i]
        v2, _ = I.Interp(F).call_body(body, w)
        ctx.check(rule, 'antisymmetric-%d%d%s' % (i, j, sfx), (as_rf(v2) + as_rf(v)).is_zero(), 'f(swap)+f = %s' % short(as_rf(v2) + as_rf(v)), '0', where(body))
    ref = [I.vec3(0, 0, 0), I.vec3(1, 0, 0), I.vec3(0, 1, 0), I.vec3(0, 0, 1)]
    v3, _ = I.Interp(F).call_body(body, ref)
    ctx.check(rule, 'reference-tetrahedron' + sfx, as_rf(v3) == RF.const(Fraction(1, 6)), short(v3), '1/6 (v0,v1,v2 counter-clockwise seen from v3)', where(body))


def r5(ctx, F, rule, sfx):
    body = F.body(G + 'signed_area_tri')
    vs = [I.sym_vec3(n) for n in ('v0', 'v1', 'v2', 't')]
    ip = I.Interp(F)
    v, _ = ip.call_body(body, vs)
    ctx.evaluations += ip.evaluations
    a = [c3(x) for x in vs]
    n = vscale(cross3(vsub(a[1], a[0]), vsub(a[2], a[0])), RF.const(Fraction(1, 2)))
    spec = nf.fn_signum(dot3(vsub(a[3], a[0]), n)) * nf.fn_sqrt(dot3(n, n))
    ctx.check(rule, 'equals-sign*|n|' + sfx, as_rf(v) == spec, short(v), 'signum((t-v0).n)*sqrt(n.n), n=(v1-v0)x(v2-v0)/2', where(body))
    w = [vs[0], vs[2], vs[1], vs[3]]
    v2, _ = I.Interp(F).call_body(body, w)
    ctx.check(rule, 'flips-under-v1<->v2' + sfx, (as_rf(v2) + as_rf(v)).is_zero(), short(as_rf(v2) + as_rf(v)), '0', where(body))
    ref = [I.vec3(0, 0, 0), I.vec3(1, 0, 0), I.vec3(0, 1, 0), I.vec3(0, 0, 1)]
    v3, _ = I.Interp(F).call_body(body, ref)
    ctx.check(rule, 'reference-triangle' + sfx, as_rf(v3) == RF.const(Fraction(1, 2)), short(v3), '+1/2', where(body))


def sphere_parts(v):
    v = I.deref(v) if hasattr(I, 'deref') else v
    return c3(I.get_field(v, 'center')), as_rf(I.get_field(v, 'radius', 'f64'))


def dist2(a, b):
    d = vsub(a, b)
    return dot3(d, d)


def r6(ctx, F, rule, sfx):
    body = F.body(G + 'Sphere::from_two_points')
    a, b = I.sym_vec3('a'), I.sym_vec3('b')
    ip = I.Interp(F)
    v, _ = ip.call_body(body, [a, b])
    ctx.evaluations += ip.evaluations
    c, r = sphere_parts(v)
    for nm, p in (('a', a), ('b', b)):
        ctx.check(rule, 'through-%s%s' % (nm, sfx), dist2(c, c3(p)) == r * r, '|c-%s|^2 - r^2 = %s' % (nm, short(dist2(c, c3(p)) - r * r)), '0', where(body))
    mid = vscale(vadd(c3(a), c3(b)), RF.const(Fraction(1, 2)))
    ctx.check(rule, 'centre-is-midpoint' + sfx, all(x == y for x, y in zip(c, mid)), short(c), '(a+b)/2', where(body))


def r7(ctx, F, rule, sfx):
    body = F.body(G + 'Sphere::from_three_points')
    pts = [I.sym_vec3(n) for n in 'abc']
    ip = I.Interp(F)
    v, _ = ip.call_body(body, pts)
    ctx.evaluations += ip.evaluations
    c, r = sphere_parts(v)
    P = [c3(p) for p in pts]
    for nm, p in zip('abc', P):
        ctx.check(rule, 'through-%s%s' % (nm, sfx), dist2(c, p) == r * r, '|c-%s|^2 vs r^2' % nm, 'equal', where(body))
    nrm = cross3(vsub(P[1], P[0]), vsub(P[2], P[0]))
    ctx.check(rule, 'centre-coplanar' + sfx, dot3(vsub(c, P[0]), nrm).is_zero(), '(c-a).((b-a)x(c-a))', '0', where(body))


def r8(ctx, F, rule, sfx):
    body = F.body(G + 'Sphere::from_four_points')
    pts = [I.sym_vec3(n) for n in 'abcd']
    ip = I.Interp(F)
    v, _ = ip.call_body(body, pts)
    ctx.evaluations += ip.evaluations
    c, r = sphere_parts(v)
    P = [c3(p) for p in pts]
    d0 = dist2(c, P[0])
    for nm, p in zip('bcd', P[1:]):
        ctx.check(rule, 'equidistant-a-%s%s' % (nm, sfx), dist2(c, p) == d0, '|c-%s|^2 vs |c-a|^2' % nm, 'equal', where(body))
    ctx.check(rule, 'radius' + sfx, r * r == d0, 'r^2 vs |c-a|^2', 'equal', where(body))
    # radius is non-negative by construction: sqrt(.) * abs(.)
    at_ok = not r.depends_on(lambda a: a.kind == 'app' and a.name == 'signum')
    ctx.check(rule, 'radius-nonnegative-form' + sfx, at_ok, short(r), 'product of sqrt and abs terms', where(body))


def r9(ctx, F, rule, sfx):
    from .. import dtab
    body = F.body(G + 'Sphere::extend')
    ip = I.Interp(F, no_inline=[G + 'Sphere::contains'])
    cen, rad = I.sym_vec3('c'), RF.sym('r')
    sph = I.St('geometry::Sphere', 'Sphere', {'center': cen, 'radius': rad})
    x = I.sym_vec3('x')
    nf.DIV_LOG = []
    try:
        v, _ = ip.call_body(body, [sph, x])
        divs = nf.DIV_LOG
    finally:
        nf.DIV_LOG = None
    ctx.evaluations += ip.evaluations
    # no division by the radius: a sphere through a single point has radius 0 and must extend like any other (the normal forms below cancel
    # common factors, so `(|x-c| / r) * r` would pass for `|x-c|`); dividing by |x-c| is what the construction itself does (x outside => x != c)
    r_at = nf.sym_atom('r')
    by_r = []
    for b_, g_ in divs:
        num = RF(dict(b_.num)) if hasattr(b_, 'num') else b_
        if r_at.id in I.atoms_deep(num):
            nonzero = False
            for q in g_:
                for l in dtab.b_leaves(q).values():
                    if l.op == 'cmp' and {repr(l.args[1]), repr(l.args[2])} == {'r', '0'}:
                        nonzero = True      # the radius was tested against zero on this path: the arm analysis below decides what each arm computes
            if not nonzero:
                by_r.append(short(b_))
    ctx.check(rule, 'no-division-by-the-radius' + sfx, not by_r, ('divides by %s' % by_r[:2]) if by_r else '%d division(s), none by an expression in the radius' % len(divs),
              'defined for radius 0 (the sphere through one point)', where(body), key_extra='div-by-radius')
    c_new = I.get_field(v, 'center')
    r_new = as_rf(I.get_field(v, 'radius', 'f64'))
    rc = cases(r_new)
    cc = vec_cases(c_new)
    if len(rc) != len(cc) or len(rc) < 2:
        raise AnalysisIncomplete('extend: result arms %d/%d' % (len(rc), len(cc)))
    C, X = c3(cen), c3(x)
    s = nf.fn_sqrt(dist2(X, C))
    n_in = n_out = 0
    for (conds, r_arm), (conds2, c_arm) in zip(rc, cc):
        if [repr(q) for q in conds] != [repr(q) for q in conds2]:
            raise AnalysisIncomplete('extend: radius and centre are not gated by the same conditions')
        contained = None
        r_zero = False
        for cnd in conds:
            txt = repr(cnd)
            if 'contains' in txt:
                contained = not txt.startswith('!')
            elif cnd.op == 'cmp' and {repr(cnd.args[1]), repr(cnd.args[2])} == {'r', '0'}:
                op, a_, b_ = cnd.args
                r_left = repr(a_) == 'r'
                # the arm is taken for r <= 0 / r == 0 / 0 >= r: for a sphere (r >= 0) that is r == 0
                if op == '==' or (op in ('<=',) and r_left) or (op in ('>=',) and not r_left):
                    r_zero = True
                elif (op in ('>', '!=') and r_left) or (op in ('<', '!=') and not r_left):
                    pass        # r > 0: the generic case
                else:
                    raise AnalysisIncomplete('extend: arm condition %s' % txt)
            else:
                raise AnalysisIncomplete('extend: arm condition %s is neither Sphere::contains nor a test of the radius against 0' % txt[:80])
        c_arm = c3(c_arm)
        tag = ('contained' if contained else 'outside') + ('-r0' if r_zero else '')
        sub = (lambda e: I.subst(e, {nf.sym_atom('r'): RF.const(0)})) if r_zero else (lambda e: e)
        if contained:
            n_in += 1
            ctx.check(rule, 'unchanged-when-contained' + sfx, sub(r_arm) == sub(rad) and all(sub(a) == sub(b) for a, b in zip(c_arm, C)), 'sphere on the contains-arm', 'the old sphere', where(body), key_extra='in:' + tag)
            continue
        # not contained (or contains not consulted on this arm): the smallest sphere through the point and the antipode of the old sphere
        n_out += 1
        r_o, c_o = sub(r_arm), [sub(a) for a in c_arm]
        rr, ss = sub(rad), sub(s)
        ctx.check(rule, 'radius=(r+s)/2[%s]%s' % (tag, sfx), r_o * r_o == ((rr + ss) / 2) * ((rr + ss) / 2) and r_o * r_o == dist2(c_o, [sub(a) for a in X]),
                  short(r_o), "|c'-x| with |c'-x|^2 == ((r+|x-c|)/2)^2", where(body), key_extra='radius:' + tag)
        opp = [sub(C[i]) - rr * (sub(X[i]) - sub(C[i])) / ss for i in range(3)]
        ctx.check(rule, 'antipode-on-boundary[%s]%s' % (tag, sfx), dist2(c_o, opp) == r_o * r_o, "|c'-opp|^2 vs r'^2", 'equal', where(body), key_extra='antipode:' + tag)
        ctx.check(rule, 'centre-on-segment[%s]%s' % (tag, sfx), is_zero_vec(cross3(vsub(c_o, [sub(a) for a in C]), vsub([sub(a) for a in X], [sub(a) for a in C]))), "(c'-c) x (x-c)", '0', where(body), key_extra='segment:' + tag)
    ctx.check(rule, 'both-arms-present' + sfx, n_in >= 1 and n_out >= 1, '%d contained arm(s), %d extending arm(s)' % (n_in, n_out), 'unchanged when contained, extended otherwise', where(body), key_extra='arms')


def r10(ctx, F, rule, sfx):
    from .. import dtab
    body = F.body(G + 'Sphere::contains')
    ip = I.Interp(F)
    cen, rad = I.sym_vec3('c'), RF.sym('r')
    sph = I.St('geometry::Sphere', 'Sphere', {'center': cen, 'radius': rad})
    x = I.sym_vec3('x')
    v, _ = ip.call_body(body, [ip.ref_to(sph), x])
    ctx.evaluations += ip.evaluations
    w = where(body)
    if not isinstance(v, I.B):
        raise AnalysisIncomplete('contains does not evaluate to a condition: %r' % (v,))
    d2 = dist2(c3(x), c3(cen))
    leaves = list(dtab.b_leaves(v).values())
    pos, dist = [], []
    other = []
    for l in leaves:
        if l.op != 'cmp':
            other.append(l)
            continue
        op, a, b = l.args
        a, b = as_rf(a), as_rf(b)
        # normalise to  lhs <= / < rhs
        if op in ('>', '>='):
            a, b, op = b, a, {'>': '<', '>=': '<='}[op]
        if op in ('<', '<=') and a.is_zero() and b == rad:
            pos.append(l)
        elif op in ('<', '<=') and a == d2:
            k = b / (rad * rad)
            dist.append((l, k))
        elif op in ('<', '<=') and a * a == d2 * 1 and False:
            pass
        else:
            # distance (not squared) form: sqrt(d2) <= k' r
            if op in ('<', '<=') and a == nf.fn_sqrt(d2):
                k = (b / rad)
                dist.append((l, k * k))
            else:
                other.append(l)
    ok_shape = len(pos) <= 1 and len(dist) == 1 and not other
    obs = repr(v)[:200]
    if ok_shape:
        l, k = dist[0]
        ok_k = k.is_const() and 1 <= k.const_value() <= 1 + Fraction(1, 10 ** 6)
        obs = '|x-c|^2 <= k r^2 with k = %s%s' % ((('1 + %.3g' % float(k.const_value() - 1)) if k.is_const() else repr(k)[:80]), ' and r > 0' if pos else '')
        # the condition must be the conjunction (containment may not be granted by any other disjunct)
        def val_for(dist_true, pos_true):
            def val(leaf):
                if leaf.key() == l.key():
                    return dist_true
                return pos_true
            return val
        tt = dtab.evaluate(v, val_for(True, True))
        ft = dtab.evaluate(v, val_for(False, True))
        ok_shape = tt is True and ft is False
    else:
        ok_k = False
    ctx.check(rule, 'contains-is-relative-containment' + sfx, ok_shape and ok_k, obs, 'r > 0 and |x-c|^2 <= k r^2, k constant in [1, 1+1e-6]', w, key_extra='contains')
    # users: extend branches on exactly contains(self, x) of its own arguments (R9 checks the arms); intersects_sphere tests the projection of the centre
    pb = F.body(G + 'Plane::intersects_sphere')
    ip2 = I.Interp(F, no_inline=[G + 'Sphere::contains', G + 'Plane::project_onto'])
    pl = I.Sym(nf.sym_atom('plane'), 'geometry::Plane')
    sp = I.Sym(nf.sym_atom('sphere'), 'geometry::Sphere')
    ip2.call_body(pb, [ip2.ref_to(pl), ip2.ref_to(sp)])
    ce = [e for e in ip2.events if e.callee == G + 'Sphere::contains']
    ok = len(ce) == 1 and repr(ce[0].fargs[0]) == 'sphere' and 'project_onto(plane, sphere.center)' in repr(ce[0].fargs[1]).replace('geometry::Plane::', '')
    ctx.check(rule, 'plane-sphere-test-uses-the-projected-centre' + sfx, ok, [repr(a)[:80] for a in ce[0].fargs] if ce else 'no contains call', 'sphere.contains(plane.project_onto(sphere.center))', where(pb), key_extra='intersects')
