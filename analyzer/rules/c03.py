"""C03 — faces are reciprocal: both sides see the same face, stored once (structural clauses)."""
from .. import interp as I, nf, dtab
from ..nf import RF, as_rf
from ..tables import c3
from ..facts import AnalysisIncomplete, strip_generics, calls, callee_name
from .util import *
from . import faces, c12, scen, c16

META = {
    'level': 'other',
    'configs': {'quick': ['default'], 'thorough': ['default', 'norayon', 'default_nodebug']},
    'rules': {
        'R8': 'both sides stop at the right time (C17.R2, C17.R3): candidates reach each builder in order of true distance — leaf key and envelope bound are the same squared distance — '
              'otherwise one cell can terminate before it was cut by a neighbour whose own cell is cut by it: a face without its reciprocal',
        'R9': 'with periodic boundaries the start box of a cell contains its whole periodic cell (C02.R3: lower < A - W/2, upper > A + 3W/2 strictly, on every active axis): a start box that is '
              'too small cuts cells with box walls, which have no reciprocal face',
        'R7': 'both sides are cut against the same candidate set (C01.R1): the builder hands every item of the candidate stream — including images of its own generator — to the '
              'clip routine unless the termination test ends the loop; a candidate filtered on one side only leaves a face without its reciprocal',
        'R1': 'construction table: a VoronoiFace is created for plane k of constructed cell i  <=>  V and (not(RS and SN) or right > i or (mask present and not mask[right])), '
              'at most once per plane, and all created faces are stored in plane order',
        'R2': 'symmetric-integral table: plane k is reported by compute_face_integrals_sym  <=>  V and not(SN and RS and right < i and mask[right]); equals R1 with the mask '
              'present; the non-symmetric variant reports  <=>  V; the loops over the tetrahedra end only when the stream does (no exit with a tetrahedron in hand)',
        'R3': 'link table (finalize): face pushed to left always, to right iff right is Some and shift is None, nowhere else',
        'R4': 'wrapped search: the reported shift is -1 * (query shift) and is None iff all three components are zero',
        'R5': 'one neighbour position: the builder\'s R and HalfSpace::right_loc (non-wall arm, used by the exact predicate) are both generators[right].loc + shift',
        'R6': 'face record provenance: left == cell.idx; right, shift and the integral are taken from the plane with the index under which the triangles are accumulated, and finalizing the record changes nothing but the integral',
    },
    'explanation': 'Decides the bookkeeping that makes faces reciprocal and stored once, each exhaustively over its finite atom set: which side creates '
                   'an interior face (antisymmetric in right>i between two constructed cells; always towards an unconstructed or shifted neighbour or a wall), '
                   'agreement of the symmetric integral route, linking, sign and absence of the periodic shift, a single definition of the neighbour position, '
                   'and provenance of the face record. Not decided: equality of area/centroid as seen from the two cells (numeric; depends on the '
                   'clip decisions being globally consistent, of which C05.R3/R4 decide the structural part).',
    'trusted_base': ['Option::get_or_insert(_with) creates only when the slot is empty', 'std iterator semantics', 'glam table', 'E0 extractor'],
    'assumptions': ['an unshifted neighbour index differs from the cell\'s own index (the self item is consumed first, C17/C01.R1)'],
}


def run(ctx):
    for cfg in ctx.configs_used:
        F = ctx.facts(cfg)
        sfx = '' if cfg == 'default' else '@' + cfg
        for fn in (r1, r2, r3, r4, r5, r6, r7, r8, r9):
            rule = 'C03.' + fn.__name__.upper()
            ctx.guarded(rule, 'evaluate' + sfx, lambda: fn(ctx, F, rule, sfx))


def decision_check(ctx, F, rule, sfx, which):
    s = faces.site(F, which)
    ctx.evaluations += s.ip.evaluations
    b = s.body
    creations = s.creations
    by_assignment = s.by_assignment
    if not creations:
        ctx.bad(rule, '%s:creation-site%s' % (which, sfx), 'no Option::get_or_insert(_with) on the per-plane slot inside the tetrahedron loop, and the record constructor is not gated by "slot is empty"',
                'faces are created at most once per plane', where(b), key_extra='no-creation')
        return None
    w = where(b, creations[0].line)
    # all creation events address the slot of plane K
    if not by_assignment:
        for e in creations:
            slot = repr(e.fargs[0])
            ctx.check(rule, '%s:slot-is-plane-index%s' % (which, sfx), slot.endswith('[%s]' % s.Ktxt), slot[-100:], 'the slot indexed by the tetrahedron\'s plane_idx', where(b, e.line), key_extra='slot')
    T, reach = faces.reached_table(s, creations)
    bad = []
    for env in T.rows():
        row = tuple(env[n] for n in T.names)
        got = reach.get(row, 0) > 0
        want = faces.required(which, env)
        if got != want:
            bad.append((env, got, want))
    # report compactly: project the mismatching rows
    if bad:
        env, got, want = bad[0]
        ctx.bad(rule, '%s:table%s' % (which, sfx), '%d of %d rows differ; e.g. [%s] -> %s' % (len(bad), 2 ** len(T.names), dtab.fmt_env(env), 'create' if got else 'skip'),
                'create' if want else 'skip', w, key_extra='table:%s' % dtab.fmt_env(env))
    else:
        ctx.ok(rule, '%s:table%s' % (which, sfx), '%d rows over %s agree' % (2 ** len(T.names), ','.join(T.names)), REQ_TXT[which], w)
    # every tetrahedron of a plane that has (or gets) a record is accumulated into it: the first one and all later ones (record already there).
    # Rows "record exists although the decision is skip" cannot occur (a record exists only where the decision was create) and are not constrained.
    if not s.collects:
        ctx.bad(rule, '%s:every-tetrahedron-of-a-reported-plane-accumulated%s' % (which, sfx), 'the tetrahedron loop never hands a triangle to a face record (no collect call)', 'collect <=> plane reported', where(b), key_extra='no-collect')
    else:
        Tc, rc = faces.reached_table(s, s.collects, raw=True)
        badc = []
        for env in Tc.rows():
            want = faces.required(which, env)
            if env['AC'] and not want:
                continue
            got = rc.get(tuple(env[n] for n in Tc.names), 0) > 0
            if got != want:
                badc.append((env, got, want))
        if badc:
            env, got, want = badc[0]
            ctx.bad(rule, '%s:every-tetrahedron-of-a-reported-plane-accumulated%s' % (which, sfx), '%d rows differ; e.g. [%s] -> %s' % (len(badc), dtab.fmt_env(env), 'collected' if got else 'dropped'),
                    'collected' if want else 'dropped', where(b, s.collects[0].line), key_extra='collect-table:%s' % dtab.fmt_env(env))
        else:
            ctx.ok(rule, '%s:every-tetrahedron-of-a-reported-plane-accumulated%s' % (which, sfx), 'collect reached on exactly the rows of reported planes (first and later tetrahedra)', 'collect <=> plane reported', where(b, s.collects[0].line))
    # ... and the loop runs over ALL tetrahedra: it is left only when the stream ends (a `break` where a `continue` belongs drops every later face)
    early = early_exits(s.ip)
    ctx.check(rule, '%s:loop-runs-to-the-end-of-the-stream%s' % (which, sfx), not early, ('the tetrahedron loop is left with a tetrahedron in hand when %s' % early[0]) if early else 'the loop over the tetrahedra ends only when the stream does',
              'every tetrahedron of the decomposition is looked at', where(b), key_extra='early-exit')
    return s, reach, T


REQ_TXT = {
    'direct': 'V and (not(RS and SN) or GT or (MS and not MR))',
    'integrals': 'V',
    'sym': 'V and not(SN and RS and not GT and MR)  (decided when the first tetrahedron of the plane arrives)',
}


def stored_in_plane_order(ctx, rule, sfx, s, which):
    """All created records leave the function: flatten(into_iter(slots)) mapped by finalize, appended/collected in order."""
    b = s.body
    if which == 'direct':
        ext = [e for e in s.ip.events if e.body is b and e.callee and e.callee.endswith('::extend') and not e.in_loop]
        if not ext:
            return stored_by_push_loop(ctx, rule, sfx, s, which)
        if len(ext) != 1:
            raise AnalysisIncomplete('extend calls storing the faces: %d' % len(ext))
        tgt = repr(ext[0].fargs[0])
        ch, src = stream_chain(ext[0].fargs[1])
        nm = [n for n, _ in ch]
        ok = tgt == 'faces' and nm == ['map', 'flatten', 'into_iter'] and repr(src).startswith('phi')
        ctx.check(rule, '%s:all-created-faces-stored%s' % (which, sfx), ok, 'extend(%s, %s over %s)' % (tgt, ' <- '.join(nm), repr(src)[:40]),
                  'faces.extend(map(flatten(into_iter(slots)), finalize)): every created face once, in plane order', where(b, ext[0].line), key_extra='store')
    else:
        ch, src = stream_chain(I.frozen(s.ret))
        nm = [n for n, _ in ch]
        ok = nm == ['collect', 'map', 'flatten', 'into_iter'] and repr(src).startswith('phi')
        ctx.check(rule, '%s:all-created-integrals-returned%s' % (which, sfx), ok, '%s over %s' % (' <- '.join(nm), repr(src)[:40]),
                  'collect(map(flatten(into_iter(slots)), finalize))', where(b), key_extra='store')


def stored_by_push_loop(ctx, rule, sfx, s, which):
    """The explicit form: `for slot in slots { if let Some(f) = slot { faces.push(f.finalize()) } }`."""
    b = s.body
    push = [e for e in s.ip.events if e.body is b and e.callee and e.callee.endswith('Vec::<T, A>::push') and e.in_loop]
    if len(push) != 1:
        raise AnalysisIncomplete('calls storing the faces: 0 extend, %d push in a loop' % len(push))
    pe = push[0]
    tk = I.vkey(pe.fargs[0])
    Ls = [(L, x) for L in s.ip.loops if L['body'] is b for x in L.get('ext', ()) if x['cell'] is s.out_ref.lv.cell and I.vkey(I.frozen(x['phi'])) == tk]
    nx = [e for e in next_events(s.ip, b) if e is not s.next and e.in_loop]
    if len(Ls) != 1 or len(nx) != 1:
        raise AnalysisIncomplete('push loop storing the faces not identified (%d loops writing the output vector, %d stream reads)' % (len(Ls), len(nx)))
    L, x = Ls[0]
    L2, i = loop_record_of(s.ip, nx[0])
    ch, src = stream_chain(I.frozen(L2['init'][i]))
    nm = [n for n, _ in ch]
    item = I.get_field(I.downcast(nx[0].result, 'Some'), 0)

    def val(leaf):
        d = dtab.is_discr_eq(leaf)
        if d is not None:
            if repr(d[0]) == repr(I.frozen(nx[0].result)):
                return (d[1] == 1) == d[2]
            if repr(d[0]) == repr(I.frozen(item)):
                return ((d[1] == 1) == d[2]) == some
        raise AnalysisIncomplete('push of a finalized face depends on %r' % (leaf,))
    g = pe.guard
    some = True
    reached_some = dtab.conj(g, val)
    some = False
    reached_none = dtab.conj(g, val)
    want_arg = 'call:voronoi::voronoi_face::VoronoiFace::finalize(%s.Some.0)' % repr(I.frozen(item))
    ok = (L is L2 and repr(I.frozen(x['init'])) == 'faces' and nm == ['into_iter'] and repr(src).startswith('phi') and reached_some and not reached_none
          and repr(pe.fargs[1]) == want_arg and len(x['back']) >= 1)
    ctx.check(rule, '%s:all-created-faces-stored%s' % (which, sfx), ok,
              'loop over %s of %s pushing %s when the slot is Some=%s/None=%s' % (' <- '.join(nm), repr(src)[:40], repr(pe.fargs[1])[:80], reached_some, reached_none),
              'every created face finalized and appended once, in plane order', where(b, pe.line), key_extra='store')


def r1(ctx, F, rule, sfx):
    res = decision_check(ctx, F, rule, sfx, 'direct')
    if res is None:
        return
    s, reach, T = res
    stored_in_plane_order(ctx, rule, sfx, s, 'direct')
    # antisymmetry between two constructed cells: for V, RS, SN, MS->MR rows the decision flips with GT
    n = 0
    ok = True
    for env in T.rows():
        if env['V'] and env['RS'] and env['SN'] and (env['MR'] or not env['MS']) and not env['AC'] and env['GT']:
            env2 = dict(env)
            env2['GT'] = False
            a = reach.get(tuple(env[k] for k in T.names), 0) > 0
            b_ = reach.get(tuple(env2[k] for k in T.names), 0) > 0
            n += 1
            ok = ok and (a != b_)
    ctx.check(rule, 'direct:antisymmetric-between-constructed-cells' + sfx, ok and n > 0, '%d row pairs' % n, 'exactly one of the two constructed cells creates the shared unshifted face', where(s.body), key_extra='antisym')


def r2(ctx, F, rule, sfx):
    res_s = decision_check(ctx, F, rule, sfx, 'sym')
    res_i = decision_check(ctx, F, rule, sfx, 'integrals')
    if res_s:
        stored_in_plane_order(ctx, rule, sfx, res_s[0], 'sym')
    if res_i:
        stored_in_plane_order(ctx, rule, sfx, res_i[0], 'integrals')
    if res_s is None:
        return
    # sibling agreement with the direct route when the mask is present (the integrator passes Some(cell_is_active))
    sd = faces.site(F, 'direct')
    Td, rd = faces.reached_table(sd, sd.creations)
    ss, rs, Ts = res_s
    diff = 0
    n = 0
    for env in Ts.rows():
        if env['AC'] or not env['MS']:
            continue
        row = tuple(env[k] for k in Ts.names)
        n += 1
        if (rd.get(row, 0) > 0) != (rs.get(row, 0) > 0):
            diff += 1
    ctx.check(rule, 'sym-equals-direct-with-mask' + sfx, diff == 0 and n > 0, '%d of %d rows differ' % (diff, n), 'identical decisions (face list <-> symmetric integrals)', where(ss.body), key_extra='sibling')


def r3(ctx, F, rule, sfx):
    c12.link_analysis(ctx, F, rule, sfx, prop='C03')


def shift_closure(F):
    w = F.body_by_suffix('rtree_nn::wrapping_nn_iter')
    cl = [c for c in F.closures_of(w) if c['arg_count'] == 2 and 'Generator' in c['locals'][2]['ty']]
    if len(cl) != 1:
        raise AnalysisIncomplete('closures mapping the wrapped search items: %d' % len(cl))
    return w, cl[0]


def r4(ctx, F, rule, sfx):
    w, c = shift_closure(F)
    ip = I.Interp(F)
    g = I.Sym(nf.sym_atom('g'), '&voronoi::generator::Generator')
    s = [RF.sym('s%d' % i) for i in range(3)]
    cv = I.St('closure:' + c['path'], None, {})
    v, _ = ip.call_body(c, [ip.ref_to(cv, mut=True), I.tup(g, RF.sym('dist'), I.arr(s))])
    ctx.evaluations += ip.evaluations
    ident = I.get_field(v, 0)
    sh = I.get_field(v, 1)
    wh = where(c)
    ctx.check(rule, 'reported-index-is-generator-id' + sfx, repr(ident) == 'g.id', repr(ident), 'g.id()', wh, key_extra='id')

    norm2 = s[0] * s[0] + s[1] * s[1] + s[2] * s[2]
    magnitude = []

    def classify(leaf):
        if leaf.op == 'cmp' and leaf.args[0] in ('==', '!='):
            a, b = leaf.args[1], leaf.args[2]
            for x, y in ((a, b), (b, a)):
                if isinstance(y, RF) and y.is_zero() and isinstance(x, RF):
                    for i in range(3):
                        if x == s[i]:
                            return ('Z%d' % i, leaf.args[0] == '==')
        # a comparison of the size of the shift with a positive constant: decided when the shift is zero, otherwise it can
        # go either way (the shift may be arbitrarily small in a small box): modelled by the free atom MAG ("the shift is large")
        if leaf.op == 'cmp' and leaf.args[0] in ('<', '<=') and isinstance(leaf.args[1], RF) and isinstance(leaf.args[2], RF):
            for lhs, rhs, large_if in ((leaf.args[1], leaf.args[2], True), (leaf.args[2], leaf.args[1], False)):
                if lhs.is_const() and lhs.const_value() > 0 and rhs in (norm2, nf.fn_sqrt(norm2)):
                    magnitude.append(leaf)
                    return ('MAG', large_if)       # c <(=) |s|^2  is "large";  |s|^2 <(=) c is "not large"
        return None

    def feasible(env):
        return not (env['Z0'] and env['Z1'] and env['Z2'] and env['MAG'])
    T = dtab.Table(['Z0', 'Z1', 'Z2', 'MAG'], classify, constraint=feasible)
    tab = T.tabulate(sh)
    for env in T.rows():
        row = tuple(env[n] for n in T.names)
        got = tab[row]
        if all(row[:3]):
            ok = isinstance(got, I.St) and got.variant == 'None'
            want = 'None'
        else:
            ok = isinstance(got, I.St) and got.variant == 'Some' and [as_rf(x) for x in c3(got.fields[0])] == [-x for x in s]
            want = 'Some(-shift)'
        if not magnitude and env['MAG']:
            continue
        ctx.check(rule, 'shift[%s]%s' % (dtab.fmt_env({k: v_ for k, v_ in env.items() if k != 'MAG' or magnitude}), sfx), ok, repr(got)[:100], want, wh, key_extra=dtab.fmt_env(env))


def r5(ctx, F, rule, sfx):
    rl = F.body_by_suffix('HalfSpace::right_loc')
    ip = I.Interp(F)
    hs = I.Sym(nf.sym_atom('hs'), 'voronoi::half_space::HalfSpace')
    gens = I.Sym(nf.sym_atom('generators'), '&[voronoi::generator::Generator]')
    v, _ = ip.call_body(rl, [ip.ref_to(hs), RF.sym('left'), gens])
    ctx.evaluations += ip.evaluations
    wh = where(rl)

    def classify(leaf):
        p = dtab.option_leaf(leaf, 'hs.right_idx')
        if p is not None:
            return ('RS', p)
        p = dtab.option_leaf(leaf, 'hs.shift')
        if p is not None:
            return ('SS', p)
        return None
    T = dtab.Table(['RS', 'SS'], classify)
    tab = T.tabulate(v)
    gl = c3(I.get_field(I.get_index(gens, I.get_field(I.downcast(I.get_field(hs, 'right_idx'), 'Some'), 0, 'usize'), 'voronoi::generator::Generator'), 'loc', 'glam::DVec3'))
    shv = c3(I.get_field(I.downcast(I.get_field(hs, 'shift'), 'Some'), 0, 'glam::DVec3'))
    for env in T.rows():
        if not env['RS']:
            continue
        got = c3(tab[(env['RS'], env['SS'])])
        want = [gl[i] + shv[i] for i in range(3)] if env['SS'] else gl
        ctx.check(rule, 'right_loc[%s]%s' % (dtab.fmt_env(env), sfx), all(as_rf(got[i]) == want[i] for i in range(3)), repr(got[0])[:100],
                  'generators[right].loc' + (' + shift' if env['SS'] else ''), wh, key_extra=dtab.fmt_env(env))
    # the builder's neighbour position (same normal form, C01.R2 checks the plane built from it)
    sc = scen.build_scenario(F)
    if len(sc.hs_events) != 1:
        raise AnalysisIncomplete('half-space constructions in the builder: %d' % len(sc.hs_events))
    X, shift, cs = c16.neighbour_position(sc, sc.hs_events[0])
    ev = sc.hs_events[0]
    n, p, ridx, shiftv = ev.args
    for name, (mp, R) in cs.items():
        pk = [I.subst(x, mp) for x in c3(p)]
        ok = all(pk[i] * 2 - sc.L[i] == R[i] for i in range(3))
        ctx.check(rule, 'builder-position-%s%s' % (name, sfx), ok, 'R = 2p - L = %r' % ((pk[0] * 2 - sc.L[0]),), 'generators[i].loc' + (' + shift' if name == 'shifted' else '') + ' (the value right_loc returns for the stored right_idx/shift)', where(sc.body, ev.line), key_extra='builder-' + name)
    # the stored right_idx/shift are the ones R was computed from
    ctx.check(rule, 'stored-index-and-shift' + sfx, isinstance(ridx, I.St) and ridx.variant == 'Some' and I.vkey(ridx.fields[0]) == I.vkey(X) and I.vkey(shiftv) == I.vkey(shift),
              'HalfSpace::new(.., %r, %r)' % (ridx, shiftv), 'Some(i) and the shift of the same stream item', where(sc.body, ev.line), key_extra='stored')


def r6(ctx, F, rule, sfx):
    fi = F.body_by_suffix('integrals::FaceIntegrator::init')
    ip = I.Interp(F, no_inline=[b['path'] for b in F.bodies if b['path'].endswith('::init_with_data')])
    cell = I.Sym(nf.sym_atom('cell'), 'voronoi::convex_cell::ConvexCell<M>')
    v, _ = ip.call_body(fi, [ip.ref_to(cell), RF.sym('k'), I.Sym(nf.sym_atom('data'), 'D')])
    ctx.evaluations += ip.evaluations
    wh = where(fi)
    got = {f: repr(I.frozen(I.get_field(v, f))) for f in ('left', 'right', 'shift', 'integral')}
    ctx.check(rule, 'left-is-cell-index' + sfx, got['left'] == 'cell.idx', got['left'], 'cell.idx', wh, key_extra='left')
    ctx.check(rule, 'right-of-same-plane' + sfx, got['right'] == 'cell.clipping_planes[k].right_idx', got['right'], 'cell.clipping_planes[k].right_idx', wh, key_extra='right')
    ctx.check(rule, 'shift-of-same-plane' + sfx, got['shift'] == 'cell.clipping_planes[k].shift', got['shift'], 'cell.clipping_planes[k].shift', wh, key_extra='shift')
    ok = got['integral'].startswith('call:') and got['integral'].endswith('init_with_data(cell, k, data)')
    ctx.check(rule, 'integral-of-same-plane' + sfx, ok, got['integral'][-80:], 'I::init_with_data(cell, k, data)', wh, key_extra='integral')
    # the stored face record (VoronoiFace::init wraps the integrator's record): read back through its own accessors
    vf = F.body_by_suffix('voronoi_face::VoronoiFace::init')
    ipv = I.Interp(F, no_inline=[b['path'] for b in F.bodies if b['path'].endswith('::init_with_data')])
    rec, _ = ipv.call_body(vf, [ipv.ref_to(cell), RF.sym('k')])
    ctx.evaluations += ipv.evaluations
    for acc, want in (('left', 'cell.idx'), ('right', 'cell.clipping_planes[k].right_idx'), ('shift', 'cell.clipping_planes[k].shift')):
        ab = F.body_by_suffix('voronoi_face::VoronoiFace::' + acc)
        val, _ = ipv.call_body(ab, [ipv.ref_to(rec)])
        g = repr(I.frozen(val))
        ctx.check(rule, 'stored-face-%s%s' % (acc, sfx), g == want, g[:140], want, where(vf), key_extra='stored-' + acc)
    # every creation site passes the accumulation index K
    for which in ('direct', 'integrals', 'sym'):
        s = faces.site(F, which)
        inits = [e for e in s.inits if e.in_loop]
        if not inits:
            raise AnalysisIncomplete('%s: no face record constructor call in the loop' % which)
        for e in inits:
            a = [repr(x) for x in e.fargs]
            ok = a[0] == 'cell' and a[1] == s.Ktxt
            ctx.check(rule, '%s:record-built-for-accumulation-plane%s' % (which, sfx), ok, 'init(%s, %s)' % (a[0], a[1][-60:]), 'init(cell, tet.plane_idx)', where(e.body, e.line), key_extra='initargs')
        # records created outside the tetrahedron loop (a second route through the same function, e.g. a per-face fast path): the second argument
        # is a clipping-plane index by contract (FaceIntegral::init, right()/shift() of the record); a position in some other list is not
        for e in [x for x in s.inits if not x.in_loop or x not in inits]:
            if e in inits:
                continue
            a1 = repr(e.fargs[1])
            if a1.endswith('.clipping_plane'):
                continue
            is_pos = a1.endswith(').0') and 'enumerate' in a1
            if is_pos:
                ctx.bad(rule, '%s:record-built-for-a-plane-index%s' % (which, sfx), 'init(cell, %s)' % a1[-70:], 'a clipping-plane index (the position of a face in the compacted face list is a different numbering)', where(e.body, e.line), key_extra='init-pos')
            else:
                raise AnalysisIncomplete('%s: a face record is created outside the tetrahedron loop for %s' % (which, a1[-80:]))
        for e in s.collects:
            a = [repr(x) for x in e.fargs]
            t = repr(s.tet)
            okv = a[1:4] == ['%s.vertices[%d]' % (t, i) for i in range(3)] and a[4] == 'cell.loc'
            ctx.check(rule, '%s:triangle-of-this-tetrahedron%s' % (which, sfx), okv, ', '.join(x[-24:] for x in a[1:5]), 'tet.vertices[0..2], cell.loc', where(e.body, e.line), key_extra='collectargs')
    # ... and the record keeps left / right / shift when it is finalized and stored (only the integral is replaced by its finalized value)
    wrappers_forward(ctx, F, rule, sfx)


def r7(ctx, F, rule, sfx):
    from . import c01
    c01.r1(ctx, F, rule, sfx)


def r8(ctx, F, rule, sfx):
    from . import c17
    c17.r2(ctx, F, rule, sfx)
    c17.r3(ctx, F, rule, sfx)


def r9(ctx, F, rule, sfx):
    from . import c02
    c02.r3(ctx, F, rule, sfx)
