"""C05 — construction is total and robust on boundary and degenerate inputs (structural clauses)."""
from fractions import Fraction
from .. import interp as I, nf, dtab
from ..nf import RF, as_rf
from ..tables import c3, dot3
from ..facts import AnalysisIncomplete, strip_generics, calls, callee_name
from .util import *
from . import scen, c01, c02, routes

META = {
    'level': 'other',
    'configs': {'quick': ['default'], 'thorough': ['default', 'norayon', 'default_nodebug']},
    'rules': {
        'R7': 'the float filter leaves every undecided vertex to the exact predicate (C01.R4): clip(v) is 0 on the WHOLE window |n.v - d| < errb (both sides of the plane) and the sign of n.v - d '
              'outside it; a one-sided or shifted window lets rounding noise decide some ties, and different cells then resolve the same tie differently',
        'R6': 'degenerate point sets are cut by every candidate (C01.R1): a single generator, a collinear or coplanar set in a periodic box is bounded by images of its own '
              'generator; the builder may remove exactly the first stream item (the generator itself, unshifted) and must clip with, or terminate on, every other item',
        'R1': 'integer-grid domain: for every (dimensionality x periodic) configuration and every position the clip routine can pass to iloc — the generator L, a neighbour g + shift, '
              'the mirror image of L through each wall — the rescaled coordinate lies in [1, 2) for all generators in the closed box (affine range evaluation over the reals)',
        'R2': 'the five points of the exact predicate are distinct: the wall arm of right_loc is the mirror image 2*proj - L, which must differ from L for every generator in the closed box',
        'R3': 'ties go to the exact predicate: the value tested for removal is the float filter\'s sign when the filter is decisive and the exact predicate\'s sign when the filter returns 0; '
              'the filter bound dominates the rounding error of every component product: errb == eps*(1 + sum_c |n_c|*|p_c| ...) with eps > 0',
        'R4': 'predicate arguments: (iloc(L), iloc(right_loc(dual[s0])), iloc(right_loc(dual[s1])), iloc(right_loc(dual[s2])), iloc(right_loc(new plane))) with (s0,s1,s2) an even permutation of (0,1,2); '
              'right_loc of a neighbour plane is the stored generator position (+ shift), not a value recomputed per cell (C03.R5)',
        'R5': 'iloc: every component is to_bits(1 + (x_c - a\'_c)*inv_c) & (2^52 - 1) with a\' = A - k_lo*W and inv = 1/(k*W), k > 0 (monotone, axis c uses the quantities of axis c)',
    },
    'explanation': 'Decides the structural preconditions of robust tie-breaking: the integer grid contains every queried position (R1, closed below / open above exactly as iloc requires), '
                   'the points handed to the predicate are pairwise distinct as formulas (R2), ties are routed to exact arithmetic and the filter threshold is a genuine forward error '
                   'bound shape (R3), the predicate sees the right points in an orientation-preserving order (R4), and the position-to-grid map is monotone (R5). Not decided: termination of '
                   'the boundary walk, non-zero three-plane determinants, finiteness of results (runtime values).',
    'trusted_base': ['IEEE-754: for x in [1,2) the 52 mantissa bits are a strictly increasing function of x', 'glam table', 'E0 extractor'],
    'assumptions': ['real arithmetic', 'generators inside the closed box', 'width > 0'],
}

AX = 'xyz'
NACT = {'OneD': 1, 'TwoD': 2, 'ThreeD': 3}
T = RF.sym('t')


def run(ctx):
    for cfg in ctx.configs_used:
        F = ctx.facts(cfg)
        sfx = '' if cfg == 'default' else '@' + cfg
        for fn in (r1, r2, r3, r4, r5, r6, r7):
            rule = 'C05.' + fn.__name__.upper()
            ctx.guarded(rule, 'evaluate' + sfx, lambda: fn(ctx, F, rule, sfx))


class DimensionDependentGrid(AnalysisIncomplete):
    pass


def iloc_form(ctx, F):
    """Evaluate iloc on a symbolic boundary: per component (rescaled coordinate RF, mask int)."""
    b = F.body_by_suffix('SimulationBoundary::iloc')
    # the map must not depend on the dimensionality: mirror images through the walls of the UNUSED axes (z = +-1 for a generator at z = 0) are
    # queried in 1D/2D as well, so every component is converted in every mode.  Evaluated once per mode; the three results must be the same.
    per_dim = {}
    a_adt = F.adt('voronoi::boundary::SimulationBoundary', required=False)
    has_dim = a_adt is not None and any(f['name'] == 'dimensionality' for f in a_adt['variants'][0]['fields'])
    for dim in (('OneD', 'TwoD', 'ThreeD') if has_dim else (None,)):
        ip = I.Interp(F)
        ip.unroll_limit = 4
        fields = {'anchor': I.sym_vec3('a'), 'inverse_width': I.sym_vec3('iw')}
        if dim is not None:
            fields['dimensionality'] = I.St('voronoi::Dimensionality', dim, {})
        bd = I.St('voronoi::boundary::SimulationBoundary', 'SimulationBoundary', fields, I.Sym(nf.sym_atom('boundary'), 'voronoi::boundary::SimulationBoundary'))
        vv, _ = ip.call_body(b, [ip.ref_to(bd), I.sym_vec3('x')])
        ctx.evaluations += ip.evaluations
        per_dim[dim] = vv
    keys = {d: I.vkey(I.frozen(x)) for d, x in per_dim.items()}
    if len(set(keys.values())) != 1:
        diff = [d for d in per_dim if keys[d] != keys.get('ThreeD')]
        raise DimensionDependentGrid('the integer grid map differs between dimensionalities (%s differ from ThreeD): e.g. %s' % (diff, repr(I.frozen(per_dim[diff[0]]))[:120]))
    v = per_dim.get('ThreeD', per_dim.get(None))
    out = []
    for c in range(3):
        e = as_rf(I.get_index(v, RF.const(c), 'i64'))
        at = I.single_atom(e)
        # unwrap(try_into(bitand(to_bits(u), mask)))
        chain = []
        while at is not None and at.kind == 'app' and at.name in ('unwrap',) or (at is not None and at.kind == 'app' and at.name.startswith('call:') and at.name.endswith('try_into')):
            inner = at.args[0]
            at = I.single_atom(inner) if isinstance(inner, RF) else (inner.atom if isinstance(inner, I.Sym) else None)
        if at is None or at.kind != 'app' or at.name != 'bitand':
            raise AnalysisIncomplete('iloc component %d is not (bits & mask): %r' % (c, e), b['path'])
        x, m = at.args
        if isinstance(m, RF) and not m.is_const():
            x, m = m, x
        xa = I.single_atom(x)
        if xa is None or xa.name != 'to_bits' or not (isinstance(m, RF) and m.is_const()):
            raise AnalysisIncomplete('iloc component %d: %r' % (c, e), b['path'])
        out.append((as_rf(xa.args[0]), int(m.const_value())))
    return b, out


def r5(ctx, F, rule, sfx):
    try:
        b, comps = iloc_form(ctx, F)
    except DimensionDependentGrid as e:
        ib = F.body_by_suffix('SimulationBoundary::iloc')
        ctx.bad(rule, 'grid-map-independent-of-dimensionality' + sfx, str(e)[:260], 'all three components converted in 1D, 2D and 3D alike (wall mirror images leave the active subspace)', where(ib), key_extra='dimdep')
        return
    w = where(b)
    for c, (u, mask) in enumerate(comps):
        a, iw, x = RF.sym('a.' + AX[c]), RF.sym('iw.' + AX[c]), RF.sym('x.' + AX[c])
        ctx.check(rule, 'mask-%s%s' % (AX[c], sfx), mask == 2 ** 52 - 1, hex(mask), '2^52 - 1 (all mantissa bits)', w, key_extra='mask')
        ctx.check(rule, 'rescale-%s%s' % (AX[c], sfx), u == RF.const(1) + (x - a) * iw, repr(u), '1 + (x_%s - anchor_%s) * inverse_width_%s' % (AX[c], AX[c], AX[c]), w, key_extra='rescale')
    # a' and inv as built by the boundary constructor: a' = A - k_lo W, inv = 1/(k W), k > 0
    for dim in routes.DIMS:
        for per in (False, True):
            k = grid_params(ctx, F, dim, per)
            for c in range(3):
                klo, kk = k[c]
                ok = klo is not None and kk is not None and kk > 0
                ctx.check(rule, 'domain-shape:%s:%s:%s%s' % (dim, 'periodic' if per else 'reflective', AX[c], sfx), ok, 'anchor\' = A - %s W, inverse = 1/(%s W)' % (klo, kk), 'constants with positive slope', where(F.body_by_suffix('SimulationBoundary::cuboid')), key_extra='shape')


def grid_params(ctx, F, dim, per):
    """-> per axis (k_lo, k) with a' = A - k_lo*W and inv = 1/(k*W) in terms of the constructor's own arguments (None if not of that form)."""
    cub, ip, v, planes = c02.boundary(F, dim, per)
    ctx.evaluations += ip.evaluations
    an = c3(I.get_field(v, 'anchor'))
    iw = c3(I.get_field(v, 'inverse_width'))
    out = []
    for c in range(3):
        A, W = RF.sym('A.' + AX[c]), RF.sym('W.' + AX[c])
        klo = (A - an[c]) / W
        kk = RF.const(1) / (iw[c] * W)
        out.append((klo.const_value() if klo.is_const() else None, kk.const_value() if kk.is_const() else None))
    return out


def wall_mirror(ctx, F):
    """right_loc's wall arm evaluated on an axis-aligned wall: mirror_c == 2 p_c - L_c, other components unchanged.  -> checker function."""
    rl = F.body_by_suffix('HalfSpace::right_loc')

    def mirror(n, p):
        ip = I.Interp(F)
        hs = I.St('voronoi::half_space::HalfSpace', 'HalfSpace', {'plane': I.St('geometry::Plane', 'Plane', {'n': I.vec3(*n), 'p': I.vec3(*p)}), 'right_idx': I.NONE, 'shift': I.NONE})
        gens = I.Sym(nf.sym_atom('generators'), '&[voronoi::generator::Generator]')
        v, _ = ip.call_body(rl, [ip.ref_to(hs), RF.sym('left'), gens])
        ctx.evaluations += ip.evaluations
        L = c3(I.get_field(I.get_index(gens, RF.sym('left'), 'voronoi::generator::Generator'), 'loc', 'glam::DVec3'))
        return c3(v), L
    return rl, mirror


def positions(ctx, F, dim, per):
    """Position families per axis as RF in t (generator coordinate = A + t W on active axes, 0 on inactive ones)
    -> {axis: [(name, RF coordinate, (t_lo, t_hi))]} plus the wall offsets."""
    cub, ip, v, planes = c02.boundary(F, dim, per)
    rl, mirror = wall_mirror(ctx, F)
    fam = {c: [] for c in range(3)}
    for c in range(3):
        A, W = RF.sym('A.' + AX[c]), RF.sym('W.' + AX[c])
        active = c < NACT[dim]
        Lc = A + T * W if active else None
        fam[c].append(('generator', Lc, (0, 1)))
        if per and active:
            for s in (-1, 1):
                fam[c].append(('neighbour image shift %+d' % s, A + T * W + s * W, (0, 1)))
        fam[c].append(('neighbour', Lc, (0, 1)))
    return fam, planes, mirror


def u_of(x, klo, kk, A, W):
    return RF.const(1) + (x - (A - klo * W)) / (kk * W)


def affine_range(u, lo, hi):
    """u affine in t with constant coefficients -> (min, max) over [lo, hi] else None."""
    beta = u.coeff_linear(nf.sym_atom('t')) if hasattr(u, 'coeff_linear') else None
    try:
        u0 = I.subst(u, {nf.sym_atom('t'): RF.const(0)})
        u1 = I.subst(u, {nf.sym_atom('t'): RF.const(1)})
    except Exception:
        return None
    if not (u0.is_const() and u1.is_const()):
        return None
    b = u1.const_value() - u0.const_value()
    # affine check: u(2) == u0 + 2b
    u2 = I.subst(u, {nf.sym_atom('t'): RF.const(2)})
    if not u2.is_const() or u2.const_value() != u0.const_value() + 2 * b:
        return None
    vals = [u0.const_value() + b * lo, u0.const_value() + b * hi]
    return min(vals), max(vals)


def r1(ctx, F, rule, sfx):
    b, comps = iloc_form(ctx, F)
    rl, mirror = wall_mirror(ctx, F)
    cubb = F.body_by_suffix('SimulationBoundary::cuboid')
    n_scen = 0
    for dim in routes.DIMS:
        for per in (False, True):
            tag = '%s:%s' % (dim, 'periodic' if per else 'reflective')
            k = grid_params(ctx, F, dim, per)
            cub, ip, v, planes = c02.boundary(F, dim, per)
            # the box the constructor receives (entry points normalise the inactive axes: C02.R1)
            for c in range(3):
                active = c < NACT[dim]
                klo, kk = k[c]
                if klo is None or kk is None or kk <= 0:
                    ctx.incomplete(rule, '%s:%s%s' % (tag, AX[c], sfx), 'grid parameters are not constants', where(cubb))
                    continue
                A, W = RF.sym('A.' + AX[c]), RF.sym('W.' + AX[c])
                if active:
                    Lc = A + T * W
                    sub = {}
                else:
                    # inactive axis: unit slab [-1/2, 1/2], generators projected to 0
                    Lc = RF.const(0)
                    sub = {nf.sym_atom('A.' + AX[c]): RF.const(Fraction(-1, 2)), nf.sym_atom('W.' + AX[c]): RF.const(1)}
                fams = [('generator', Lc)]
                if per and active:
                    fams += [('neighbour image, shift -W', Lc - W), ('neighbour image, shift +W', Lc + W)]
                for n_, p_, hs in planes:
                    cw = c02.classify_wall(n_, p_)
                    if cw is None or cw[0] != c:
                        continue
                    # mirror of a generator with this coordinate through this wall (formula taken from right_loc itself)
                    m, Lsym = mirror(n_, p_)
                    mc = I.subst(m[c], {I.single_atom(Lsym[c]): Lc})
                    fams.append(('mirror through the %s wall' % ('lower' if cw[1] == 'lo' else 'upper'), mc))
                for name, x in fams:
                    n_scen += 1
                    u = u_of(as_rf(x), RF.const(klo), RF.const(kk), A, W)
                    u = I.subst(u, sub) if sub else u
                    rng = affine_range(u, 0, 1)
                    inst = '%s:%s:%s%s' % (tag, AX[c], name, sfx)
                    if rng is None:
                        ctx.incomplete(rule, inst, 'rescaled coordinate %r is not affine in the generator position with constant coefficients' % u, where(cubb))
                        continue
                    lo, hi = rng
                    ok = lo >= 1 and hi < 2
                    ctx.check(rule, inst, ok, 'rescaled coordinate ranges over [%s, %s]' % (lo, hi), 'within [1, 2) for every generator in the closed box', where(cubb), key_extra='%s|%s|%s' % (tag, AX[c], name))
    ctx.floor(rule, 'grid-domain scenarios' + sfx, n_scen, 36)


def r2(ctx, F, rule, sfx):
    rl, mirror = wall_mirror(ctx, F)
    w = where(rl)
    # the wall arm is a reflection: mirror_c == 2 p_c - L_c along the wall axis and L elsewhere
    cub, ip, v, planes = c02.boundary(F, 'ThreeD', False)
    for n_, p_, hs in planes:
        cw = c02.classify_wall(n_, p_)
        if cw is None:
            continue
        c, side, off = cw
        m, L = mirror(n_, p_)
        ok = all((m[i] == (off * 2 - L[i] if i == c else L[i])) for i in range(3))
        ctx.check(rule, 'wall-arm-is-reflection:%s-%s%s' % (AX[c], side, sfx), ok, 'right_loc = (%r, ..)' % (m[c],), '2*wall - L along the wall axis, L elsewhere', w, key_extra='reflection')
    # coincidence with the generator: exists t in [0,1] with mirror == L  <=>  the wall offset s lies in [0,1]
    for dim in routes.DIMS:
        for per in (False, True):
            cub, ip, v, planes = c02.boundary(F, dim, per)
            for n_, p_, hs in planes:
                cw = c02.classify_wall(n_, p_)
                if cw is None:
                    continue
                c, side, off = cw
                A, W = RF.sym('A.' + AX[c]), RF.sym('W.' + AX[c])
                if c < NACT[dim]:
                    s = (off - A) / W
                    if not s.is_const():
                        ctx.incomplete(rule, 'wall-offset:%s:%s%s' % (dim, AX[c], sfx), 'wall offset %r not a multiple of the width' % off, where(cub))
                        continue
                    sv = s.const_value()
                    coincide = 0 <= sv <= 1
                    where_t = 't = %s' % sv
                else:
                    # inactive axis: generator coordinate 0, wall at off (with A = -1/2, W = 1)
                    offv = I.subst(off, {nf.sym_atom('A.' + AX[c]): RF.const(Fraction(-1, 2)), nf.sym_atom('W.' + AX[c]): RF.const(1)})
                    coincide = offv.is_const() and offv.const_value() == 0
                    where_t = 'projected coordinate 0'
                kind = 'periodic' if per else 'reflective'
                axis_kind = 'active-axis' if c < NACT[dim] else 'inactive-axis'
                inst = 'mirror-differs-from-generator:%s:%s:%s-%s%s' % (dim, kind, AX[c], side, sfx)
                if coincide:
                    ctx.bad(rule, 'mirror-differs-from-generator:%s:%s' % (kind, axis_kind), '%s wall %s-%s: the mirror image through this wall equals the generator at %s (generator exactly on the wall): two predicate points coincide' % (dim, AX[c], side, where_t),
                            'mirror != generator for every generator in the closed box', where(cub), key_extra='wall-mirror-coincides-with-generator|%s|%s' % (kind, axis_kind))
                else:
                    ctx.ok(rule, inst, 'wall outside the range of generator coordinates', 'distinct', where(cub))


def r3(ctx, F, rule, sfx):
    sc = scen.build_scenario(F)
    cb = F.body(sc.clip_path)
    val = c01.r4_removal(ctx, F, rule, sfx, cb)
    ip, selfref = c01.clip_scenario(F, cb)
    w = where(cb)
    ex = [e for e in ip.events if e.callee and e.callee.endswith('geometry::in_sphere_test_exact')]
    fl = [e for e in ip.events if e.callee and strip_generics(e.callee).endswith('HalfSpace::clip') and e.body is cb]
    if len(ex) != 1 or len(fl) != 1:
        ctx.bad(rule, 'two-sources' + sfx, 'float filter calls: %d, exact predicate calls: %d' % (len(fl), len(ex)), 'one of each per vertex', w, key_extra='sources:%d:%d' % (len(fl), len(ex)))
        return
    f, e = as_rf(fl[0].result), as_rf(ex[0].result)
    tie = I.b_cmp('==', f, RF.const(0))
    want = I.ite(tie, e, f)
    ok = val is not None and isinstance(val, RF) and val == want
    ctx.check(rule, 'tested-value-is-filter-or-exact' + sfx, ok, repr(val)[:160], 'ite(filter == 0, exact predicate, filter)', w, key_extra='tested')
    g = [c for c in ex[0].guard]
    ok = any(c == tie for c in g)
    ctx.check(rule, 'exact-predicate-consulted-exactly-on-ties' + sfx, ok, [repr(c)[:80] for c in g][-2:], 'guarded by filter == 0', where(ex[0].body, ex[0].line), key_extra='tie-guard')
    ctx.check(rule, 'filter-applied-to-the-vertex-being-tested' + sfx, repr(fl[0].fargs[0]) == 'newplane' and '.vertices[' in repr(fl[0].fargs[1]) and repr(fl[0].fargs[1]).endswith('.loc'), [repr(a)[-60:] for a in fl[0].fargs], 'p.clip(self.vertices[i].loc)', where(cb, fl[0].line), key_extra='filter-args')
    # filter bound shape
    hn = F.body_by_suffix('half_space::HalfSpace::new')
    ipn = I.Interp(F)
    n, p = I.sym_vec3('n'), I.sym_vec3('p')
    v, _ = ipn.call_body(hn, [n, p, I.NONE, I.NONE])
    ctx.evaluations += ipn.evaluations
    errb = as_rf(I.get_field(v, 'errb', 'f64'))
    okb, why = errb_dominates(errb)
    ctx.check(rule, 'filter-bound-dominates-component-products' + sfx, okb, 'errb = %s (%s)' % (repr(errb)[:140], why), 'eps*(1 + sum over axes of |n_c|*|p_c| [+ further non-negative terms]), eps > 0', where(hn), key_extra='errb')
    # the clip() threshold compares |n.v - d| with errb (C01.R4 checks the value; here: the comparison uses the stored errb)
    return


def errb_dominates(errb):
    if not errb.is_poly():
        return False, 'not a polynomial in magnitudes'
    const = errb.num.get((), 0)
    if const <= 0:
        return False, 'no positive absolute term'
    if any(c <= 0 for c in errb.num.values()):
        return False, 'negative coefficient'
    need = {c: False for c in range(3)}
    for mono, coef in errb.num.items():
        names = []
        for aid, ex in mono:
            at = nf.atom_by_id(aid)
            if at.kind != 'app' or at.name != 'abs':
                return False, 'term over a non-magnitude %r' % (at,)
            arg = at.args[0]
            sa = I.single_atom(arg) if isinstance(arg, RF) else None
            if sa is None or sa.kind != 'sym':
                return False, 'magnitude of a compound expression %r: cancellation inside |.| defeats the bound' % (arg,)
            names.append(sa.name)
        for c in range(3):
            if sorted(names) == sorted(['n.' + AX[c], 'p.' + AX[c]]):
                need[c] = True
    missing = [AX[c] for c in range(3) if not need[c]]
    if missing:
        return False, 'no |n_c|*|p_c| term for axis %s' % ','.join(missing)
    return True, 'component-wise bound'


def r4(ctx, F, rule, sfx):
    sc = scen.build_scenario(F)
    cb = F.body(sc.clip_path)
    ip, selfref = c01.clip_scenario(F, cb)
    ex = [e for e in ip.events if e.callee and e.callee.endswith('geometry::in_sphere_test_exact')]
    if len(ex) != 1:
        raise AnalysisIncomplete('exact predicate calls in the clip routine: %d' % len(ex))
    e = ex[0]
    w = where(e.body, e.line)
    a = [repr(x) for x in e.fargs]
    il = 'call:voronoi::boundary::SimulationBoundary::iloc(boundary, '
    rlp = 'call:voronoi::half_space::HalfSpace::right_loc('
    ok0 = a[0] == il + 'cell.loc)'
    ctx.check(rule, 'first-point-is-generator' + sfx, ok0, a[0][-60:], 'iloc(self.loc)', w, key_extra='a')
    import re
    sig = []
    okmid = True
    vert = None
    for x in a[1:4]:
        m = re.match(re.escape(il) + re.escape(rlp) + r'cell\.clipping_planes\[(.*)\.dual\[(\d)\]\], cell\.idx, generators\)\)$', x)
        if not m:
            okmid = False
            break
        vert = m.group(1) if vert is None else vert
        okmid = okmid and m.group(1) == vert
        sig.append(int(m.group(2)))
    even = sig in ([0, 1, 2], [1, 2, 0], [2, 0, 1])
    ctx.check(rule, 'dual-points-in-orientation-preserving-order' + sfx, okmid and even, 'dual indices %s of one vertex' % sig if okmid else [x[-70:] for x in a[1:4]],
              'iloc(right_loc(planes[dual[s]])) for an even permutation s of (0,1,2), all of the vertex being tested', w, key_extra='perm:%s' % sig)
    ok4 = a[4] == il + rlp + 'newplane, cell.idx, generators))'
    ctx.check(rule, 'query-point-is-new-neighbour' + sfx, ok4, a[4][-70:], 'iloc(p.right_loc(self.idx, generators))', w, key_extra='v')
    # the neighbour points are the stored generator positions (+ shift): the same value in every cell that sees this
    # neighbour, which is what makes ties globally consistent (C03.R5)
    from . import c03
    c03.r5(ctx, F, rule, sfx)
    # the tested vertex is the one the float filter was applied to
    fl = [x for x in ip.events if x.callee and strip_generics(x.callee).endswith('HalfSpace::clip') and x.body is cb]
    if fl and vert is not None:
        ctx.check(rule, 'same-vertex-as-filter' + sfx, repr(fl[0].fargs[1]) == vert + '.loc', repr(fl[0].fargs[1])[-60:], vert[-50:] + '.loc', w, key_extra='same-vertex')


def r6(ctx, F, rule, sfx):
    from . import c01
    c01.r1(ctx, F, rule, sfx)


def r7(ctx, F, rule, sfx):
    from . import c01
    c01.r4(ctx, F, rule, sfx)
