"""Shared helpers for rule modules."""
import os
import re
from .. import interp as I, nf
from ..nf import RF, as_rf
from ..tables import c3, c4, dot3, cross3, deref
from ..facts import AnalysisIncomplete, strip_generics, calls, callee_name


def where(body, line=None):
    f = body['file']
    if f.startswith('/repo/'):
        f = f[len('/repo/'):]
    elif '/src/' in f:
        f = 'src/' + f.split('/src/', 1)[1]
    return '%s:%s (%s)' % (f, line if line is not None else body['line'], short_path(body['path']))


def short_path(p):
    return strip_generics(p)


def cases(v):
    """Flatten gated values: [(tuple_of_conditions, leaf)].  Scalar ite atoms and Ite objects."""
    parts = I.ite_parts(v) if isinstance(v, RF) else None
    if parts is not None:
        c, a, b = parts
        return [((c,) + cs, x) for cs, x in cases(a)] + [((I.b_not(c),) + cs, x) for cs, x in cases(b)]
    if isinstance(v, I.Ite):
        return [((v.c,) + cs, x) for cs, x in cases(v.a)] + [((I.b_not(v.c),) + cs, x) for cs, x in cases(v.b)]
    return [((), v)]


def vec_cases(v):
    """cases() for a DVec3 whose components are gated by the same conditions."""
    v = deref(v)
    if isinstance(v, I.Ite):
        return cases(v)
    if isinstance(v, I.St) and v.adt == 'glam::DVec3':
        cx = [cases(v.fields[k]) for k in 'xyz']
        if all(len(c) == 1 for c in cx):
            return [((), v)]
        # align by condition tuple
        keys = [tuple(x.key() for x in cs) for cs, _ in cx[0]]
        out = []
        for i, k in enumerate(keys):
            comp = []
            for c in cx:
                m = [leaf for cs, leaf in c if tuple(x.key() for x in cs) == k]
                if len(m) != 1:
                    # component not gated (same on all arms)
                    if len(c) == 1:
                        m = [c[0][1]]
                    else:
                        raise AnalysisIncomplete('vector components gated differently: %r' % (v,))
                comp.append(m[0])
            out.append((cx[0][i][0], I.vec3(*comp)))
        return out
    return [((), v)]


def sym_plane(ip, name):
    n = I.sym_vec3(name + '.n')
    p = I.sym_vec3(name + '.p')
    return I.St('geometry::Plane', 'Plane', {'n': n, 'p': p})


def vsub(a, b):
    return [a[i] - b[i] for i in range(3)]


def vadd(a, b):
    return [a[i] + b[i] for i in range(3)]


def vscale(a, s):
    return [a[i] * s for i in range(3)]


def is_zero_vec(v):
    return all(x.is_zero() for x in v)


def rf_eq(a, b):
    return as_rf(a) == as_rf(b)


def find_calls(body, pattern):
    import re
    rx = re.compile(pattern)
    return [(bl, t) for bl, t in calls(body) if rx.search(callee_name(t)) or rx.search(t.get('callee') or '')]


def split_cases(x, limit=6):
    """Case analysis on gated terms nested anywhere inside x: [(conditions, value without that gate)]."""
    out = [((), x)]
    for _ in range(limit):
        nxt = []
        changed = False
        for conds, v in out:
            its = [a for a in I.atoms_deep(v).values() if a.kind == 'app' and a.name == 'ite']
            if not its and isinstance(v, I.Ite):
                nxt.append((conds + (v.c,), v.a))
                nxt.append((conds + (I.b_not(v.c),), v.b))
                changed = True
                continue
            if not its:
                nxt.append((conds, v))
                continue
            a = its[0]
            c, p, q = a.args
            nxt.append((conds + (c,), I.subst(v, {a: p})))
            nxt.append((conds + (I.b_not(c),), I.subst(v, {a: q})))
            changed = True
        out = nxt
        if not changed:
            break
    return out


# --- streams and loops ---------------------------------------------------------------------------
def stream_chain(at):
    """Decompose reduce(adaptor(...(iter(src)))) into ([(name, extra args)], source), outermost first.
    Works on atoms/Syms produced for uninterpreted iterator adaptors (call:<path>(receiver, args...))."""
    chain = []
    cur = at
    if isinstance(cur, I.Ref):
        cur = I.read_lv(cur.lv)
    if isinstance(cur, nf.Atom) and cur.kind == 'app' and cur.name == 'unwrap':
        cur = cur.args[0]
    while True:
        if isinstance(cur, I.Sym):
            cur = cur.atom
        if isinstance(cur, I.Ref):
            cur = I.read_lv(cur.lv)
            continue
        if not isinstance(cur, nf.Atom) or cur.kind != 'app' or not (cur.name.startswith('call:') or cur.name.startswith('mut:')):
            break
        if cur.name.startswith('mut:'):
            # mut:<callee>(argpos, args...): the receiver after an opaque call mutated it
            nm = cur.name[len('mut:'):].rsplit('::', 1)[-1]
            chain.append(('mut:' + nm, ()))
            rest = [a for a in cur.args[1:] if not isinstance(a, (int, str))]
            if not rest:
                break
            cur = rest[0]
            continue
        nm = cur.name[len('call:'):].rsplit('::', 1)[-1]
        chain.append((nm, cur.args[1:] if len(cur.args) > 1 else ()))
        if not cur.args:
            break
        cur = cur.args[0]
    return chain, cur


def loop_record_of(ip, ev):
    """The loop record whose phi symbol is the receiver of the `next` call event `ev` -> (record, local index)."""
    k = I.vkey(ev.fargs[0])
    for L in ip.loops:
        if L['body'] is not ev.body:
            continue
        for i, p in enumerate(L['phi']):
            if p is None:
                continue
            try:
                if I.vkey(I.frozen(p)) == k and L['init'][i] is not None and I.vkey(I.frozen(L['init'][i])) != k:
                    return L, i
            except TypeError:
                continue
    raise AnalysisIncomplete('loop driving %s at line %s not identified' % (ev.callee, ev.line))


def loop_stream(ip, ev):
    """Adaptor chain and source of the stream a `for` loop iterates (ev = its Iterator::next event)."""
    L, i = loop_record_of(ip, ev)
    return stream_chain(I.frozen(L['init'][i]))


def event_block(e):
    """Index of the MIR basic block whose terminator produced call event `e` (None for inlined sub-events)."""
    for i, bl in enumerate(e.body['blocks']):
        if bl['term'] is e.term:
            return i
    return None


def loop_of_event(ip, e):
    """Innermost loop record of e.body that contains the block of call event `e`."""
    bi = event_block(e)
    best = None
    for L in ip.loops:
        if L['body'] is e.body and bi in L['blocks'] and (best is None or len(L['blocks']) < len(best['blocks'])):
            best = L
    return best


def call_sites_outside(F, target_path, owner, skip=('convex_cell_alternative', '::tests::')):
    """Call sites of `target_path` that are not in `owner` and not in an unexported helper all of whose own call sites
    are (transitively) in `owner` -> [(body, terminator)].  An extracted private helper of the owner is the owner."""
    from ..facts import calls, callee_name
    callers = {}
    for b in F.bodies:
        if any(x in b['path'] for x in skip):
            continue
        for bl, t in calls(b):
            callers.setdefault(callee_name(t), []).append((b, t))
    memo = {}

    def inside(b, depth=0):
        if b is owner:
            return True
        k = b['path']
        if k in memo:
            return memo[k]
        memo[k] = False
        cs = callers.get(k, [])
        ok = depth < 4 and b['kind'] in ('Fn', 'AssocFn') and not b.get('exported') and bool(cs) and all(inside(c, depth + 1) for c, _ in cs)
        memo[k] = ok
        return ok
    return [(b, t) for b, t in callers.get(target_path, []) if not inside(b)], len(callers.get(target_path, []))


def next_events(ip, body):
    return [e for e in ip.events if e.body is body and e.callee and e.callee.endswith('::next') and 'Iterator' in e.callee]


def bodies_assigning_field(F, field, exclude_kinds=('Closure',)):
    """Bodies with an assignment statement whose destination projects field `field` (not aggregates)."""
    out = []
    for b in F.bodies:
        if 'convex_cell_alternative' in b['path'] or b['path'].endswith('::clone'):
            continue
        hit = False
        for bl in b['blocks']:
            if bl['cleanup']:
                continue
            for s in bl['stmts']:
                if s['k'] == 'assign' and any(e['k'] == 'field' and e.get('n') == field for e in s['place']['p']):
                    hit = True
        if hit:
            out.append(b)
    return out


# --- slot-aligned stream items ---------------------------------------------------------------------
ELEMENTWISE = ('iter', 'iter_mut', 'into_iter', 'par_iter', 'par_iter_mut', 'into_par_iter', 'deref', 'deref_mut', 'as_ref', 'as_slice', 'as_mut_slice')


def stream_shape(v):
    """Shape of one item of an (uninterpreted) iterator value, as a tree:
       ('elem', <container repr>)      k-th element of a container, in order
       ('pos',)                        the position k itself (enumerate / ranges from 0)
       ('pair', A, B)                  tuple of two aligned items (zip, enumerate)
       ('unknown', why)
    All leaves of one shape refer to the same position k (order-preserving, unfiltered adaptors only)."""
    if isinstance(v, I.Ref):
        v = I.read_lv(v.lv)
    if isinstance(v, I.Sym):
        v = v.atom
    if isinstance(v, I.St) and v.adt.endswith('Range') and set(v.fields) >= {'start', 'end'}:
        st, en = v.fields['start'], v.fields['end']
        if isinstance(st, RF) and st.is_zero():
            at = I.single_atom(en) if isinstance(en, RF) else None
            if at is not None and at.kind == 'app' and at.name == 'len':
                return ('pos', 'len:' + repr(at.args[0]))
        return ('unknown', 'range %r' % (v,))
    if not isinstance(v, nf.Atom):
        return ('unknown', repr(v)[:60])
    if v.kind == 'app' and v.name.startswith('call:'):
        nm = v.name.rsplit('::', 1)[-1]
        recv = v.args[0] if v.args else None
        if nm in ELEMENTWISE:
            inner = stream_shape(recv)
            if inner[0] != 'unknown' or _is_stream(recv):
                return inner
            return ('elem', repr(recv))
        if nm == 'enumerate':
            return ('pair', ('pos', 'enumerate'), stream_shape(recv))
        if nm == 'zip':
            return ('pair', stream_shape(recv), stream_shape(v.args[1]))
        return ('unknown', 'adaptor %s' % nm)
    # a plain container (symbolic field path, phi symbol, ...)
    return ('elem', repr(v))


def _is_stream(v):
    if isinstance(v, I.Sym):
        v = v.atom
    return isinstance(v, nf.Atom) and v.kind == 'app' and v.name.startswith('call:') and v.name.rsplit('::', 1)[-1] in (
        'enumerate', 'zip', 'map', 'filter', 'filter_map', 'flatten', 'rev', 'skip', 'take', 'step_by', 'chain') or \
        (isinstance(v, I.St) and v.adt.endswith('Range'))


def _atom_of(value):
    if isinstance(value, I.Ref):
        value = I.read_lv(value.lv)
    if isinstance(value, RF):
        return I.single_atom(value)
    if isinstance(value, I.Sym):
        return value.atom
    if isinstance(value, nf.Atom):
        return value
    return None


def resolve_item(value, next_result, shape, prefix=('Some', '0')):
    """Resolve `value`, an expression inside a loop over a stream with item shape `shape`, to
    (leaf shape, remaining field names): ('elem', C) = the k-th element of container C, ('pos', ..) = k itself.
    Understands projections of the stream item and C[k] indexing with k the stream position.  None if unrelated."""
    at = _atom_of(value)
    root = _atom_of(I.frozen(next_result))
    if at is None or root is None:
        return None
    fields = []
    cur = at
    while True:
        if isinstance(cur, I.Sym):
            cur = cur.atom
        if not isinstance(cur, nf.Atom):
            return None
        if cur.id == root.id:
            break
        if cur.kind == 'app' and cur.name == 'field':
            f = cur.args[1].strip("'") if isinstance(cur.args[1], str) else str(cur.args[1])
            fields.append(f)
            cur = cur.args[0]
            continue
        if cur.kind == 'app' and cur.name == 'elem':
            r = resolve_item(cur.args[1], next_result, shape, prefix)
            if r is not None and r[0][0] == 'pos' and not r[1]:
                fields.reverse()
                out = []
                for f in fields:
                    out.extend(f.split('.'))
                return ('elem', repr(cur.args[0])), out
            return None
        return None
    fields.reverse()
    p = []
    for f in fields:
        p.extend(f.split('.'))
    if p[:len(prefix)] != list(prefix):
        return None
    p = p[len(prefix):]
    cur = shape
    while p and cur[0] == 'pair':
        if p[0] not in ('0', '1'):
            return None
        cur = cur[1 + int(p[0])]
        p = p[1:]
    return cur, p


# --- private layout of VoronoiFace, discovered through its public accessors ------------------------------------
_face_paths = {}


def face_paths(F):
    """Field path (list of names below a VoronoiFace value) read by each public accessor, obtained by abstractly
    evaluating the accessor on a symbolic face — so that rules do not depend on the names of private fields."""
    k = id(F)
    if k in _face_paths:
        return _face_paths[k]
    out = {}
    for nm in ('left', 'right', 'shift', 'normal', 'area', 'centroid'):
        b = F.body_by_suffix('VoronoiFace::' + nm)
        ip = I.Interp(F)
        face = I.Sym(nf.sym_atom('FACE'), 'voronoi::voronoi_face::VoronoiFace')
        v, _ = ip.call_body(b, [ip.ref_to(face)])
        t = repr(I.frozen(v)).replace(' ', '')
        if t.startswith('DVec3{x:FACE.') and t.endswith('.z}'):
            t = t[len('DVec3{x:'):].split(',y:')[0]
            t = t[:-2] if t.endswith('.x') else t
        if not t.startswith('FACE.'):
            raise AnalysisIncomplete('accessor VoronoiFace::%s does not read a field path: %s' % (nm, t[:80]), nm)
        out[nm] = t[len('FACE.'):].split('.')
    _face_paths[k] = out
    return out


def face_path_str(F, nm):
    return '.'.join(face_paths(F)[nm])


# --- element-wise stream semantics -----------------------------------------------------------------------
SOURCE_ADAPTORS = ('iter', 'into_iter', 'par_iter', 'into_par_iter', 'iter_mut', 'par_iter_mut')
ELEMENTWISE_FN = ('map', 'filter', 'filter_map', 'copied', 'cloned', 'inspect')


def opt_bind(v, fn):
    """Option-valued abstract value >>= fn (fn: payload -> Option-valued abstract value)."""
    if isinstance(v, I.Ite):
        return I.ite(v.c, opt_bind(v.a, fn), opt_bind(v.b, fn))
    if isinstance(v, I.St) and v.variant == 'Some':
        return fn(v.fields[0])
    if isinstance(v, I.St) and v.variant == 'None':
        return I.NONE
    raise AnalysisIncomplete('element of a stream is not a determined Option: %r' % (v,))


def stream_element(ip, chain, elem):
    """What a chain of element-wise adaptors (as returned by stream_chain, outermost first) yields for ONE element `elem` of
    the source: Some(result) or None (filtered out), as an abstract Option.  -> (value, index of the source adaptor in chain)"""
    from ..tables import call_fn_value
    src = None
    for i, (name, args) in enumerate(chain):
        if name in SOURCE_ADAPTORS:
            src = i
            break
    if src is None:
        raise AnalysisIncomplete('stream has no recognised source: %s' % [n for n, _ in chain])
    val = I.some(elem)
    for name, args in reversed(chain[:src]):
        if name in ('copied', 'cloned'):
            val = opt_bind(val, lambda x: I.some(I.read_lv(x.lv) if isinstance(x, I.Ref) else x))
        elif name == 'inspect':
            continue
        elif name == 'map':
            val = opt_bind(val, lambda x, f=args[0]: I.some(call_fn_value(ip, f, [x], '?')))
        elif name == 'filter_map':
            val = opt_bind(val, lambda x, f=args[0]: call_fn_value(ip, f, [x], '?'))
        elif name == 'filter':
            def keep(x, f=args[0]):
                c = call_fn_value(ip, f, [ip.ref_to(x)], 'bool')
                if not isinstance(c, I.B):
                    raise AnalysisIncomplete('filter predicate is not a condition: %r' % (c,))
                return I.ite(c, I.some(x), I.NONE)
            val = opt_bind(val, keep)
        else:
            raise AnalysisIncomplete('adaptor %s is not element-wise' % name)
    return val, src


_fresh = [0]


def expand_stream(ip, v, depth=0):
    """One generic element of a stream built from integer ranges by element-wise adaptors and flat_map:
    -> (item value, [conditions under which it is yielded], [(element symbol, text of the range it runs over)]).
    The closures are evaluated on fresh element symbols (events are recorded in ip.events as usual)."""
    from ..tables import call_fn_value, opt_is_some, opt_payload
    if depth > 6:
        raise AnalysisIncomplete('stream nesting too deep')
    fv = I.frozen(v)
    ch, src = stream_chain(fv)
    names = [n for n, _ in ch]
    guards, sources = [], []
    # source: a range
    item = None
    rest = list(ch)
    if names and names[-1] == 'new' and 'RangeInclusive' in repr(fv):
        lo, hi = src, ch[-1][1][0]
        _fresh[0] += 1
        item = RF.sym('elem%d' % _fresh[0])
        sources.append((item, 'RangeInclusive::new(%r, %r)' % (as_rf(lo), as_rf(hi))))
        rest = ch[:-1]
    elif isinstance(src, I.St) and str(src.adt).endswith('ops::Range') and set(src.fields) >= {'start', 'end'}:
        _fresh[0] += 1
        item = RF.sym('elem%d' % _fresh[0])
        sources.append((item, 'Range{start: %r, end: %r}' % (as_rf(src.fields['start']), as_rf(src.fields['end']))))
    else:
        raise AnalysisIncomplete('stream source is not an integer range: %s' % repr(src)[:80])
    for name, args in reversed(rest):
        if name in ('into_iter', 'collect', 'by_ref'):
            continue
        if name == 'map':
            item = call_fn_value(ip, args[0], [item], '?')
        elif name == 'filter':
            c = call_fn_value(ip, args[0], [ip.ref_to(item)], 'bool')
            if not isinstance(c, I.B):
                raise AnalysisIncomplete('filter predicate is not a condition: %r' % (c,))
            guards.append(c)
        elif name == 'filter_map':
            r = call_fn_value(ip, args[0], [item], '?')
            guards.append(opt_is_some(r))
            item = opt_payload(r, '?')
        elif name in ('flat_map', 'flat_map_iter'):
            inner = call_fn_value(ip, args[0], [item], '?')
            item, g2, s2 = expand_stream(ip, inner, depth + 1)
            guards.extend(g2)
            sources.extend(s2)
        else:
            raise AnalysisIncomplete('adaptor %s is not modelled for range streams' % name)
    return item, guards, sources


def private_helpers_of(F, root, skip=('convex_cell_alternative', '::tests::')):
    """Crate-local, non-exported functions that are called (transitively) from `root` and from nowhere else: extracted pieces of
    `root` (a macro turned into a function, a loop body turned into a helper).  -> {path: number of call sites from root's cone}"""
    from ..facts import calls, callee_name
    callers = {}
    for b in F.bodies:
        if any(x in b['path'] for x in skip):
            continue
        owner = b['path'].split('::{closure')[0]
        for bl, t in calls(b):
            c = callee_name(t)
            if c in F.by_path:
                callers.setdefault(c, []).append(owner)
    cone = {root['path']: 1}
    changed = True
    while changed:
        changed = False
        for c, who in callers.items():
            if c in cone or any(x in c for x in skip):
                continue
            b = F.by_path[c][0]
            if b.get('exported') or b.get('kind') == 'Closure':
                continue
            if who and all(w in cone for w in who):
                cone[c] = len(who)
                changed = True
    del cone[root['path']]
    return cone


# --- accumulator structs by leaf name (layout independent: a struct may embed another accumulator) -------------------------
LEAF_SYMS = {'area': 'S', 'centroid': 'C', 'normal': 'N', 'volume': 'W'}


def deep_fields(F, st, depth=0):
    """Leaf field names of an accumulator struct, looking through fields that are themselves crate-local structs."""
    a = F.adt(st, required=False)
    if not a or depth > 3:
        return []
    out = []
    for f in a['variants'][0]['fields']:
        inner = F.adt(strip_generics(f['ty']), required=False)
        if inner is not None and inner.get('kind') == 'Struct' and not f['ty'].startswith('glam::'):
            out.extend(deep_fields(F, strip_generics(f['ty']), depth + 1))
        else:
            out.append(f['name'])
    return out


def deep_sym(F, st, depth=0):
    """Symbolic instance of an accumulator struct: leaves named area/centroid/normal/volume become the symbols S/C/N/W."""
    a = F.adt(st, required=False)
    if not a:
        raise AnalysisIncomplete('accumulator type %s not found' % st)
    fs = {}
    for f in a['variants'][0]['fields']:
        inner = F.adt(strip_generics(f['ty']), required=False)
        if inner is not None and inner.get('kind') == 'Struct' and not f['ty'].startswith('glam::') and depth < 3:
            fs[f['name']] = deep_sym(F, strip_generics(f['ty']), depth + 1)
        elif f['name'] in LEAF_SYMS:
            sym = LEAF_SYMS[f['name']]
            fs[f['name']] = I.sym_vec3(sym) if 'DVec3' in f['ty'] else RF.sym(sym)
        else:
            fs[f['name']] = I.mk_sym(nf.sym_atom('acc.' + f['name']), f['ty'])
    return I.St(st, st.split('::')[-1], fs)


def dget(v, name):
    """Field `name` of v, or of the unique embedded struct that has it."""
    if isinstance(v, I.Ref):
        v = I.read_lv(v.lv)
    if isinstance(v, I.St):
        if name in v.fields:
            return v.fields[name]
        hits = []
        for x in v.fields.values():
            if isinstance(x, (I.St, I.Ref)):
                try:
                    hits.append(dget(x, name))
                except (KeyError, AnalysisIncomplete):
                    pass
        if len(hits) == 1:
            return hits[0]
    return I.get_field(v, name)


# --- trivial public accessors -------------------------------------------------------------------------------
def accessor_consistency(ctx, F, rule, sfx, type_suffix, names, alias=None):
    """Every public method `name(&self)` of the type returns the (possibly nested) field of the same name: what users observe through the
    accessor is the value the construction rules talk about.  alias: {method name: field name} for accessors named differently."""
    alias = alias or {}
    cnt = 0
    for nm in names:
        cands = [b for b in F.bodies if strip_generics(b['path']).endswith('%s::%s' % (type_suffix, nm)) and b.get('kind') != 'Closure' and 'convex_cell_alternative' not in b['path']]
        if len(cands) != 1:
            ctx.incomplete(rule, 'accessor:%s::%s%s' % (type_suffix.split('::')[-1], nm, sfx), 'accessor not found (%d candidates)' % len(cands))
            continue
        b = cands[0]
        if b.get('arg_count') != 1:
            continue
        ip = I.Interp(F)
        self_ty = b['locals'][1]['ty']
        base = self_ty.lstrip('&').strip()
        me = I.Sym(nf.sym_atom('self'), base)
        v, _ = ip.call_body(b, [ip.ref_to(me, self_ty)])
        ctx.evaluations += ip.evaluations
        txt = repr(I.frozen(v)).replace(' ', '')
        want = alias.get(nm, nm)
        # the returned value is the field `want` of self, possibly through embedded structs, as a whole (DVec3 prints component-wise)
        m = re.match(r'^self((?:\.[A-Za-z_0-9]+)*)\.%s$' % re.escape(want), txt)
        if not m:
            m = re.match(r'^DVec3\{x:self((?:\.[A-Za-z_0-9]+)*)\.%s\.x,y:self\1\.%s\.y,z:self\1\.%s\.z\}$' % (re.escape(want), re.escape(want), re.escape(want)), txt)
        cnt += 1
        ctx.check(rule, 'accessor:%s::%s%s' % (type_suffix.split('::')[-1], nm, sfx), bool(m), txt[:100], 'self.<..>.%s' % want, where(b), key_extra='accessor:%s' % nm)
    return cnt


def integrals_start_from_zero(ctx, F, rule, sfx, trait):
    """init() of every built-in integral of `trait` yields zero accumulators (area / volume / centroid); a non-zero start is added to every cell / face."""
    n = 0
    for imp in F.impls_of_trait(trait):
        st = imp['self']
        ib = F.body('<%s as %s>::init' % (st, trait), required=False)
        if ib is None:
            continue
        leaves = [x for x in deep_fields(F, st) if x in ('area', 'volume', 'centroid')]
        if not leaves:
            continue
        ip = I.Interp(F)
        cell = I.Sym(nf.sym_atom('cell'), 'voronoi::convex_cell::ConvexCell<M>')
        args = [ip.ref_to(cell)] + [RF.sym('k')] * (ib.get('arg_count', 1) - 1)
        v, _ = ip.call_body(ib, args)
        ctx.evaluations += ip.evaluations
        bad = []
        for lf in leaves:
            x = dget(v, lf)
            if isinstance(x, RF):
                z = x.is_zero()
            else:
                from ..tables import c3
                z = all(as_rf(c).is_zero() for c in c3(x))
            if not z:
                bad.append('%s = %s' % (lf, repr(x)[:40]))
        n += 1
        ctx.check(rule, '%s:starts-from-zero%s' % (st.split('::')[-1], sfx), not bad, bad or 'all accumulators zero', 'init() == zero accumulators', where(ib), key_extra='init-zero')
        # the exported argument-less constructor of the same accumulator (`AreaCentroidIntegral::init()`), where there is one
        for pth, bs in F.by_path.items():
            b0 = bs[0]
            if b0.get('arg_count') == 0 and b0.get('exported') and strip_generics(pth) in (st + '::init', st + '::new', st + '::zero') :
                ip2 = I.Interp(F)
                v2, _ = ip2.call_body(b0, [])
                ctx.evaluations += ip2.evaluations
                bad2 = []
                for lf in leaves:
                    x = dget(v2, lf)
                    if isinstance(x, RF):
                        z = x.is_zero()
                    else:
                        from ..tables import c3
                        z = all(as_rf(c).is_zero() for c in c3(x))
                    if not z:
                        bad2.append('%s = %s' % (lf, repr(x)[:40]))
                ctx.check(rule, '%s:public-constructor-starts-from-zero%s' % (st.split('::')[-1], sfx), not bad2, bad2 or 'all accumulators zero', '%s() == zero accumulators' % strip_generics(pth).split('::')[-1], where(b0), key_extra='ctor-zero')
    return n


def wrappers_forward(ctx, F, rule, sfx):
    """The face records wrap the user's / built-in integral: FaceIntegrator::collect hands (v0, v1, v2, generator) to the integral unchanged and
    in order, exactly once; finalize replaces the integral by its finalized value and leaves left/right/shift alone; VoronoiFace does the same
    through its inner record.  (A swapped pair of base points flips the orientation sign of every triangle; a dropped finalize leaves
    un-normalised centroids.)"""
    pts = ['DVec3{x: %s.x, y: %s.y, z: %s.z}' % (n, n, n) for n in ('v0', 'v1', 'v2', 'g')]
    for nm in ('integrals::FaceIntegrator::collect', 'voronoi_face::VoronoiFace::collect'):
        b = F.body_by_suffix(nm)
        ip = I.Interp(F, no_inline=[x['path'] for x in F.bodies if x['path'].endswith(('FaceIntegral>::collect', 'FaceIntegral>::finalize'))])
        ty = b['locals'][1]['ty']
        me = I.Sym(nf.sym_atom('fi'), ty.lstrip('&').replace('mut ', '').strip())
        r = ip.ref_to(me, ty, mut=True)
        ip.call_body(b, [r] + [I.sym_vec3(x) for x in ('v0', 'v1', 'v2', 'g')])
        ctx.evaluations += ip.evaluations
        ev = [e for e in ip.events if e.callee and e.callee.endswith('FaceIntegral::collect')]
        ok = len(ev) == 1 and repr(ev[0].fargs[0]).startswith('fi.') and repr(ev[0].fargs[0]).endswith('integral') and [repr(a) for a in ev[0].fargs[1:]] == pts and not ev[0].guard
        short_nm = nm.split('::', 1)[1]
        ctx.check(rule, 'forwards-triangle:%s%s' % (short_nm, sfx), ok, [repr(a)[-22:] for a in ev[0].fargs] if ev else 'no call of the integral\'s collect', 'integral.collect(v0, v1, v2, gen), once, unconditionally', where(b), key_extra='fwd-collect')
    for nm in ('integrals::FaceIntegrator::finalize', 'voronoi_face::VoronoiFace::finalize'):
        b = F.body_by_suffix(nm)
        ip = I.Interp(F, no_inline=[x['path'] for x in F.bodies if x['path'].endswith(('FaceIntegral>::collect', 'FaceIntegral>::finalize'))])
        ty = b['locals'][1]['ty']
        me = I.Sym(nf.sym_atom('fi'), ty.lstrip('&').replace('mut ', '').strip())
        v, _ = ip.call_body(b, [ip.ref_to(me, ty, mut=True) if ty.startswith('&') else me])
        ctx.evaluations += ip.evaluations
        # field by field: integral = finalize(old integral), every other field the old one
        fin = 'call:voronoi::integrals::FaceIntegral::finalize(%s)'

        def same_but_integral(new, old, adt_path, depth=0):
            a = F.adt(adt_path.split('<')[0], required=False)
            if a is None or depth > 2:
                return ['%s: unknown record' % adt_path]
            bad = []
            for f in a['variants'][0]['fields']:
                try:
                    got = I.frozen(I.get_field(new, f['name']))
                except Exception:
                    bad.append('%s unreadable' % f['name'])
                    continue
                exp = '%s.%s' % (old, f['name'])
                inner = F.adt(f['ty'].split('<')[0], required=False)
                if f['name'] == 'integral':
                    if repr(got).replace(' ', '') != fin % exp:
                        bad.append('integral = %s' % repr(got)[:80])
                elif inner is not None and inner.get('kind') == 'Struct' and any(g['name'] == 'integral' for g in inner['variants'][0]['fields']):
                    bad += same_but_integral(got, exp, f['ty'], depth + 1)
                elif repr(got).replace(' ', '') != exp:
                    bad.append('%s = %s' % (f['name'], repr(got)[:80]))
            return bad
        txt = repr(I.frozen(v)).replace(' ', '')
        rty = ty.lstrip('&').replace('mut ', '').strip()
        diffs = same_but_integral(v, 'fi', rty)
        ok = not diffs
        if diffs:
            txt = '; '.join(diffs)[:200]
        short_nm = nm.split('::', 1)[1]
        ctx.check(rule, 'finalizes-integral-only:%s%s' % (short_nm, sfx), ok, txt[:160], 'the same record with integral = integral.finalize()', where(b), key_extra='fwd-finalize')


def cell_record_constructor(ctx, F, rule, sfx):
    """VoronoiCell::init stores each argument in the field of the same meaning (read back through the public accessors)."""
    b = F.body_by_suffix('voronoi_cell::VoronoiCell::init')
    n = b.get('arg_count', 0)
    names = [d.get('name') for d in b.get('debug', []) if d.get('arg')] if b.get('debug') else []
    ip = I.Interp(F)
    args = []
    syms = []
    for i in range(1, n + 1):
        ty = b['locals'][i]['ty']
        nm = 'a%d' % i
        syms.append((nm, ty))
        args.append(I.sym_vec3(nm) if 'DVec3' in ty else RF.sym(nm))
    v, _ = ip.call_body(b, args)
    ctx.evaluations += ip.evaluations
    # roles of the arguments by type and by what from_convex_cell passes (checked by C13.R3): (loc, centroid, volume, safety_radius, idx)
    vecs = [nm for nm, ty in syms if 'DVec3' in ty]
    f64s = [nm for nm, ty in syms if ty == 'f64']
    ints = [nm for nm, ty in syms if ty == 'usize']
    if len(vecs) != 2 or len(f64s) != 2 or len(ints) != 1:
        raise AnalysisIncomplete('VoronoiCell::init has an unexpected signature: %s' % [t for _n, t in syms])
    want = {'loc': vecs[0], 'centroid': vecs[1], 'volume': f64s[0], 'safety_radius': f64s[1]}
    bad = []
    for acc, sym in want.items():
        ab = F.body_by_suffix('voronoi_cell::VoronoiCell::' + acc)
        got, _ = ip.call_body(ab, [ip.ref_to(v)])
        g = repr(I.frozen(got)).replace(' ', '')
        w_ = sym if sym in f64s else 'DVec3{x:%s.x,y:%s.y,z:%s.z}' % (sym, sym, sym)
        if g != w_:
            bad.append('%s() = %s' % (acc, g[:50]))
    gi = repr(I.frozen(I.get_field(v, 'idx')))
    if gi != ints[0]:
        bad.append('idx = %s' % gi)
    ctx.check(rule, 'cell-record-fields%s' % sfx, not bad, bad or 'loc, centroid, volume, safety_radius, idx stored as given', 'VoronoiCell::init(loc, centroid, volume, safety_radius, idx) stores argument k in field k', where(b), key_extra='cell-init')


def early_exits(ip, marker='ConvexCellDecomposition', body=None):
    """Exits of the loops over an iterator (the one whose `next` mentions `marker`; any, when marker is None), taken WITH an item in hand (a `break`
    / `return` inside the loop body): -> list of texts of the conditions.  A loop that is left only when its own `next()` is None gives [].
    The loop's own stream is the `next()` that is Some on every back edge (`loop { .. }` has none and is skipped: its exits are its own business)."""
    import itertools
    from .. import dtab
    out = []

    def next_leaf(leaf):
        d = dtab.is_discr_eq(leaf)
        if d is not None and (marker is None or marker in repr(d[0])) and '::next(' in repr(d[0]):
            return repr(d[0]), (d[1] == 1) == d[2]
        return None
    for L in ip.loops:
        exits = L.get('exits') or []
        if body is not None and L.get('body') is not body:
            continue
        own = None
        for g, _v in L.get('back') or []:
            some = set()
            for c in g:
                if c.op in ('cmp', 'atom'):          # a top-level conjunct
                    nl = next_leaf(c)
                    if nl is not None and nl[1]:
                        some.add(nl[0])
            own = some if own is None else own & some
        if not own:
            continue

        def val(leaf):
            nl = next_leaf(leaf)
            if nl is not None and nl[0] in own:
                return nl[1]
            return None
        def conjuncts(c):
            if c.op == 'and':
                return conjuncts(c.args[0]) + conjuncts(c.args[1])
            return [c]
        for _sk, g in exits:
            cs = [x for c in g for x in conjuncts(c)]
            # legitimate: the exit is taken under "own next() is None" (a top-level conjunct); anything else leaves the loop with an item in hand
            if any(val(c) is False for c in cs):
                continue
            # the `unreachable` arm of the match on the Option (neither None nor Some) is no exit
            excl = {}
            for c in cs:
                d = dtab.is_discr_eq(c)
                if d is not None and not d[2]:
                    excl.setdefault(repr(d[0]), set()).add(d[1])
                elif c.op == 'cmp' and c.args[0] == '!=':
                    # the discriminant of a conditionally built Option (a gated scalar, not a single `discr` atom)
                    for x_, y_ in ((c.args[1], c.args[2]), (c.args[2], c.args[1])):
                        if isinstance(y_, RF) and y_.is_const() and isinstance(x_, RF) and 'discr(' in repr(x_):
                            excl.setdefault(repr(x_), set()).add(int(y_.const_value()))
            if any({0, 1} <= v_ for v_ in excl.values()):
                continue
            out.append(' and '.join(repr(c)[-90:] for c in cs if val(c) is None)[:240] or 'unconditionally')
    return out


def foreign_conditions(ip, allowed, bodies=None):
    """Conditions (leaves of event guards, loop back edges and loop exits) that consult an uninterpreted call outside `allowed` (regex on the call's
    name): the decisions of the evaluated code depend on nothing but the quantities the rule knows about.  -> sorted texts."""
    import re as _re
    from .. import dtab
    rx = _re.compile(allowed)
    leaves = {}
    for e in ip.events:
        if bodies is None or e.body in bodies:
            for g in e.guard:
                dtab.b_leaves(g, leaves)
    for L in ip.loops:
        if bodies is None or L.get('body') in bodies:
            for g, _v in L.get('back') or []:
                for c in g:
                    dtab.b_leaves(c, leaves)
                # a conditional update without any call (`if c { r += 1 }`) shows only in the value carried round the loop
                for x_ in (_v or {}).values():
                    try:
                        dtab.b_leaves(x_, leaves)
                    except (TypeError, AnalysisIncomplete):
                        pass
            for _sk, g in L.get('exits') or []:
                for c in g:
                    dtab.b_leaves(c, leaves)
    out = set()
    for lf in leaves.values():
        for a in I.atoms_deep(lf).values():
            if a.kind == 'app' and str(a.name).startswith(('call:', 'mut:')) and not rx.search(str(a.name)):
                out.add(str(a.name)[:90])
    return sorted(out)
