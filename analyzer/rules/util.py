"""Shared helpers for rule modules."""
import os
from .. import interp as I, nf
from ..nf import RF, as_rf
from ..tables import c3, c4, dot3, cross3, deref
from ..facts import AnalysisIncomplete, strip_generics, calls, callee_name


def where(body, line=None):
    f = body['file']
    if f.startswith('/repo/'):
        f = f[len('/repo/'):]
    elif '/src/' in f:
        f = 'src/' + f.split('/src/', 1)[1]
    return '%s:%s (%s)' % (f, line if line is not None else body['line'], short_path(body['path']))


def short_path(p):
    return strip_generics(p)


def cases(v):
    """Flatten gated values: [(tuple_of_conditions, leaf)].  Scalar ite atoms and Ite objects."""
    parts = I.ite_parts(v) if isinstance(v, RF) else None
    if parts is not None:
        c, a, b = parts
        return [((c,) + cs, x) for cs, x in cases(a)] + [((I.b_not(c),) + cs, x) for cs, x in cases(b)]
    if isinstance(v, I.Ite):
        return [((v.c,) + cs, x) for cs, x in cases(v.a)] + [((I.b_not(v.c),) + cs, x) for cs, x in cases(v.b)]
    return [((), v)]


def vec_cases(v):
    """cases() for a DVec3 whose components are gated by the same conditions."""
    v = deref(v)
    if isinstance(v, I.Ite):
        return cases(v)
    if isinstance(v, I.St) and v.adt == 'glam::DVec3':
        cx = [cases(v.fields[k]) for k in 'xyz']
        if all(len(c) == 1 for c in cx):
            return [((), v)]
        # align by condition tuple
        keys = [tuple(x.key() for x in cs) for cs, _ in cx[0]]
        out = []
        for i, k in enumerate(keys):
            comp = []
            for c in cx:
                m = [leaf for cs, leaf in c if tuple(x.key() for x in cs) == k]
                if len(m) != 1:
                    # component not gated (same on all arms)
                    if len(c) == 1:
                        m = [c[0][1]]
                    else:
                        raise AnalysisIncomplete('vector components gated differently: %r' % (v,))
                comp.append(m[0])
            out.append((cx[0][i][0], I.vec3(*comp)))
        return out
    return [((), v)]


def sym_plane(ip, name):
    n = I.sym_vec3(name + '.n')
    p = I.sym_vec3(name + '.p')
    return I.St('geometry::Plane', 'Plane', {'n': n, 'p': p})


def vsub(a, b):
    return [a[i] - b[i] for i in range(3)]


def vadd(a, b):
    return [a[i] + b[i] for i in range(3)]


def vscale(a, s):
    return [a[i] * s for i in range(3)]


def is_zero_vec(v):
    return all(x.is_zero() for x in v)


def rf_eq(a, b):
    return as_rf(a) == as_rf(b)


def find_calls(body, pattern):
    import re
    rx = re.compile(pattern)
    return [(bl, t) for bl, t in calls(body) if rx.search(callee_name(t)) or rx.search(t.get('callee') or '')]


def split_cases(x, limit=6):
    """Case analysis on gated terms nested anywhere inside x: [(conditions, value without that gate)]."""
    out = [((), x)]
    for _ in range(limit):
        nxt = []
        changed = False
        for conds, v in out:
            its = [a for a in I.atoms_deep(v).values() if a.kind == 'app' and a.name == 'ite']
            if not its and isinstance(v, I.Ite):
                nxt.append((conds + (v.c,), v.a))
                nxt.append((conds + (I.b_not(v.c),), v.b))
                changed = True
                continue
            if not its:
                nxt.append((conds, v))
                continue
            a = its[0]
            c, p, q = a.args
            nxt.append((conds + (c,), I.subst(v, {a: p})))
            nxt.append((conds + (I.b_not(c),), I.subst(v, {a: q})))
            changed = True
        out = nxt
        if not changed:
            break
    return out
