"""C12 — cell-face connectivity is a consistent index structure."""
from .. import interp as I, nf, dtab
from ..nf import RF, as_rf
from ..facts import AnalysisIncomplete, strip_generics, calls, callee_name
from ..cfg import CFG
from .util import *

META = {
    'level': 'other',
    'configs': {'quick': ['default'], 'thorough': ['default', 'norayon', 'default_nodebug']},
    'rules': {
        'R1': 'link table: in the linking loop over ALL stored faces (enumerated in order) face i is pushed to the list of its left cell always, '
              'to the list of `right` iff right is Some and shift is None, and to no other list',
        'R2': 'prefix sums: cell k receives (offset_k, len(list_k)) with offset_0 = 0 and offset_{k+1} = offset_k + len(list_k) over ALL cells in index '
              'order; the connection array is the order-preserving concatenation of the per-cell lists; one list per cell',
        'R3': 'own index: every VoronoiCell stored at slot k of the tessellation has idx == k (also cells that were not constructed)',
        'R4': 'neighbour table: neighbour_ids skips a face iff it is periodic or a boundary face and otherwise yields `right` if left == self.idx else `left`',
        'R5': 'face_indices == connections[offset .. offset+count]; faces() maps those indices into the face list',
    },
    'explanation': 'Decides the index bookkeeping of the statement for all inputs: the linking decision as an exhaustive truth table over '
                   '(right is Some, shift is None) (R1), the offset recurrence and concatenation order (R2), own-index provenance (R3), the '
                   'neighbour selection table (R4) and the slice accessors (R5). "Without duplicates" for neighbour_ids additionally needs that '
                   'two cells share at most one unshifted face, which is a geometric fact (C01/C03) and is not decided here.',
    'trusted_base': ['std Vec/iterator semantics: enumerate yields (position, element) in order; into_iter().flatten().collect() concatenates in order; '
                     'Vec::push appends', 'E0 extractor'],
    'assumptions': ['C03.R1 (at most one stored face per unshifted pair)'],
}


def finalize_body(F):
    bs = [b for b in bodies_assigning_field(F, 'cell_face_connections') if b['kind'] != 'Closure']
    if len(bs) != 1:
        raise AnalysisIncomplete('bodies assigning the cell_face_connections field: %d' % len(bs), 'cell_face_connections')
    return bs[0]


_cache = {}


def finalize_scenario(F):
    key = id(F)
    if key in _cache:
        return _cache[key]
    b = finalize_body(F)
    ip = I.Interp(F, no_inline=[x['path'] for x in F.bodies if strip_generics(x['path']).endswith('VoronoiCell::finalize')])
    me = I.Sym(nf.sym_atom('self'), 'voronoi::Voronoi')
    v, rets = ip.call_body(b, [me])
    _cache[key] = (b, ip, v)
    return _cache[key]


def run(ctx):
    for cfg in ctx.configs_used:
        F = ctx.facts(cfg)
        sfx = '' if cfg == 'default' else '@' + cfg
        for fn in (r1, r2, r3, r4, r5):
            rule = 'C12.' + fn.__name__.upper()
            ctx.guarded(rule, 'evaluate' + sfx, lambda: fn(ctx, F, rule, sfx))


def shape_leaves(sh, acc=None):
    acc = [] if acc is None else acc
    if sh[0] == 'pair':
        shape_leaves(sh[1], acc)
        shape_leaves(sh[2], acc)
    else:
        acc.append(sh)
    return acc


def covers_all(sh, container):
    """The stream visits every slot of `container` exactly once, in order: an element stream over it (zip partners may
    only shorten the stream if they are shorter, so every partner must be the container itself, a position counter,
    or a container with one entry per slot — the caller states which)."""
    leaves = shape_leaves(sh)
    return any(l == ('elem', container) or l == ('pos', 'len:' + container) for l in leaves) and not any(l[0] == 'unknown' for l in leaves)


def link_analysis(ctx, F, rule, sfx, prop='C12'):
    """Shared with C03.R3."""
    b, ip, ret = finalize_scenario(F)
    ctx.evaluations += ip.evaluations
    nexts = next_events(ip, b)
    pushes = [e for e in ip.events if e.body is b and e.callee and e.callee.endswith('Vec::<T, A>::push')]
    if not pushes:
        raise AnalysisIncomplete('no Vec::push in the linking function %s' % b['path'])
    L = None
    for rec in ip.loops:
        if rec['body'] is b and all(blk_of(b, e) in rec['blocks'] for e in pushes):
            L = rec
    if L is None:
        raise AnalysisIncomplete('push sites are not inside one loop')
    nx = [e for e in nexts if blk_of(b, e) in L['blocks']]
    if len(nx) != 1:
        raise AnalysisIncomplete('linking loop has %d stream reads' % len(nx))
    rec, li = loop_record_of(ip, nx[0])
    sh = stream_shape(I.frozen(rec['init'][li]))
    w = where(b, nx[0].line)
    leaves = shape_leaves(sh)
    ok_stream = covers_all(sh, 'self.faces') and all(l[0] == 'pos' or l == ('elem', 'self.faces') for l in leaves)
    ctx.check(rule, 'loop-over-all-faces' + sfx, ok_stream, 'item shape %s' % (sh,), 'every stored face of self.faces with its position, in order', w, key_extra='stream')
    item = nx[0].result
    itat = I.frozen(item).atom if isinstance(I.frozen(item), I.Sym) else None
    face_txt = {}

    def classify(leaf):
        d = dtab.is_discr_eq(leaf)
        if d is not None and itat is not None and isinstance(d[0], nf.Atom) and d[0].id == itat.id:
            return ('const', (d[1] == 1) == d[2])      # inside the loop body the item is Some
        fp = face_paths(F)
        for nm, fld, pol in (('RS', 'right', True), ('SN', 'shift', False)):
            x = dtab.is_some_leaf(leaf)
            dd = dtab.is_discr_eq(leaf)
            cand = x if x is not None else (dd[0] if dd is not None else None)
            if cand is None:
                continue
            r = resolve_item(cand, item, sh)
            if r is not None and r[0] == ('elem', 'self.faces') and r[1] == fp[fld]:
                some = True if x is not None else ((dd[1] == 1) == dd[2])
                return (nm, some == pol)
        # a comparison of the face's two cell indices: a free atom — the required table does not depend on it, so any
        # dependence of the linking on it is reported row by row (right < left happens whenever the left cell's lower-index
        # neighbour was not constructed)
        if leaf.op == 'cmp' and leaf.args[0] in ('<', '<=', '>', '>=', '==', '!='):
            ra = resolve_item(leaf.args[1], item, sh)
            rb = resolve_item(leaf.args[2], item, sh)
            if ra is not None and rb is not None and ra[0] == rb[0] == ('elem', 'self.faces'):
                sides = {tuple(ra[1]): 'a', tuple(rb[1]): 'b'}
                L_, R_ = tuple(fp['left']), tuple(fp['right'] + ['Some', '0'])
                if set(sides) == {L_, R_}:
                    used_free.append(leaf)
                    op = leaf.args[0]
                    left_first = sides[L_] == 'a'
                    if op in ('==', '!='):
                        return ('EQ', op == '==')
                    # normalise to "right > left"
                    gt = {'<': left_first, '>': not left_first, '<=': left_first, '>=': not left_first}[op]
                    return ('GT', gt)
        return None
    used_free = []
    T = dtab.Table(['RS', 'SN', 'GT', 'EQ'], classify, constraint=lambda env: not (env['GT'] and env['EQ']))
    counts = {}
    for e in pushes:
        recv = e.args[0]
        if not isinstance(recv, I.Ref) or not recv.lv.path or recv.lv.path[-1][0] != 'i':
            raise AnalysisIncomplete('push target is not an indexed list: %s' % repr(e.fargs[0])[:80])
        r = resolve_item(recv.lv.path[-1][1], item, sh)
        fp = face_paths(F)
        if r is not None and r[0] == ('elem', 'self.faces') and r[1] == fp['left']:
            kind = 'left'
        elif r is not None and r[0] == ('elem', 'self.faces') and r[1] == fp['right'] + ['Some', '0']:
            kind = 'right'
        else:
            kind = 'other:' + repr(recv.lv.path[-1][1])[-50:]
        pr = resolve_item(e.fargs[1], item, sh)
        ctx.check(rule, 'pushed-value-is-face-position:%s%s' % (kind, sfx), pr is not None and pr[0][0] == 'pos' and not pr[1], repr(e.fargs[1])[-80:], 'the face\'s position in the face list', where(b, e.line), key_extra='pushed')
        tab = T.tabulate(I.TRUE, e.guard)
        for row, v in tab.items():
            counts.setdefault(kind, {}).setdefault(row, 0)
            if v is not None:
                counts[kind][row] += 1
    for kind in sorted(set(counts) | {'left', 'right'}):
        for env in T.rows():
            if not used_free and (env['GT'] or env['EQ']):
                continue
            row = tuple(env[n] for n in T.names)
            got = counts.get(kind, {}).get(row, 0)
            want = 1 if kind == 'left' else (1 if (env['RS'] and env['SN']) else 0) if kind == 'right' else 0
            ctx.check(rule, 'link:%s[%s]%s' % (kind, dtab.fmt_env(env if used_free else {k_: v_ for k_, v_ in env.items() if k_ in ('RS', 'SN')}), sfx), got == want, '%d push(es)' % got, '%d' % want, w, key_extra='%s:%s:%d' % (kind, dtab.fmt_env(env if used_free else {k_: v_ for k_, v_ in env.items() if k_ in ('RS', 'SN')}), got))
    return b, ip, L


def blk_of(b, ev):
    """Block id of the call terminator of an event."""
    for bl in b['blocks']:
        if bl['term'] is ev.term:
            return bl['id']
    return None


def r1(ctx, F, rule, sfx):
    link_analysis(ctx, F, rule, sfx)


def cell_loop(ctx, F):
    """-> (b, ip, ret, finalize event, loop record, next event, item shape) of the per-cell finalisation loop."""
    b, ip, ret = finalize_scenario(F)
    fin = [e for e in ip.events if e.body is b and e.callee and strip_generics(e.callee).endswith('VoronoiCell::finalize')]
    if len(fin) != 1:
        raise AnalysisIncomplete('calls of VoronoiCell::finalize in the linking function: %d' % len(fin))
    e = fin[0]
    L = [rec for rec in ip.loops if rec['body'] is b and blk_of(b, e) in rec['blocks']]
    if len(L) != 1:
        raise AnalysisIncomplete('the per-cell finalisation is not inside exactly one loop')
    L = L[0]
    nx = [x for x in next_events(ip, b) if blk_of(b, x) in L['blocks']]
    if len(nx) != 1:
        raise AnalysisIncomplete('offset loop has %d stream reads' % len(nx))
    rec, li = loop_record_of(ip, nx[0])
    sh = stream_shape(I.frozen(rec['init'][li]))
    return b, ip, ret, e, L, nx[0], sh


def r2(ctx, F, rule, sfx):
    b, ip, ret, e, L, nx, sh = cell_loop(ctx, F)
    w = where(b, e.line)
    # the per-cell lists after the linking loop: a phi symbol of the list local of the first loop
    lists_local = None
    for rec in ip.loops:
        if rec is L or rec['body'] is not b:
            continue
        for i, p in enumerate(rec['phi']):
            if p is not None and rec['init'][i] is not None and 'Vec<std::vec::Vec<usize>>' in (b['locals'][i]['ty']):
                lists_local = (rec, i)
    if lists_local is None:
        raise AnalysisIncomplete('per-cell list vector not identified')
    rec1, li = lists_local
    lists = I.frozen(rec1['phi'][li])
    lists_txt = repr(lists)
    leaves = shape_leaves(sh)
    ok_stream = covers_all(sh, 'self.voronoi_cells') and all(l[0] == 'pos' or l in (('elem', 'self.voronoi_cells'), ('elem', lists_txt)) for l in leaves)
    ctx.check(rule, 'loop-over-all-cells' + sfx, ok_stream, 'item shape %s' % (sh,), 'every cell of self.voronoi_cells in slot order (zipped only with its position or its own list)', w, key_extra='stream')
    fb = F.body(e.callee)
    roles = finalize_roles(ctx, F, fb)
    a = e.args
    r = resolve_item(e.fargs[0], nx.result, sh)
    ctx.check(rule, 'receiver-is-slot-cell' + sfx, r is not None and r[0][0] == 'elem' and r[0][1] in cell_containers(L) and not r[1], repr(e.fargs[0])[-80:], 'the cell at the current slot', w, key_extra='receiver')
    if 'face_connections_offset' not in roles or 'face_count' not in roles:
        ctx.bad(rule, 'finalisation-stores-offset-and-count' + sfx, 'roles %s' % roles, 'offset and count arguments stored in their fields', where(fb), key_extra='roles')
        return
    off = as_rf(a[roles['face_connections_offset']])
    cnt = as_rf(a[roles['face_count']])
    cat = I.single_atom(cnt)
    ok_cnt = False
    if cat is not None and cat.kind == 'app' and cat.name == 'len':
        r = resolve_item(cat.args[0], nx.result, sh)
        ok_cnt = r is not None and r[0] == ('elem', lists_txt) and not r[1]
    ctx.check(rule, 'count-is-list-length' + sfx, ok_cnt, repr(cnt)[-100:], 'len(list of the current slot)', w, key_extra='count')
    # offset recurrence
    oat = I.single_atom(off)
    offl = None
    for i, p in enumerate(L['phi']):
        if isinstance(p, RF) and oat is not None and I.single_atom(p) is oat:
            offl = i
    if offl is None:
        ctx.bad(rule, 'offset-recurrence' + sfx, 'offset argument %r is not a loop-carried scalar' % off, 'running sum', w, key_extra='not-carried')
    else:
        init = L['init'][offl]
        backs = [vals.get(offl) for g, vals in L['back']]
        ok = isinstance(init, RF) and init.is_zero() and len(backs) >= 1 and all(isinstance(x, RF) and x == off + cnt for x in backs)
        ctx.check(rule, 'offset-recurrence' + sfx, ok, 'init=%r next=%s' % (init, [repr(x)[-90:] for x in backs]), 'init 0, next = offset + len(list[slot]) on every back edge', w, key_extra='recurrence')
    # one list per cell
    ch, s0 = stream_chain(I.frozen(rec1['init'][li]))
    nm = [n for n, _ in ch]
    ok_lists = (nm[:2] == ['collect', 'map'] and repr(s0).replace(' ', '') == 'Range{start:0,end:len(self.voronoi_cells)}') or \
        repr(I.frozen(rec1['init'][li])).replace(' ', '') == 'from_elem(array{},len(self.voronoi_cells))'
    ctx.check(rule, 'one-list-per-cell' + sfx, ok_lists, '%s over %r' % (' <- '.join(nm), s0), 'one (empty) list per cell: collect(map(0..len(cells), ..)) or vec![..; len(cells)]', w, key_extra='lists')
    # concatenation
    out = I.get_field(ret, 'cell_face_connections')
    ch, s1 = stream_chain(I.frozen(out))
    nm = [n for n, _ in ch]
    ok_cat = nm == ['collect', 'flatten', 'into_iter'] and repr(s1) == lists_txt
    ctx.check(rule, 'connections-are-concatenation' + sfx, ok_cat, '%s over %r' % (' <- '.join(nm), s1), 'collect(flatten(into_iter(per-cell lists))) — in cell order', where(b), key_extra='concat')
    ctx.evaluations += 1


def cell_containers(L):
    """Names under which the loop `L` sees self.voronoi_cells: the field itself, or the symbol standing for it inside a
    loop that updates its elements in place (`self.voronoi_cells[i].finalize(..)`)."""
    out = {'self.voronoi_cells'}
    pairs = [(x['init'], x['phi']) for x in L.get('ext', ())] + [(a, p) for a, p in zip(L['init'], L['phi']) if a is not None and p is not None and a is not p]
    for a, p in pairs:
        try:
            if repr(I.get_field(I.frozen(a), 'voronoi_cells')) == 'self.voronoi_cells':
                out.add(repr(I.get_field(I.frozen(p), 'voronoi_cells')))
        except (AnalysisIncomplete, KeyError, TypeError):
            continue
    return out


def finalize_roles(ctx, F, fb):
    """Evaluate VoronoiCell::finalize symbolically: which argument lands in which field."""
    ip = I.Interp(F)
    cell = I.Sym(nf.sym_atom('c'), 'voronoi::voronoi_cell::VoronoiCell')
    r = ip.ref_to(cell, '&mut voronoi::voronoi_cell::VoronoiCell', mut=True)
    n = fb['arg_count']
    args = [r] + [RF.sym('a%d' % i) for i in range(1, n)]
    ip.call_body(fb, args)
    ctx.evaluations += ip.evaluations
    after = I.read_lv(r.lv)
    roles = {}
    for f in ('idx', 'face_connections_offset', 'face_count'):
        try:
            v = repr(I.get_field(after, f, 'usize'))
        except AnalysisIncomplete:
            v = None
        if v and v.startswith('a') and v[1:].isdigit():
            roles[f] = int(v[1:])
    return roles


def r3(ctx, F, rule, sfx):
    b, ip, ret, e, L, nx, sh = cell_loop(ctx, F)
    fb = F.body(e.callee)
    roles = finalize_roles(ctx, F, fb)
    w = where(fb)
    if 'idx' not in roles:
        ctx.bad(rule, 'slot-index-stored' + sfx, 'the per-cell finalisation does not store an index argument in `idx` (stored arguments: %s)' % sorted(roles),
                'idx := slot for every cell, constructed or not', w, key_extra='idx-not-assigned')
        return
    r = resolve_item(e.fargs[roles['idx']], nx.result, sh)
    rc = resolve_item(e.fargs[0], nx.result, sh)
    ok = r is not None and r[0][0] == 'pos' and not r[1] and rc is not None and rc[0][0] == 'elem' and rc[0][1] in cell_containers(L) and not rc[1]
    ctx.check(rule, 'slot-index-stored' + sfx, ok, 'idx := %s' % repr(e.fargs[roles['idx']])[-80:], 'the slot position of the cell being finalised', where(b, e.line), key_extra='idx-source')
    extra = [g for g in e.guard if not (dtab.is_discr_eq(g) and '::next(' in repr(g))]
    ctx.check(rule, 'unconditional' + sfx, not extra, 'guards: %s' % [repr(g)[:80] for g in extra], 'executed for every cell', where(b, e.line), key_extra='guarded')
    ctx.evaluations += 1


def r4(ctx, F, rule, sfx):
    nb = F.body_by_suffix('VoronoiCell::neighbour_ids')
    ip = I.Interp(F, no_inline=[x['path'] for x in F.bodies if strip_generics(x['path']).endswith('VoronoiCell::face_indices')])
    me = I.Sym(nf.sym_atom('cell'), 'voronoi::voronoi_cell::VoronoiCell')
    vor = I.Sym(nf.sym_atom('vor'), 'voronoi::Voronoi')
    r, _ = ip.call_body(nb, [ip.ref_to(me), ip.ref_to(vor)])
    ch, src = stream_chain(I.frozen(r))
    # what the stream yields for ONE listed face index fi (any composition of element-wise adaptors: filter_map, filter + map, ...)
    v, si = stream_element(ip, ch, ip.ref_to(RF.sym('fi'), '&usize'))
    ctx.evaluations += ip.evaluations
    c = nb
    w = where(c)
    face = 'vor.faces[fi]'
    f_left, f_right, f_shift = (face + '.' + face_path_str(F, n) for n in ('left', 'right', 'shift'))

    def classify(leaf):
        p = dtab.option_leaf(leaf, f_shift)
        if p is not None:
            return ('PER', p)
        p = dtab.option_leaf(leaf, f_right)
        if p is not None:
            return ('BND', not p)
        if leaf.op == 'cmp' and leaf.args[0] in ('==', '!='):
            s = {repr(leaf.args[1]), repr(leaf.args[2])}
            if s == {f_left, 'cell.idx'}:
                return ('LEFTSELF', leaf.args[0] == '==')
            if s in ({f_right + '.Some.0', 'cell.idx'}, {'unwrap(%s)' % f_right, 'cell.idx'}):
                return ('RIGHTSELF', leaf.args[0] == '==')
        return None

    def feasible(env_):
        # a face is listed by the cell on its left always, and by the cell on its right iff it has a right generator and no
        # shift (C12.R1); an unshifted face never has the same cell on both sides; a boundary face has no right generator
        if env_['BND'] and env_['RIGHTSELF']:
            return False
        listed = env_['LEFTSELF'] or (env_['RIGHTSELF'] and not env_['PER'] and not env_['BND'])
        if not listed:
            return False
        if not env_['PER'] and not env_['BND'] and env_['LEFTSELF'] and env_['RIGHTSELF']:
            return False
        return True
    T = dtab.Table(['PER', 'BND', 'LEFTSELF', 'RIGHTSELF'], classify, constraint=feasible)
    tab = T.tabulate(v)
    right_forms = ('unwrap(%s)' % f_right, f_right + '.Some.0')
    for env_ in T.rows():
        row = tuple(env_[n] for n in T.names)
        got = tab[row]
        g = repr(I.frozen(got)).replace(' ', '')
        if env_['PER'] or env_['BND']:
            ok = isinstance(got, I.St) and got.variant == 'None'
            want = 'None'
        elif env_['LEFTSELF']:
            ok = isinstance(got, I.St) and got.variant == 'Some' and repr(got.fields[0]) in right_forms
            want = 'Some(right)'
        else:
            ok = isinstance(got, I.St) and got.variant == 'Some' and repr(got.fields[0]) == f_left
            want = 'Some(left)'
        ctx.check(rule, 'neighbour[%s]%s' % (dtab.fmt_env(env_), sfx), ok, g[:100], want, w, key_extra='%s' % dtab.fmt_env(env_))
    # the element function is applied to every listed face index: element-wise adaptors over iter(face_indices(self, voronoi))
    nm = [n for n, _ in ch]
    ok = nm[si:] == ['iter', 'face_indices'] and repr(src) == 'cell' and [repr(x) for x in ch[si + 1][1]] == ['vor'] and all(n in ELEMENTWISE_FN for n in nm[:si])
    ctx.check(rule, 'over-all-listed-faces' + sfx, ok, '%s over %s' % (' <- '.join(nm), repr(src)[-80:]), 'element-wise adaptors over iter(self.face_indices(voronoi))', where(nb), key_extra='stream')


def r5(ctx, F, rule, sfx):
    accessor_consistency(ctx, F, rule, sfx, 'voronoi_cell::VoronoiCell', ['face_count', 'face_connections_offset'])
    accessor_consistency(ctx, F, rule, sfx, 'voronoi::Voronoi', ['cell_face_connections', 'faces', 'cells'], alias={'cells': 'voronoi_cells'})
    fi = F.body_by_suffix('VoronoiCell::face_indices')
    ip = I.Interp(F)
    me = I.Sym(nf.sym_atom('cell'), 'voronoi::voronoi_cell::VoronoiCell')
    vor = I.Sym(nf.sym_atom('vor'), 'voronoi::Voronoi')
    v, _ = ip.call_body(fi, [ip.ref_to(me), ip.ref_to(vor)])
    ctx.evaluations += ip.evaluations
    got = repr(I.frozen(v)).replace(' ', '')
    want = 'index(vor.cell_face_connections,Range{start:cell.face_connections_offset,end:cell.face_connections_offset+cell.face_count})'
    ctx.check(rule, 'face-indices-slice' + sfx, got.endswith(want), got[-160:], 'connections[offset .. offset+count]', where(fi), key_extra='slice')
    fb = F.body_by_suffix('VoronoiCell::faces')
    cl = F.closures_of(fb)
    if len(cl) != 1:
        raise AnalysisIncomplete('closures in VoronoiCell::faces: %d' % len(cl))
    c = cl[0]
    ip = I.Interp(F)
    cv = I.St('closure:' + c['path'], None, {0: ip.ref_to(vor, '&voronoi::Voronoi')})
    r, _ = ip.call_body(c, [ip.ref_to(cv), ip.ref_to(RF.sym('fi'), '&usize')])
    ctx.evaluations += ip.evaluations
    ctx.check(rule, 'faces-maps-indices' + sfx, repr(I.frozen(r)) == 'vor.faces[fi]', repr(I.frozen(r))[:80], 'voronoi.faces[i]', where(c), key_extra='faces-map')
    # ... over ALL of the cell's indices (nothing skipped or truncated; the order is that of the slice or its reverse)
    ipf = I.Interp(F, no_inline=[fi['path']])
    rv, _ = ipf.call_body(fb, [ipf.ref_to(me), ipf.ref_to(vor)])
    ctx.evaluations += ipf.evaluations
    ch, src = stream_chain(I.frozen(rv))
    names = [n for n, _ in ch if n != 'rev']
    ok = names in (['map', 'iter'], ['map', 'iter', 'face_indices']) and ('face_indices' in repr(src) or 'face_indices' in names)
    ctx.check(rule, 'faces-over-all-indices' + sfx, ok, '%s over %s' % (' <- '.join(n for n, _ in ch), repr(src)[:60]), 'map over iter() of face_indices(voronoi), unfiltered', where(fb), key_extra='faces-stream')
    # the consuming accessor hands out the same face list
    inf = F.body_by_suffix('Voronoi::into_faces')
    ipi = I.Interp(F)
    outv, _ = ipi.call_body(inf, [vor])
    ctx.evaluations += ipi.evaluations
    ctx.check(rule, 'into_faces-is-the-face-list' + sfx, repr(I.frozen(outv)) == 'vor.faces', repr(I.frozen(outv))[:80], 'self.faces', where(inf), key_extra='into-faces')
