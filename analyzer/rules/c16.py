"""C16 — the safety radius bounds the cell and its region of influence."""
from fractions import Fraction
from .. import interp as I, nf
from ..nf import RF, as_rf
from ..tables import c3, dot3
from ..facts import AnalysisIncomplete, strip_generics, calls, callee_name
from ..cfg import CFG
from ..effects import modset, ALL
from .util import *
from . import scen

META = {
    'level': 'other',
    'configs': {'quick': ['default'], 'thorough': ['default', 'norayon', 'default_nodebug']},
    'rules': {
        'R1': 'the safety radius is k*sqrt(max over ALL vertices of radius^2) with k >= 2: reduction is a maximum with the natural comparator over the unfiltered vertex list',
        'R2': 'every normal path that changes the vertex multiset (truncate/push/element assignment/initial construction) reaches the radius update before returning',
        'R3': 'radius^2 of a vertex is the squared distance from the generator to the vertex projected on the active subspace (projection keeps at least the active axes), '
              'computed as a sum of squares — not as a difference of overlapping sums (cancellation); '
              'every vertex a cell starts with is built by the vertex constructor from the cell\'s OWN generator position and the boundary\'s planes (no vertex record shared between cells), '
              'and radius^2 is written nowhere else',
        'R4': 'termination test: the builder stops only when c_l*safety_radius < c_r*|L-R| with (c_l/c_r)*k >= 2',
        'R5': 'the reported VoronoiCell.safety_radius is the builder\'s value',
    },
    'explanation': 'Decides necessary structural conditions: the reduction over vertex radii is a maximum over all vertices scaled by '
                   'k>=2 (R1), it is re-established after every change of the vertex multiset (R2), radii are measured from the '
                   'generator in a subspace containing the active axes (R3), the termination test uses that value with a total '
                   'factor >= 2 (R4) and the stored value is the builder\'s (R5). Not decided: that the clipped polytope is the right '
                   'one (C01) and the consequence for added far generators, which follows from R1-R4 and C17.',
    'trusted_base': ['std Iterator::max_by/map/slice::iter semantics (order-preserving stream operators; max_by returns the maximum w.r.t. the comparator)',
                     'glam DVec3 semantics table', 'E0 extractor'],
    'assumptions': ['real arithmetic'],
}

UPD = '::update_safety_radius'


def update_fn(F):
    return F.body_by_suffix(UPD)


def radius_formula(ctx, F):
    """-> (k, max_atom, field_name) from the abstract evaluation of the radius update."""
    ub = update_fn(F)
    ms = modset(F, ub['path'], 0)
    if ms is ALL or len(ms) != 1:
        raise AnalysisIncomplete('radius update writes %s, expected exactly one field' % (ms,), ub['path'])
    field = next(iter(ms))
    ip = I.Interp(F)
    cell = I.Sym(nf.sym_atom('cell'), 'voronoi::convex_cell::ConvexCell<voronoi::convex_cell::WithoutFaces>')
    r = ip.ref_to(cell, ub['locals'][1]['ty'], mut=True)
    args = [r]
    for i in range(2, ub['arg_count'] + 1):
        ty = ub['locals'][i]['ty']
        v_ = I.mk_sym(nf.sym_atom('arg%d' % i), ty)
        args.append(ip.ref_to(v_, ty) if ty.startswith('&') else v_)
    ip.call_body(ub, args)
    ctx.evaluations += ip.evaluations
    sr = as_rf(I.get_field(I.read_lv(r.lv), field, 'f64'))
    return ub, ip, sr, field


def analyse_reduction(ctx, F, sr, ub):
    """sr must be k*sqrt(M), M = unwrap(max_by(map(iter(cell.vertices), f), cmp))."""
    if not sr.is_poly() or len(sr.num) != 1:
        raise AnalysisIncomplete('safety radius is not a single scaled term: %r' % sr, ub['path'])
    (m, k), = sr.num.items()
    if len(m) != 1 or m[0][1] != 1:
        raise AnalysisIncomplete('safety radius is not k*atom: %r' % sr, ub['path'])
    at = nf.atom_by_id(m[0][0])
    return k, at


def run(ctx):
    for cfg in ctx.configs_used:
        F = ctx.facts(cfg)
        sfx = '' if cfg == 'default' else '@' + cfg
        ctx.guarded('C16.R1', 'reduction' + sfx, lambda: r1(ctx, F, sfx))
        ctx.guarded('C16.R2', 'must-update' + sfx, lambda: r2(ctx, F, sfx))
        ctx.guarded('C16.R3', 'radius2' + sfx, lambda: r3(ctx, F, sfx))
        ctx.guarded('C16.R3', 'initial-vertices' + sfx, lambda: initial_vertices(ctx, F, 'C16.R3', sfx))
        ctx.guarded('C16.R4', 'termination' + sfx, lambda: r4(ctx, F, sfx))
        ctx.guarded('C16.R5', 'stored-value' + sfx, lambda: r5(ctx, F, sfx))


def r1(ctx, F, sfx, quiet=False):
    ub, ip, sr, field = radius_formula(ctx, F)
    sq = I.single_atom(sr * sr.__class__.const(1))
    # sr = k * sqrt(M)
    top = I.single_atom(sr)
    if top is not None and top.kind == 'app' and top.name in ('min',):
        ctx.bad('C16.R1', 'formula' + sfx, repr(sr)[:200], 'k*sqrt(max radius^2), k >= 2 — not capped from above by another quantity', where(ub), key_extra='capped')
        return None
    k, at = analyse_reduction(ctx, F, sr, ub)
    w = where(ub)
    if at.kind != 'app' or at.name != 'sqrt':
        ctx.bad('C16.R1', 'formula' + sfx, repr(sr)[:200], 'k*sqrt(max radius^2)', w, key_extra='not-sqrt')
        return None
    rad = at.args[0]
    M = I.single_atom(rad)
    if M is None:
        ctx.bad('C16.R1', 'formula' + sfx, repr(sr)[:200], 'k*sqrt(max radius^2)', w, key_extra='radicand')
        return None
    ctx.check('C16.R1', 'factor' + sfx, k >= 2, 'safety_radius = %s*sqrt(M)' % k, 'k >= 2', w, key_extra='factor')
    # two ways of writing "the largest radius^2": max over the mapped values, or the radius^2 of the vertex that is largest by radius^2
    key_path = []
    base = M
    while isinstance(base, nf.Atom) and base.kind == 'app' and base.name == 'field' and len(base.args) == 2:
        key_path.insert(0, base.args[1])
        base = base.args[0]
        if isinstance(base, I.Sym):
            base = base.atom
    while key_path and str(key_path[0]) in ('Some', '0', 'Some.0'):
        key_path.pop(0)
    if key_path:
        M = base
    chain, src = stream_chain(M)
    names = [n for n, _ in chain]
    # reduction
    red = chain[0] if chain else (None, ())
    ok_red = red[0] in ('max_by',)
    if red[0] in ('max_by', 'min_by'):
        # max_by with the natural order, or min_by with the reversed order, is a maximum
        cl = red[1][0] if red[1] else None
        nat = comparator_is_natural(ctx, F, cl, key_path)
        is_max = (red[0] == 'max_by' and nat == 'natural') or (red[0] == 'min_by' and nat == 'reversed')
        ctx.check('C16.R1', 'reduction-is-maximum' + sfx, is_max, '%s with comparator: %s' % (red[0], nat), 'maximum w.r.t. the natural order of f64', w, key_extra='comparator')
    elif red[0] == 'fold' and len(red[1]) == 2 and repr(red[1][0]) == 'const:f64:-inf' and repr(red[1][1]) in ('fn core::f64::<impl f64>::max', 'fn std::f64::<impl f64>::max'):
        ctx.ok('C16.R1', 'reduction-is-maximum' + sfx, 'fold(-inf, f64::max)', 'maximum w.r.t. the natural order of f64', w)
    elif red[0] == 'reduce' and len(red[1]) == 1 and repr(red[1][0]) in ('fn core::f64::<impl f64>::max', 'fn std::f64::<impl f64>::max'):
        ctx.ok('C16.R1', 'reduction-is-maximum' + sfx, 'reduce(f64::max)', 'maximum w.r.t. the natural order of f64', w)
    elif red[0] in ('fold', 'reduce'):
        ctx.incomplete('C16.R1', 'reduction-is-maximum' + sfx, 'reduction by %s is not analysed' % red[0], w)
    else:
        ctx.bad('C16.R1', 'reduction-is-maximum' + sfx, 'reduction %s over %s' % (red[0], names), 'a maximum (max_by with the natural comparator, or equivalent)', w, key_extra='reduction:%s' % red[0])
    # adaptors between source and reduction: only element-wise maps (no filter/skip/take/step_by)
    bad = [n for n in names[1:] if n not in ('map', 'iter', 'into_iter', 'copied', 'cloned', 'deref', 'rev')]        # (a maximum does not depend on the order)
    ctx.check('C16.R1', 'over-all-vertices' + sfx, not bad and names[-1:] == ['iter'] and repr(src).endswith('.vertices'), 'stream %s over %r' % (' <- '.join(names), src), 'every vertex of the cell, unfiltered', w, key_extra='stream')
    # the mapped quantity is the vertex radius^2 field
    if key_path:
        ctx.check('C16.R1', 'mapped-quantity' + sfx, [str(x) for x in key_path] == ['radius2'] and 'map' not in names, 'key of the selected vertex: %s' % '.'.join(str(x) for x in key_path), 'the vertex radius^2', w, key_extra='mapped')
    for n, a in chain:
        if n == 'map':
            cl = a[0]
            val = apply_closure(ctx, F, cl, [I.Sym(nf.sym_atom('vtx'), '&voronoi::convex_cell::Vertex')])
            ctx.check('C16.R1', 'mapped-quantity' + sfx, repr(val) == 'vtx.radius2', repr(val)[:120], 'the vertex radius^2', w, key_extra='mapped')
    return k, field


def comparator_is_natural(ctx, F, cl, key_path=()):
    if not isinstance(cl, I.St) or not str(cl.adt).startswith('closure:'):
        return 'comparator is not a closure'
    ip = I.Interp(F)
    if key_path:
        # elements are vertices, compared by the key (the field path read from the selected element afterwards)
        va = I.Sym(nf.sym_atom('cmp.a'), 'voronoi::convex_cell::Vertex')
        vb = I.Sym(nf.sym_atom('cmp.b'), 'voronoi::convex_cell::Vertex')
        a, b = va, vb
        for f in key_path:
            a, b = I.get_field(a, f), I.get_field(b, f)
        a, b = I.frozen(a), I.frozen(b)
        ra, rb = ip.ref_to(ip.ref_to(va, '&voronoi::convex_cell::Vertex'), '&&voronoi::convex_cell::Vertex'), ip.ref_to(ip.ref_to(vb, '&voronoi::convex_cell::Vertex'), '&&voronoi::convex_cell::Vertex')
    else:
        a, b = RF.sym('cmp.a'), RF.sym('cmp.b')
        ra, rb = ip.ref_to(a, '&f64'), ip.ref_to(b, '&f64')
    try:
        v = ip.call_closure(cl, None, I.tup(ra, rb), 'std::cmp::Ordering')
    except I.Diverge:
        return 'diverges'
    ctx.evaluations += ip.evaluations
    s = repr(v)
    # natural: unwrap(partial_cmp(a, b)) ; reversed: partial_cmp(b, a) or .reverse()
    ev = [e for e in ip.events if e.callee and e.callee.endswith('partial_cmp')]
    if len(ev) != 1:
        return 'comparator does not call partial_cmp exactly once (%s)' % s[:80]
    x, y = [I.frozen(z) for z in ev[0].args]
    flipped = 'reverse' in s
    if (x == a and y == b) or (key_path and (repr(x), repr(y)) == (repr(a), repr(b))):
        return 'reversed' if flipped else 'natural'
    if (x == b and y == a) or (key_path and (repr(x), repr(y)) == (repr(b), repr(a))):
        return 'natural' if flipped else 'reversed'
    return 'arguments %r, %r' % (x, y)


def apply_closure(ctx, F, cl, args):
    ip = I.Interp(F)
    v = ip.call_closure(cl, None, I.tup(*args), '?')
    ctx.evaluations += ip.evaluations
    return v


MUTATORS = ('::truncate', '::push', '::pop', '::remove', '::swap_remove', '::insert', '::retain', '::clear', '::extend', '::append', '::drain', '::dedup', '::resize', '::split_off')


def r2(ctx, F, sfx, rule='C16.R2'):
    ub = update_fn(F)
    n = 0
    for b in F.bodies:
        if 'convex_cell_alternative' in b['path'] or b is ub:
            continue
        if 'convex_cell::ConvexCell' not in b['path'] or b['kind'] == 'Closure':
            continue
        cfg = CFG(b)
        # blocks that change the vertex multiset of `self.vertices`
        mut_blocks = []
        for bl, t in calls(b):
            if bl['id'] not in cfg.reach:
                continue
            cn = callee_name(t)
            if cn.startswith('std::vec::Vec') and cn.endswith(MUTATORS):
                # receiver must be the vertices field
                if receiver_is_field(b, bl, t, 'vertices'):
                    mut_blocks.append((bl['id'], t, cn.rsplit('::', 1)[-1]))
        # construction of a cell from a fresh vertex list
        for bl, t in calls(b):
            if strip_generics(callee_name(t)).endswith('ConvexCell::new') and bl['id'] in cfg.reach and not b['path'].endswith('::new'):
                mut_blocks.append((bl['id'], t, 'new'))
        if not mut_blocks:
            continue
        upd_blocks = [bl['id'] for bl, t in calls(b) if callee_name(t) == ub['path']]
        for bid, t, what in mut_blocks:
            n += 1
            ctx.evaluations += 1
            inst = '%s:%s%s' % (strip_generics(b['path']), what, sfx)
            if b.get('exported') is False and strip_generics(b['path']).endswith('ConvexCell::new'):
                continue
            ok = all(cfg.must_pass_through(bid, ex, upd_blocks) for ex in cfg.exits()) and bool(upd_blocks)
            # a mutation placed after the update in the same path is caught because the update must come after: check update not dominating only
            if ok:
                ok = not any(u == bid for u in upd_blocks) and all(cfg.must_pass_through(bid, ex, [u for u in upd_blocks if u != bid]) for ex in cfg.exits())
            ctx.check(rule, inst, ok, 'vertex-multiset change (%s) %s the radius update on every path to return' % (what, 'reaches' if ok else 'can bypass'), 'update on every path', where(b, t['line']), key_extra='bypass')
    ctx.floor(rule, 'vertex-multiset mutations' + sfx, n, 3)


def receiver_is_field(b, bl, t, field):
    """The first argument of the call is (a reborrow of) self.<field>."""
    a = t['args'][0]
    if a['k'] not in ('copy', 'move'):
        return False
    l = a['place']['l']
    # the receiver temporary is assigned once (two-phase borrow), possibly in an earlier block
    defs = [s for bl2 in b['blocks'] for s in bl2['stmts']
            if s['k'] == 'assign' and s['place']['l'] == l and not s['place']['p']]
    if len(defs) != 1:
        return False
    rv = defs[0]['rv']
    if rv['k'] == 'ref':
        names = [e.get('n') for e in rv['place']['p'] if e['k'] == 'field']
        return bool(names) and names[0] == field
    return False


def r3(ctx, F, sfx):
    fd = F.body_by_suffix('Vertex::from_dual')
    for dim, keep in (('OneD', 1), ('TwoD', 2), ('ThreeD', 3)):
        ip = I.Interp(F, no_inline=['geometry::intersect_planes'])
        planes = I.Sym(nf.sym_atom('planes'), '&[voronoi::half_space::HalfSpace]')
        g = I.sym_vec3('G')
        dimv = I.St('voronoi::Dimensionality', dim, {})
        nf.CANCEL_LOG = []
        try:
            v, _ = ip.call_body(fd, [RF.sym('i'), RF.sym('j'), RF.sym('k'), planes, g, dimv])
            canc = nf.CANCEL_LOG
        finally:
            nf.CANCEL_LOG = None
        ctx.evaluations += ip.evaluations
        # the radius is measured directly: no difference of two quantities that share whole monomials (|d|^2 - d_z^2 for d_x^2 + d_y^2 is the same
        # number over the reals — which is all the formula check below sees — but in floating point the small in-plane part is rounded to the
        # spacing of the large inactive one: for cells much smaller than the unit inactive extent the radius, and with it the safety radius, is 0)
        ctx.check('C16.R3', 'radius2-without-cancellation-%s%s' % (dim, sfx), not canc, ['%s - %s' % (repr(a_)[:50], repr(b_)[:50]) for a_, b_, _n in canc[:2]] or 'no subtraction of overlapping sums',
                  'the squared radius is a sum of squares, not a difference of overlapping sums', where(fd), key_extra='cancellation')
        r2v = as_rf(I.get_field(v, 'radius2', 'f64'))
        loc = c3(I.get_field(v, 'loc'))
        G = c3(g)
        # required: r2 >= sum over active axes (G_c - X_c)^2, i.e. r2 = sum over a superset S of active axes
        found = None
        for mask in range(8):
            axes = [c for c in range(3) if mask >> c & 1]
            e = RF.const(0)
            for c in axes:
                e = e + (G[c] - loc[c]) * (G[c] - loc[c])
            if e == r2v:
                found = axes
                break
        w = where(fd)
        if found is None:
            # the projected generator: the code zeroes the inactive coordinates of the vertex and relies on the generator's being zero there
            alt = None
            for mask in range(8):
                axes = [c for c in range(3) if mask >> c & 1]
                e = RF.const(0)
                for c in range(3):
                    e = e + ((G[c] - loc[c]) * (G[c] - loc[c]) if c in axes else G[c] * G[c])
                if e == r2v:
                    alt = axes
                    break
            if alt is None and any(a.kind == 'app' and a.name.startswith('call:') and 'intersect_planes' not in a.name for a in I.atoms_deep(r2v).values()):
                ctx.incomplete('C16.R3', 'radius2-%s%s' % (dim, sfx), 'radius^2 uses a library call outside the semantics table: %s' % repr(r2v)[:200], w)
                continue
            if alt is None:
                ctx.bad('C16.R3', 'radius2-%s%s' % (dim, sfx), repr(r2v)[:200], 'squared distance generator-vertex in a subspace containing the active axes', w, key_extra='formula')
                continue
            found = alt
            note = ' (inactive vertex coordinates replaced by 0; the generator is projected by Generator::new, C08.R1)'
        else:
            note = ''
        ok = all(c in found for c in range(keep))
        ctx.check('C16.R3', 'radius2-%s%s' % (dim, sfx), ok, 'axes measured: %s%s' % (found, note), 'superset of the %d active axes' % keep, w, key_extra='axes:%s' % found)
        # vertex position = intersection of the three planes named by dual
        d = I.get_field(v, 'dual')
        dual = [I.get_index(d, RF.const(i), 'usize') for i in range(3)]
        ctx.check('C16.R3', 'dual-%s%s' % (dim, sfx), [repr(x) for x in dual] == ['i', 'j', 'k'], repr(dual), '[i, j, k]', w, key_extra='dual')


def r4(ctx, F, sfx):
    sc = scen.build_scenario(F)
    res = termination_factor(ctx, F, sc)
    if res is None:
        return
    a_over_b, w = res
    k_field = r1_quiet(ctx, F)
    if k_field is None:
        ctx.incomplete('C16.R4', 'termination-factor' + sfx, 'radius formula undetermined', w)
        return
    k, field = k_field
    ctx.check('C16.R4', 'termination-factor' + sfx, a_over_b * k >= 2, 'exit iff %s*safety_radius < |L-R|, safety_radius = %s*max vertex distance: total %s' % (a_over_b, k, a_over_b * k), 'total factor >= 2', w, key_extra='factor')


def r1_quiet(ctx, F):
    try:
        ub, ip, sr, field = radius_formula(ctx, F)
        k, at = analyse_reduction(ctx, F, sr, ub)
        return k, field
    except AnalysisIncomplete:
        return None


def neighbour_position(sc, ev):
    """Specification value of the neighbour position for the stream item used by HalfSpace::new event `ev`:
    returns (ridx_payload, shift_value, {case_name: (mapping, R)})"""
    n, p, ridx, shift = ev.args
    if not (isinstance(ridx, I.St) and ridx.variant == 'Some'):
        raise AnalysisIncomplete('right index passed to the half-space constructor is not Some(_): %r' % (ridx,))
    X = ridx.fields[0]
    g = I.get_index(sc.generators, X, 'voronoi::generator::Generator')
    gl = c3(I.get_field(g, 'loc', 'glam::DVec3'))
    if not isinstance(shift, I.Sym):
        raise AnalysisIncomplete('shift passed to the half-space constructor is not the stream item\'s: %r' % (shift,))
    d = I.discr_atom(shift)
    sh = c3(I.get_field(I.downcast(shift, 'Some'), 0, 'glam::DVec3'))
    cases_ = {'unshifted': ({d: RF.const(0)}, gl), 'shifted': ({d: RF.const(1)}, vadd(gl, sh))}
    return X, shift, cases_


def termination_factor(ctx, F, sc):
    b = sc.body
    w = where(b)
    ub = update_fn(F)
    ms = modset(F, ub['path'], 0)
    field = next(iter(ms))
    hits = []
    if len(sc.clip_events) != 1:
        raise AnalysisIncomplete('clip call evaluated %d times in the builder loop' % len(sc.clip_events))
    # the clip is reached only when the exit test failed: its guard holds the negated test  c_r*dist <= c_l*SR
    for c in sc.clip_events[0].guard:
        if c.op == 'cmp' and c.args[0] in ('<', '<='):
            Bv, A = c.args[1], c.args[2]
            if isinstance(A, RF) and any(nf.atom_by_id(i).kind == 'sym' and nf.atom_by_id(i).name.endswith('.' + field) for i in A.atoms()):
                hits.append((c, A, Bv))
    if not hits:
        ctx.bad('C16.R4', 'termination-test', 'the clip call is not guarded by a comparison of the neighbour distance with the safety radius', 'exit test c_l*safety_radius < c_r*distance', w, key_extra='no-test')
        return None
    c, A, Bv = hits[0]
    # A = a*SR
    (m, a), = A.num.items() if A.is_poly() and len(A.num) == 1 else ((None, None),)
    if m is None or len(m) != 1 or m[0][1] != 1:
        ctx.bad('C16.R4', 'termination-test', repr(c)[:200], 'c_l*safety_radius on the left', w, key_extra='lhs')
        return None
    if not sc.hs_events:
        raise AnalysisIncomplete('no half-space construction in the builder loop')
    X, shift, cs = neighbour_position(sc, sc.hs_events[0])
    ratio = None
    for name, (mp, R) in cs.items():
        Bk = I.subst(Bv, mp)
        d = vsub(sc.L, R)
        dist = nf.fn_sqrt(dot3(d, d))
        q = Bk / dist
        if not q.is_const():
            ctx.bad('C16.R4', 'termination-test', 'right side %r (%s)' % (Bk, name), 'c_r*|L-R|', w, key_extra='rhs')
            return None
        if ratio is None:
            ratio = q.const_value()
        elif ratio != q.const_value():
            ctx.bad('C16.R4', 'termination-test', 'different factors in the shifted/unshifted case', 'one factor', w, key_extra='rhs-cases')
            return None
    if a <= 0 or ratio <= 0:
        ctx.bad('C16.R4', 'termination-test', repr(c)[:200], 'positive factors', w, key_extra='sign')
        return None
    return Fraction(a) / ratio, w


def r5(ctx, F, sfx):
    accessor_consistency(ctx, F, 'C16.R5', sfx, 'voronoi_cell::VoronoiCell', ['safety_radius'])
    fb = F.body_by_suffix('VoronoiCell::from_convex_cell')
    # the value passed as safety radius to the VoronoiCell constructor is convex_cell.safety_radius
    init_calls = [(bl, t) for bl, t in calls(fb) if strip_generics(callee_name(t)).endswith('VoronoiCell::init')]
    if len(init_calls) != 1:
        raise AnalysisIncomplete('VoronoiCell constructor call sites in from_convex_cell: %d' % len(init_calls))
    ib = F.body_by_suffix('VoronoiCell::init')
    ip = I.Interp(F)
    argv = [I.sym_vec3('loc'), I.sym_vec3('centroid'), RF.sym('volume'), RF.sym('sr'), RF.sym('idx')]
    # map by position of f64-typed arguments
    v, _ = ip.call_body(ib, argv)
    ctx.evaluations += ip.evaluations
    ok = repr(I.get_field(v, 'safety_radius', 'f64')) == 'sr'
    # which argument of init is the safety radius: the one stored in the field
    bl, t = init_calls[0]
    # trace the operand: it must be a copy of (*convex_cell).safety_radius
    a = t['args'][3]
    src = None
    if a['k'] in ('copy', 'move'):
        l = a['place']['l']
        for bl2 in fb['blocks']:
            for s in bl2['stmts']:
                if s['k'] == 'assign' and s['place']['l'] == l and not s['place']['p'] and s['rv']['k'] == 'use' and s['rv']['x']['k'] in ('copy', 'move'):
                    src = [e.get('n') for e in s['rv']['x']['place']['p'] if e['k'] == 'field']
    ctx.check('C16.R5', 'stored-value' + sfx, ok and src == ['safety_radius'], 'VoronoiCell.safety_radius <- %s' % (src,), 'the convex cell\'s safety_radius', where(fb, t['line']), key_extra='source')


def initial_vertices(ctx, F, rule, sfx):
    """The start cell: every vertex is Vertex::from_dual(i, j, k, <the boundary's planes>, <this cell's generator>, <dimensionality>);
    the radius^2 field has no writer other than the vertex constructor.  Shared with C01.R5."""
    init = F.body_by_suffix('ConvexCell::init')
    fd = F.body_by_suffix('Vertex::from_dual')
    ip = I.Interp(F, no_inline=[fd['path'], F.body_by_suffix('::update_safety_radius')['path']])
    bd = I.Sym(nf.sym_atom('bd'), 'voronoi::boundary::SimulationBoundary')
    v, _ = ip.call_body(init, [I.sym_vec3('L'), RF.sym('idx'), ip.ref_to(bd)])
    ctx.evaluations += ip.evaluations
    w = where(init)
    vs = I.frozen(I.get_field(v, 'vertices'))
    items = None
    if isinstance(vs, I.St) and vs.adt == 'array':
        items = [vs.fields[k] for k in sorted(vs.fields, key=lambda x: int(x))]
    if not items:
        if 'phi' in repr(vs) or 'call:' in repr(vs):
            raise AnalysisIncomplete('initial vertex list is not a literal list: %s' % repr(vs)[:160])
        # a value that does not depend on this cell's generator at all (e.g. a list stored in the boundary)
        ctx.bad(rule, 'start-vertices-measured-from-own-generator' + sfx, 'the start vertices are %s — not built for this cell' % repr(vs)[:120],
                '8 x Vertex::from_dual(i, j, k, &clipping_planes, loc, dimensionality) with loc the cell\'s generator', w, key_extra='start-vertices')
        return
    bad = []
    Ltxt = repr(I.frozen(I.sym_vec3('L')))
    for n, it in enumerate(items):
        at = it.atom if isinstance(it, I.Sym) else None
        ok = at is not None and at.kind == 'app' and at.name == 'call:' + fd['path'] and len(at.args) == 6
        if ok:
            ok = repr(at.args[4]) == Ltxt and 'clipping_planes' in repr(at.args[3]) and repr(at.args[3]).startswith('bd.') and repr(at.args[5]) == 'bd.dimensionality'
        if not ok:
            bad.append('#%d: %s' % (n, repr(it)[:140]))
    ctx.check(rule, 'start-vertices-measured-from-own-generator' + sfx, not bad and len(items) == 8, bad[:2] or '%d vertices, each from_dual(_, _, _, boundary planes, L, boundary dimensionality)' % len(items),
              '8 x Vertex::from_dual(i, j, k, &clipping_planes, loc, dimensionality) with loc the cell\'s generator', w, key_extra='start-vertices')
    ctx.check(rule, 'cell-generator-is-the-argument' + sfx, repr(I.frozen(I.get_field(v, 'loc'))) == Ltxt, repr(I.frozen(I.get_field(v, 'loc')))[:80], 'cell.loc == loc', w, key_extra='cell-loc')
    # writers of radius2: aggregate sites of Vertex / assignments to the field, outside the vertex constructor
    writers = []
    for b in F.bodies:
        if 'convex_cell_alternative' in b['path'] or '::tests::' in b['path']:
            continue
        for bl in b['blocks']:
            for st in bl['stmts']:
                if st['k'] != 'assign':
                    continue
                rv = st['rv']
                if rv['k'] == 'aggregate' and (rv.get('adt') or '').endswith('convex_cell::Vertex'):
                    writers.append(b['path'])
                pl = st['place']
                if any(e['k'] == 'field' and e.get('n') == 'radius2' for e in pl['p']):
                    writers.append(b['path'])
    others = sorted({x for x in writers if x != fd['path'] and not x.endswith(' as std::clone::Clone>::clone')})
    ctx.check(rule, 'radius2-written-only-by-the-vertex-constructor' + sfx, not others and fd['path'] in writers, others or 'Vertex::from_dual only', 'Vertex records are built (and radius2 assigned) only in Vertex::from_dual', where(fd), key_extra='radius2-writers')
