"""C07 — partial construction equals the full tessellation restricted to the mask."""
from .. import interp as I, nf, dtab
from ..nf import RF, as_rf
from ..tables import c3
from ..facts import AnalysisIncomplete, strip_generics, calls, callee_name
from .util import *
from . import routes, faces, c03

META = {
    'level': 'other',
    'configs': {'quick': ['default'], 'thorough': ['default', 'norayon', 'default_nodebug']},
    'rules': {
        'R1': 'mask non-interference: no argument of the cell builder, the neighbour searches, the r-tree builder, the boundary constructor or the generator '
              'constructor depends on the mask (data dependence); the only control dependence is the per-cell guard',
        'R2': 'mask provenance and guard: cell i is constructed  <=>  the mask is absent or mask[i] (the caller\'s mask, unmodified, indexed by the cell\'s own slot); '
              'the same mask reaches the face rule; build_partial passes Some(mask), build passes None',
        'R3': 'face rule with mask semantics (C03.R1/R2 tables): a face towards an unselected neighbour is always created from the selected side; none is created by '
              'an unselected cell (no cell is built for it)',
        'R4': 'unselected cells: the stored cell is the all-zero VoronoiCell (volume, centroid = 0) and nothing is appended to its face vector; the integrator stores None',
        'R5': 'every stored face has a constructed cell on the left (C03.R6: left == cell.idx of the cell being converted)',
    },
    'explanation': 'A sound non-interference argument: every selected cell is computed by the same per-cell function from arguments that do not depend on the '
                   'mask (R1), selected exactly by the caller\'s mask at its own slot (R2); with C09 (the per-cell function is pure) this gives bitwise equal volume, '
                   'centroid, generator position and safety radius for selected cells. The face bookkeeping clauses are decided as truth tables (R3, R5) and '
                   'the unselected-cell record by constant evaluation (R4). Not decided: face areas "up to rounding" (shared faces are integrated from the other side).',
    'trusted_base': ['C09 (per-cell purity)', 'std Option::map_or / iterator semantics', 'E0 extractor'],
    'assumptions': ['mask.len() == generators.len()'],
}


def run(ctx):
    for cfg in ctx.configs_used:
        F = ctx.facts(cfg)
        sfx = '' if cfg == 'default' else '@' + cfg
        for fn in (r1, r2, r3, r4, r5):
            rule = 'C07.' + fn.__name__.upper()
            ctx.guarded(rule, 'evaluate' + sfx, lambda: fn(ctx, F, rule, sfx))


MASK_NAMES = ('mask', 'maskslice')

SINKS = (('ConvexCell::build', 'cell builder'), ('rtree_nn::nn_iter', 'plain neighbour search'), ('rtree_nn::wrapping_nn_iter', 'wrapped neighbour search'),
         ('rtree_nn::build_rtree', 'r-tree builder'), ('SimulationBoundary::cuboid', 'boundary constructor'), ('Generator::new', 'generator constructor'))


def r1(ctx, F, rule, sfx):
    for which in ('direct', 'integrator'):
        r = routes.run_route(F, which)
        ctx.evaluations += r.ip.evaluations
        for suffix, what in SINKS:
            evs = r.call(suffix)
            if not evs:
                ctx.incomplete(rule, '%s:%s%s' % (which, what, sfx), 'no evaluated call of %s in the %s route' % (suffix, which), where(r.body))
                continue
            for e in evs:
                bad = [i for i, a in enumerate(e.fargs) if routes.depends_on(a, MASK_NAMES) or depends_on_active(a)]
                ctx.check(rule, '%s:%s-arguments%s' % (which, what, sfx), not bad, 'arguments depending on the mask: %s' % (bad or 'none'), 'none', where(e.body, e.line), key_extra='taint:%s' % suffix)


def depends_on_active(x):
    """cell_is_active is derived from the mask in the integrator route."""
    t = repr(x)
    return 'to_vec(mask' in t or 'cell_is_active' in t


def guard_table(ctx, rule, sfx, which, run, r, mask_txts, idx_resolver):
    """The ConvexCell::build event's guard as a table over MS (mask present) and MI (mask[own slot])."""
    e = routes.one_in(run, 'ConvexCell::build')
    unknown = []

    def classify(leaf):
        x = dtab.is_some_leaf(leaf)
        if x is not None and repr(x) == 'mask':
            return ('MS', True)
        dm = dtab.is_discr_eq(leaf)
        if dm is not None and repr(dm[0]) == 'mask':
            return ('MS', (dm[1] == 1) == dm[2])
        if leaf.op == 'atom':
            at = leaf.args[0]
            if at.kind == 'app' and at.name == 'elem':
                cont, ix = repr(at.args[0]), at.args[1]
                if cont in mask_txts and idx_resolver(ix):
                    return ('MI', True)
        return None
    T = dtab.Table(['MS', 'MI'], classify)
    tab = T.tabulate(I.TRUE, e.guard)
    return e, T, tab


def r2(ctx, F, rule, sfx):
    # direct route
    r = routes.run_route(F, 'direct')
    run = routes.cell_run(r)
    sh = stream_shape(run['stream'])
    item = run['item']

    def is_slot(ix):
        rr = resolve_item(ix, item, sh, prefix=())
        return rr is not None and rr[0][0] == 'pos' and not rr[1]
    # the cell built at slot i is the cell of generator i: idx argument and generator position of the same slot
    b = routes.one_in(run, 'ConvexCell::build')
    ridx = resolve_item(b.fargs[1], item, sh, prefix=())
    ctx.check(rule, 'direct:builder-index-is-slot' + sfx, ridx is not None and ridx[0][0] == 'pos' and not ridx[1], repr(b.fargs[1])[-60:], 'the enumerated slot', where(b.body, b.line), key_extra='direct-idx')
    # mask handed to the face rule is the caller's
    fc = routes.one_in(run, 'VoronoiCell::from_convex_cell')
    ctx.check(rule, 'direct:face-rule-mask-is-callers' + sfx, repr(fc.fargs[2]) == 'mask', repr(fc.fargs[2])[:100], 'the mask argument of the entry point, unmodified', where(fc.body, fc.line), key_extra='direct-mask')
    w = where(b.body, b.line)
    e, T, tab = guard_table(ctx, rule, sfx, 'direct', run, r, ('mask.Some.0',), is_slot)
    w = where(e.body, e.line)
    for env in T.rows():
        row = (env['MS'], env['MI'])
        got = tab[row] is not None
        want = (not env['MS']) or env['MI']
        ctx.check(rule, 'direct:cell-built[%s]%s' % (dtab.fmt_env(env), sfx), got == want, 'built' if got else 'skipped', 'built' if want else 'skipped', w, key_extra='direct:%s' % dtab.fmt_env(env))
    # entry points
    for nm, want in (('Voronoi::build_partial', 'Some'), ('Voronoi::build', 'None')):
        eb = F.body_by_suffix(nm)
        ip = I.Interp(F, no_inline=[x['path'] for x in F.bodies if strip_generics(x['path']).endswith('Voronoi::build_internal')])
        args = []
        for i in range(1, eb['arg_count'] + 1):
            ty = eb['locals'][i]['ty']
            args.append(I.mk_sym(nf.sym_atom('arg%d' % i), ty) if ty != 'glam::DVec3' else I.sym_vec3('arg%d' % i))
        ip.call_body(eb, args)
        ctx.evaluations += ip.evaluations
        ev = [x for x in ip.events if x.callee and strip_generics(x.callee).endswith('Voronoi::build_internal')]
        if len(ev) != 1:
            raise AnalysisIncomplete('%s: %d calls of build_internal' % (nm, len(ev)))
        m = ev[0].args[1]
        if want == 'None':
            ok = isinstance(m, I.St) and m.variant == 'None'
        else:
            maskarg = [i for i in range(1, eb['arg_count'] + 1) if eb['locals'][i]['ty'].startswith('&[bool]')]
            ok = isinstance(m, I.St) and m.variant == 'Some' and len(maskarg) == 1 and repr(I.frozen(m.fields[0])) == 'arg%d' % maskarg[0]
        others = [repr(I.frozen(a)) for a in ev[0].args]
        ctx.check(rule, '%s:mask-passed%s' % (nm.split('::')[-1], sfx), ok, repr(m)[:80], 'Some(mask)' if want == 'Some' else 'None', where(eb), key_extra='entry-mask')
    # integrator route
    r = routes.run_route(F, 'integrator')
    run = routes.cell_run(r)
    sh = stream_shape(run['stream'])
    item = run['item']

    def is_slot2(ix):
        rr = resolve_item(ix, item, sh, prefix=())
        return rr is not None and rr[0][0] == 'pos' and not rr[1]
    act = I.get_field(r.ret, 'cell_is_active')
    act_txt = repr(I.frozen(act))

    def ms_val(b_):
        def val(leaf):
            x = dtab.is_some_leaf(leaf)
            dm = dtab.is_discr_eq(leaf)
            if x is not None and repr(x) == 'mask':
                return b_
            if dm is not None and repr(dm[0]) == 'mask':
                return ((dm[1] == 1) == dm[2]) == b_
            raise AnalysisIncomplete('activity vector depends on %r' % (leaf,))
        return val
    a_some = repr(I.frozen(dtab.evaluate(act, ms_val(True))))
    a_none = repr(I.frozen(dtab.evaluate(act, ms_val(False))))
    ok_vec = a_some == 'call:std::slice::<impl [T]>::to_vec(mask.Some.0)' and a_none == 'from_elem(true, len(generators))'
    ctx.check(rule, 'integrator:activity-vector%s' % sfx, ok_vec, act_txt[:200], 'mask present: a copy of the mask; absent: all-true of generators.len()', where(r.body), key_extra='activity')
    e, T, tab = guard_table(ctx, rule, sfx, 'integrator', run, r, ('call:std::slice::<impl [T]>::to_vec(mask.Some.0)',), is_slot2)
    for env in T.rows():
        row = (env['MS'], env['MI'])
        got = tab[row] is not None
        want = (not env['MS']) or env['MI']
        ctx.check(rule, 'integrator:cell-built[%s]%s' % (dtab.fmt_env(env), sfx), got == want, 'built' if got else 'skipped', 'built' if want else 'skipped', where(e.body, e.line), key_extra='integrator:%s' % dtab.fmt_env(env))
    ridx = resolve_item(e.fargs[1], item, sh, prefix=())
    ctx.check(rule, 'integrator:builder-index-is-slot' + sfx, ridx is not None and ridx[0][0] == 'pos' and not ridx[1], repr(e.fargs[1])[-60:], 'the enumerated slot', where(e.body, e.line), key_extra='int-idx')
    # conversion route: the face rule gets Some(&self.cell_is_active)
    conv = F.body_by_suffix('VoronoiIntegrator::build_voronoi_cells')
    ip = I.Interp(F, no_inline=[x['path'] for x in F.bodies if strip_generics(x['path']).endswith('VoronoiCell::from_convex_cell')])
    me = I.Sym(nf.sym_atom('self'), 'voronoi::VoronoiIntegrator<M>')
    fv = I.Sym(nf.sym_atom('faces'), '&mut [std::vec::Vec<voronoi::voronoi_face::VoronoiFace>]')
    ip.call_body(conv, [ip.ref_to(me), fv])
    ctx.evaluations += ip.evaluations
    evs = [x for rr in ip.closure_runs for x in rr['events'] if x.callee and strip_generics(x.callee).endswith('VoronoiCell::from_convex_cell')]
    if len(evs) != 1:
        raise AnalysisIncomplete('conversion: %d calls of from_convex_cell' % len(evs))
    m = evs[0].args[2]
    ok = isinstance(m, I.St) and m.variant == 'Some' and repr(I.frozen(m.fields[0])) in ('self.cell_is_active', 'call:<std::vec::Vec<T, A> as std::ops::Deref>::deref(self.cell_is_active)')
    ctx.check(rule, 'conversion:face-rule-mask-is-activity-vector' + sfx, ok, repr(m)[:120], 'Some(&self.cell_is_active)', where(evs[0].body, evs[0].line), key_extra='conv-mask')


def r3(ctx, F, rule, sfx):
    res = c03.decision_check(ctx, F, rule, sfx, 'direct')
    c03.decision_check(ctx, F, rule, sfx, 'sym')
    if res is not None:
        # every face the rule decides to create is stored: no value-dependent filtering after the decision
        c03.stored_in_plane_order(ctx, rule, sfx, res[0], 'direct')
    # towards an unselected neighbour the face is always created by the selected side
    s = faces.site(F, 'direct')
    T, reach = faces.reached_table(s, s.creations)
    n = 0
    ok = True
    for env in T.rows():
        if env['V'] and env['RS'] and env['SN'] and env['MS'] and not env['MR']:
            n += 1
            ok = ok and reach.get(tuple(env[k] for k in T.names), 0) > 0
    ctx.check(rule, 'face-towards-unselected-always-created' + sfx, ok and n > 0, '%d rows' % n, 'created whatever the index order', where(s.body), key_extra='unselected')


def r4(ctx, F, rule, sfx):
    r = routes.run_route(F, 'direct')
    run = routes.cell_run(r)
    res = run['result']
    e = routes.one_in(run, 'ConvexCell::build')
    # one record per generator whatever the mask: the cell vector handed to the finalisation is, on every path, the collection of the per-cell
    # mapping over all slots (an early `return Vec::new()` when nothing is selected leaves unselected cells without their zero record)
    fin = [x for x in r.all_events if x.callee and strip_generics(x.callee).endswith('Voronoi::finalize')]
    if len(fin) == 1:
        cells_v = I.get_field(fin[0].fargs[0], 'voronoi_cells')
        badleaf = []
        n_leaf = 0
        for conds, leaf in cases(cells_v):
            n_leaf += 1
            ch, src = stream_chain(I.frozen(leaf))
            names = [n for n, _ in ch]
            if not (names[:1] == ['collect'] and 'map' in names and repr(src).replace(' ', '') in ('from_elem(array{},len(generators))', 'generators')):
                badleaf.append('%s when %s' % (repr(I.frozen(leaf))[:60], ' & '.join(repr(c)[:70] for c in conds) or 'always'))
        ctx.check(rule, 'direct:one-record-per-generator-on-every-path' + sfx, not badleaf and n_leaf >= 1, badleaf or '%d path(s), each the per-cell mapping collected over all slots' % n_leaf,
                  'cells == collect(map(all slots, build-or-zero)) on every path', where(fin[0].body, fin[0].line), key_extra='cells-vector')
    else:
        raise AnalysisIncomplete('finalisation calls on the direct route: %d' % len(fin))

    # the value on the "not built" rows
    def classify(leaf):
        x = dtab.is_some_leaf(leaf)
        if x is not None and repr(x) == 'mask':
            return ('MS', True)
        dm = dtab.is_discr_eq(leaf)
        if dm is not None and repr(dm[0]) == 'mask':
            return ('MS', (dm[1] == 1) == dm[2])
        if leaf.op == 'atom' and leaf.args[0].kind == 'app' and leaf.args[0].name == 'elem' and repr(leaf.args[0].args[0]) == 'mask.Some.0':
            return ('MI', True)
        return None
    T = dtab.Table(['MS', 'MI'], classify)
    tab = T.tabulate(res)
    v = tab[(True, False)]
    w = where(e.body)
    ok = isinstance(v, I.St) and all(as_rf(x).is_zero() for x in c3(I.get_field(v, 'centroid'))) and as_rf(I.get_field(v, 'volume')).is_zero()
    ctx.check(rule, 'direct:unselected-cell-is-zero' + sfx, ok, repr(v)[:160], 'volume 0, centroid 0', w, key_extra='zero-cell')
    # no write to the face vector on that arm: every event touching the item's face vector is guarded by the build guard
    sh = stream_shape(run['stream'])
    writers = []
    for x in run['events']:
        for a in x.fargs:
            try:
                rr = resolve_item(a, run['item'], sh, prefix=())
            except (TypeError, AnalysisIncomplete):
                rr = None
            if rr is not None and rr[0][0] == 'elem' and not rr[1]:
                writers.append(x)
    unguarded = []
    for x in writers:
        tb = T.tabulate(I.TRUE, x.guard)
        if tb[(True, False)] is not None:
            unguarded.append(x.callee)
    ctx.check(rule, 'direct:unselected-cell-writes-no-faces' + sfx, not unguarded and len(writers) >= 1, 'writers of the per-cell face vector: %d, reachable for an unselected cell: %s' % (len(writers), unguarded or 'none'), 'none', w, key_extra='face-writes')
    # integrator: None
    r2_ = routes.run_route(F, 'integrator')
    run2 = routes.cell_run(r2_)
    res2 = run2['result']
    txt = repr(res2)
    ok2 = isinstance(res2, I.Ite) and ((isinstance(res2.a, I.St) and res2.a.variant == 'None') or (isinstance(res2.b, I.St) and res2.b.variant == 'None'))
    ctx.check(rule, 'integrator:unselected-cell-is-None' + sfx, ok2, txt[:120], 'None on the inactive arm, Some(cell) otherwise', where(r2_.body), key_extra='none-cell')
    # conversion: None -> VoronoiCell::default()
    conv = F.body_by_suffix('VoronoiIntegrator::build_voronoi_cells')
    ip = I.Interp(F, no_inline=[x['path'] for x in F.bodies if strip_generics(x['path']).endswith('VoronoiCell::from_convex_cell')])
    me = I.Sym(nf.sym_atom('self'), 'voronoi::VoronoiIntegrator<M>')
    fv = I.Sym(nf.sym_atom('faces'), '&mut [std::vec::Vec<voronoi::voronoi_face::VoronoiFace>]')
    ip.call_body(conv, [ip.ref_to(me), fv])
    ctx.evaluations += ip.evaluations
    runs = [rr for rr in ip.closure_runs if any(x.callee and strip_generics(x.callee).endswith('VoronoiCell::from_convex_cell') for x in rr['events'])]
    if len(runs) != 1:
        raise AnalysisIncomplete('conversion closures: %d' % len(runs))
    res3 = runs[0]['result']
    zero = None
    for conds, leaf in cases(res3):
        if isinstance(leaf, I.St) and leaf.adt.endswith('VoronoiCell'):
            zero = leaf
    ok3 = zero is not None and as_rf(I.get_field(zero, 'volume')).is_zero() and all(as_rf(x).is_zero() for x in c3(I.get_field(zero, 'centroid')))
    ctx.check(rule, 'conversion:None-becomes-zero-cell' + sfx, ok3, repr(res3)[:160], 'None -> all-zero VoronoiCell', where(conv), key_extra='conv-zero')


def r5(ctx, F, rule, sfx):
    c03.r6(ctx, F, rule, sfx)
