"""Shared abstract scenarios (evaluated once per fact file and cached)."""
from .. import interp as I, nf
from ..nf import RF, as_rf
from ..tables import c3, dot3, cross3, deref
from ..facts import AnalysisIncomplete, strip_generics, calls, callee_name
from ..cfg import CFG
from .util import *

_cache = {}


def cell_type_prefix(F):
    """Def-path prefix of the inherent impl that contains the cell builder (role: the function
    that calls the clip routine in a loop)."""
    return 'voronoi::convex_cell::ConvexCell::<voronoi::convex_cell::WithoutFaces>::'


def find_builder(F):
    """Role anchor: the body with a natural loop whose body calls Iterator::next on a boxed
    neighbour stream and a crate-local function taking a HalfSpace (the clip routine)."""
    key = ('builder', id(F))
    if key in _cache:
        return _cache[key]
    cands = []
    for b in F.bodies:
        if 'convex_cell_alternative' in b['path']:
            continue
        cfg = CFG(b)
        loops = cfg.loops()
        if not loops:
            continue
        for h, L in loops.items():
            nxt = None
            clip = None
            for x in L:
                t = b['blocks'][x]['term']
                if t['k'] != 'call':
                    continue
                cn = callee_name(t)
                if cn.endswith('::next') and 'Iterator' in (t.get('callee') or '') and 'dyn' in ' '.join(t.get('arg_tys', [])):
                    nxt = (x, t)
                if (t.get('resolved_crate') == F.crate) and any(a.endswith('half_space::HalfSpace') for a in t.get('arg_tys', [])):
                    clip = (x, t)
            if nxt and clip:
                cands.append((b, cfg, h, L, nxt, clip))
    if len(cands) != 1:
        raise AnalysisIncomplete('cell builder (loop over the neighbour stream that clips) matched %d bodies' % len(cands), 'builder')
    _cache[key] = cands[0]
    return cands[0]


class BuildScenario:
    pass


def merge_same_site(events):
    """The region evaluation duplicates the tail of a loop body when an early `continue` leaves no join point inside the loop (`if a && b {
    continue }`): the same call site is then evaluated once per way of reaching it.  Evaluations of one call site with identical arguments are
    one event whose guard is the common prefix of the guards plus the disjunction of the rests."""
    groups = {}
    order = []
    for e in events:
        try:
            k = (id(e.term), tuple(I.vkey(a) for a in e.fargs))
        except TypeError:
            k = (id(e), )
        if k not in groups:
            groups[k] = []
            order.append(k)
        groups[k].append(e)
    out = []
    for k in order:
        g = groups[k]
        if len(g) == 1:
            out.append(g[0])
            continue
        gs = [e.guard for e in g]
        n = 0
        while all(len(x) > n for x in gs) and all(x[n].key() == gs[0][n].key() for x in gs):
            n += 1
        # common suffix as well (conditions tested after the paths have met again)
        m = 0
        while all(len(x) - n > m for x in gs) and all(x[len(x) - 1 - m].key() == gs[0][len(gs[0]) - 1 - m].key() for x in gs):
            m += 1
        disj = I.FALSE
        for x in gs:
            c = I.TRUE
            for y in x[n:len(x) - m]:
                c = I.b_and(c, y)
            disj = I.b_or(disj, c)
        e0 = g[0]
        e0.guard = tuple(gs[0][:n]) + (disj,) + tuple(gs[0][len(gs[0]) - m:] if m else ())
        out.append(e0)
    return out


def build_scenario(F):
    """Abstractly evaluate the cell builder once: symbolic generator position L, index idx, generator
    slice, neighbour stream and boundary.  The clip routine, the vertex constructor and the radius update
    are left uninterpreted (their own rules examine them)."""
    key = ('build', id(F))
    if key in _cache:
        return _cache[key]
    b, cfg, h, L, (nb, nt), (cb, ct) = find_builder(F)
    clip_path = ct.get('resolved') or ct.get('callee')
    no_inline = {clip_path, strip_generics(clip_path)}
    for bb in F.bodies:
        p = strip_generics(bb['path'])
        if p.endswith('Vertex::from_dual') or p.endswith('::update_safety_radius') or p.endswith('SimpleCycle::new'):
            no_inline.add(bb['path'])
            no_inline.add(p)
    ip = I.Interp(F, no_inline=no_inline)
    # arguments by type
    args = []
    names = {}
    for i in range(1, b['arg_count'] + 1):
        ty = b['locals'][i]['ty']
        if ty == 'glam::DVec3':
            v = I.sym_vec3('L')
            names['loc'] = i
        elif ty == 'usize':
            v = RF.sym('idx')
            names['idx'] = i
        elif 'Generator' in ty and ty.startswith('&'):
            v = I.Sym(nf.sym_atom('generators'), ty)
            names['generators'] = i
        elif 'dyn' in ty and 'Iterator' in ty:
            v = I.Sym(nf.sym_atom('nn'), ty)
            names['stream'] = i
        elif 'SimulationBoundary' in ty:
            bd = I.St('voronoi::boundary::SimulationBoundary', 'SimulationBoundary', {}, I.Sym(nf.sym_atom('boundary'), ty))
            v = ip.ref_to(bd, ty)
            names['boundary'] = i
        else:
            raise AnalysisIncomplete('cell builder has an argument of unexpected type %s' % ty, b['path'])
        args.append(v)
    for need in ('loc', 'idx', 'generators', 'stream', 'boundary'):
        if need not in names:
            raise AnalysisIncomplete('cell builder lacks the %s argument' % need, b['path'])
    ret, rets = ip.call_body(b, args)
    sc = BuildScenario()
    sc.body, sc.cfg, sc.header, sc.loop = b, cfg, h, L
    sc.next_block, sc.next_term, sc.clip_block, sc.clip_term = nb, nt, cb, ct
    sc.clip_path = clip_path
    sc.ip = ip
    sc.ret, sc.rets = ret, rets
    sc.L = [RF.sym('L.' + c) for c in 'xyz']
    sc.idx = RF.sym('idx')
    sc.generators = args[names['generators'] - 1]
    # events inside the loop, at builder depth
    sc.hs_events = merge_same_site([e for e in ip.events if e.callee and strip_generics(e.callee).endswith('half_space::HalfSpace::new') and e.body is b])
    sc.clip_events = merge_same_site([e for e in ip.events if e.callee == clip_path and e.body is b])
    _cache[key] = sc
    return sc


def eval_fn(F, path, args, no_inline=()):
    ip = I.Interp(F, no_inline=no_inline)
    v, rets = ip.call_body(F.body(path), args)
    return ip, v, rets
