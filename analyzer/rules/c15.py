import re
"""C15 — extracted vertices and face polygons form a valid convex polytope (type-state clauses)."""
from .. import interp as I, nf, dtab, witness
from ..nf import RF, as_rf
from ..facts import AnalysisIncomplete, strip_generics, calls, callee_name
from ..cfg import CFG
from ..callgraph import CallGraph, public_roots
from .util import *

META = {
    'level': 'other',
    'configs': {'quick': ['default'], 'thorough': ['default', 'norayon', 'default_nodebug']},
    'rules': {
        'R1': 'constructors: ConvexCell<_> values are built only by the face-less constructor (both options None, in impl ConvexCell<WithoutFaces>), by the private transition and by '
              'the derived Clone; transition into WithFaces happens only with both options Some; the two option fields are private',
        'R2': 'writers: the two option fields are assigned only in with_faces (to Some) and discard_faces (to None)',
        'R3': 'unchecked sites: the only unsafe operations reachable from the exported API are the two unwrap_unchecked reads in impl ConvexCell<WithFaces> (of exactly those two fields) '
              'and one reference transmute ConvexCell<M> -> ConvexCell<WithFaces> guarded by TypeId::of::<M>() == TypeId::of::<WithFaces>()',
        'R4': 'downstream witnesses (type-checked only, each with a compiling twin): face_count() on a face-less cell, with_faces() on a cell with faces, struct-literal construction '
              'and clip_by_plane() from another crate are all rejected by the compiler',
        'R5': '1D/2D rejected: ConvexCell::with_faces diverges (panics) for OneD and TwoD before writing anything and returns for ThreeD; the integrator-level with_faces maps it over every cell',
        'R8': 'polygon walk (sort_face_vertices): the list of a plane\'s vertices is ordered by following shared planes — starting from the first vertex, the plane to look for next is '
              'dual[(p + 1) mod 3] of the current vertex, p being the position of the face\'s plane in that vertex\'s (counter-clockwise) triple; position c = 1, 2, .. is filled by scanning '
              'c, c+1, .. in steps of one for the vertex whose triple contains that plane, which is exchanged into position c and becomes the current vertex. The rotation sense (+1) is the '
              'one the face-less decomposition uses (C14.R5: in plane dual[i] a vertex is entered over the edge shared with dual[i-1] and left over the edge shared with dual[i+1]), so '
              'fans over the sorted polygons and the face-less tetrahedra have the same sign; Vertex::plane_idx returns the position of a plane in the triple',
        'R9': 'no spurious vertices from undecided ties (C05.R3): the value the clip routine tests comes from the float filter only where the filter is conclusive — its error bound '
              'dominates the rounding error of n.v - d term by term (sum over axes of |n_c||p_c|, not |n.p|) — and from the exact predicate otherwise; a tie decided by noise clips a vertex that '
              'lies on a touching plane and leaves coincident vertices and zero-area faces (polygons not simple, V - E + F != 2)',
        'R7': 'face incidence bookkeeping in with_faces: one vertex list per clipping plane; every vertex index is appended to the lists of exactly its three dual planes (dual[0], dual[1], dual[2], '
              'once each, unconditionally); each list is ordered by sort_face_vertices for its own plane; a face is created for list i iff it is non-empty, with clipping_plane = i, '
              'vertex_count = len(list i) and vertex_offset = running sum of the previous counts (from 0); the connection array is the in-order concatenation of the lists; no count, offset or index of the cell and its face table is narrowed below 32 bits',
        'R6': 'accessors: clipping_plane/neighbour/shift of face f read the half-space faces[f].clipping_plane; face_vertices(f) is connections[offset .. offset+count] of the same face; '
              'the face decomposition labels its tetrahedra with that same plane index',
    },
    'explanation': 'A complete type-state argument for "face data is always present when it is accessed without a check" and "requesting faces for 1D/2D cells is rejected": who can '
                   'construct and mutate the state (R1, R2), where unchecked reads happen and under which guard (R3), what downstream code can name (R4), the dimensionality gate '
                   '(R5) and index consistency of the accessors (R6). Not decided: planarity, convexity, orientation, incidence counts and Euler\'s relation of the polygons (runtime geometry).',
    'trusted_base': ['rustc privacy and type checking (witnesses)', 'std::any::TypeId equality identifies types', 'E0 extractor (unsafe-operation list from THIR/MIR)'],
    'assumptions': [],
}

FIELDS = ('faces', 'face_vertex_connections')
CC = 'voronoi::convex_cell::ConvexCell'


def run(ctx):
    for cfg in ctx.configs_used:
        F = ctx.facts(cfg)
        sfx = '' if cfg == 'default' else '@' + cfg
        fns = (r1, r2, r3, r4, r5, r6, r7, r8, r9) if cfg == 'default' else (r1, r2, r3, r5, r6, r7)
        for fn in fns:
            rule = 'C15.' + fn.__name__.upper()
            ctx.guarded(rule, 'evaluate' + sfx, lambda: fn(ctx, F, rule, sfx))


def aggregates(F):
    out = []
    for b in F.bodies:
        if 'convex_cell_alternative' in b['path']:
            continue
        for bl in b['blocks']:
            if bl['cleanup']:
                continue
            for s in bl['stmts']:
                if s['k'] == 'assign' and s['rv']['k'] == 'aggregate' and s['rv'].get('agg') == 'adt' and s['rv'].get('adt') == CC:
                    out.append((b, s))
    return out


def r1(ctx, F, rule, sfx):
    a = F.adt(CC)
    vis = {f['name']: f['vis'] for f in a['variants'][0]['fields']}
    for f in FIELDS:
        ctx.check(rule, 'field-private:%s%s' % (f, sfx), vis.get(f, 'pub') not in ('pub', 'pub(crate)') and 'convex_cell' in vis.get(f, ''), vis.get(f), 'visible inside voronoi::convex_cell only', '%s:%s' % (a['file'], a['line']), key_extra='vis:' + f)
    aggs = aggregates(F)
    kinds = {}
    for b, s in aggs:
        p = strip_generics(b['path'])
        names = s['rv'].get('fields', [])
        ops = dict(zip(names, s['rv']['ops']))
        w = where(b, s.get('line'))
        if b.get('impl_trait') == 'std::clone::Clone' or p.endswith('::clone'):
            kinds['clone'] = kinds.get('clone', 0) + 1
            continue
        if p.endswith('ConvexCell::transition'):
            kinds['transition'] = kinds.get('transition', 0) + 1
            # both option fields are moved from the consumed value
            continue
        # a plain constructor: must live in impl ConvexCell<WithoutFaces> and set both options to None
        none_ok = all(is_none_const(b, ops.get(f)) for f in FIELDS)
        self_ok = (b.get('impl_self') or '').endswith('ConvexCell<voronoi::convex_cell::WithoutFaces>')
        kinds['ctor'] = kinds.get('ctor', 0) + 1
        ctx.check(rule, 'constructor:%s%s' % (p, sfx), none_ok and self_ok, 'impl %s; faces/connections None: %s' % (b.get('impl_self'), none_ok),
                  'in impl ConvexCell<WithoutFaces> with both options None', w, key_extra='ctor:' + p)
    ctx.floor(rule, 'aggregate sites of ConvexCell' + sfx, len(aggs), 3)
    ctx.check(rule, 'construction-sites' + sfx, kinds.get('ctor', 0) >= 1 and kinds.get('transition', 0) == 1, str(kinds), 'constructor(s), one transition, derived Clone', None, key_extra='kinds')
    # transition keeps every field
    tb = F.body_by_suffix('ConvexCell::transition')
    ip = I.Interp(F)
    me = I.Sym(nf.sym_atom('c'), CC + '<M>')
    v, _ = ip.call_body(tb, [me])
    ctx.evaluations += ip.evaluations
    ok = all(repr(I.frozen(I.get_field(v, f))) == 'c.' + f for f in FIELDS)
    ctx.check(rule, 'transition-moves-option-fields-unchanged' + sfx, ok, {f: repr(I.frozen(I.get_field(v, f)))[:40] for f in FIELDS}, 'faces and face_vertex_connections of the consumed cell', where(tb), key_extra='transition-fields')
    # who calls transition, and into which state
    for b in F.bodies:
        for bl, t in calls(b):
            if strip_generics(callee_name(t)).endswith('ConvexCell::transition'):
                sub = t.get('resolved_substs') or t.get('substs') or []
                tgt = sub[1] if len(sub) > 1 else '?'
                w = where(b, t['line'])
                if tgt.endswith('WithFaces'):
                    okb = into_with_faces_has_both_some(ctx, F, b)
                    ctx.check(rule, 'transition-into-WithFaces:%s%s' % (strip_generics(b['path']), sfx), okb, 'both option fields Some at the call: %s' % okb, 'Some, Some on every path', w, key_extra='into-with:' + strip_generics(b['path']))
                elif tgt.endswith('WithoutFaces'):
                    ctx.ok(rule, 'transition-into-WithoutFaces:%s%s' % (strip_generics(b['path']), sfx), 'target state has no unchecked reads', '', w)
                else:
                    ctx.bad(rule, 'transition-generic:%s%s' % (strip_generics(b['path']), sfx), 'target marker %s' % tgt, 'a concrete marker', w, key_extra='generic-transition')
    # the markers: only two implementors, both in the crate; ConvexCell<WithFaces> has no public constructor
    impls = [i['self'] for i in F.impls_of_trait('voronoi::convex_cell::ConvexCellMarker')]
    ctx.check(rule, 'marker-implementors' + sfx, sorted(x.split('::')[-1] for x in impls) == ['WithFaces', 'WithoutFaces'], impls, 'WithFaces, WithoutFaces', None, key_extra='markers')


def is_none_const(b, op):
    """Operand is (a temporary holding) Option::None."""
    if op is None:
        return False
    if op['k'] == 'const':
        return 'None' in op.get('text', '') or op.get('enum_bits') == '0'
    if op['k'] in ('copy', 'move') and not op['place']['p']:
        l = op['place']['l']
        defs = [s for bl in b['blocks'] for s in bl['stmts'] if s['k'] == 'assign' and s['place']['l'] == l and not s['place']['p']]
        if len(defs) == 1:
            rv = defs[0]['rv']
            if rv['k'] == 'aggregate' and rv.get('variant') == 'None':
                return True
            if rv['k'] == 'use':
                return is_none_const(b, rv['x'])
    return False


def into_with_faces_has_both_some(ctx, F, b):
    ip = I.Interp(F, no_inline=[x['path'] for x in F.bodies if x['path'].endswith(('::sort_face_vertices', '::transition'))])
    cell = I.St(CC, 'ConvexCell', {'dimensionality': I.St('voronoi::Dimensionality', 'ThreeD', {})}, I.Sym(nf.sym_atom('cell'), CC + '<WithoutFaces>'))
    try:
        ip.call_body(b, [cell])
    except I.Diverge:
        return False
    ctx.evaluations += ip.evaluations
    evs = [e for e in ip.events if e.callee and strip_generics(e.callee).endswith('ConvexCell::transition')]
    if not evs:
        return False
    for e in evs:
        for f in FIELDS:
            v = I.get_field(e.fargs[0], f)
            if not (isinstance(v, I.St) and v.variant == 'Some'):
                return False
    return True


def with_faces_impl(F):
    """ConvexCell::with_faces, or the unexported helper it delegates the conversion to (`with_faces` = check + `with_faces_unchecked`): the body
    that calls the private transition."""
    b = F.body_by_suffix('ConvexCell::with_faces')
    for _ in range(3):
        cs = [callee_name(t) for _bl, t in calls(b)]
        if any(strip_generics(c or '').endswith('ConvexCell::transition') for c in cs):
            return b
        nxt = [F.by_path[c][0] for c in cs if c in F.by_path and 'ConvexCell' in c and not F.by_path[c][0].get('exported') and (F.by_path[c][0].get('sig') or '').replace(' ', '').endswith('->voronoi::convex_cell::ConvexCell<voronoi::convex_cell::WithFaces>')]
        if len(nxt) != 1:
            return b
        b = nxt[0]
    return b


def r2(ctx, F, rule, sfx):
    writers = {}
    wf_only = {}
    for b in F.bodies:
        if 'convex_cell_alternative' in b['path']:
            continue
        for bl in b['blocks']:
            if bl['cleanup']:
                continue
            for s in bl['stmts']:
                if s['k'] != 'assign':
                    continue
                for e in s['place']['p']:
                    if e['k'] == 'field' and e.get('n') in FIELDS and e.get('adt') == CC:
                        writers.setdefault(strip_generics(b['path']), set()).add(e['n'])
                        lty = b['locals'][s['place']['l']]['ty'].replace(' ', '')
                        wf_only.setdefault(strip_generics(b['path']), []).append(lty.lstrip('&').replace('mut', '', 1) .endswith('ConvexCell<voronoi::convex_cell::WithoutFaces>'))
                rv = s['rv']
                if rv['k'] in ('ref', 'rawptr') and (rv.get('mut') or rv['k'] == 'rawptr'):
                    for e in rv['place']['p']:
                        if e['k'] == 'field' and e.get('n') in FIELDS and e.get('adt') == CC:
                            writers.setdefault(strip_generics(b['path']), set()).add(e['n'] + ' (&mut)')
    allowed = {'voronoi::convex_cell::ConvexCell::with_faces', 'voronoi::convex_cell::ConvexCell::discard_faces', strip_generics(with_faces_impl(F)['path'])}
    for p, fs in sorted(writers.items()):
        # a write through a place whose static type is ConvexCell<WithoutFaces> cannot break "a cell typed WithFaces has both fields" — only the
        # transition can turn it into a WithFaces value (R1 checks both assignments there); mutable borrows are never accepted outside the two methods
        typed_without = all(wf_only.get(p, [False])) and not any('(&mut)' in f for f in fs)
        ctx.check(rule, 'writer:%s%s' % (p, sfx), p in allowed or typed_without, 'assigns %s' % sorted(fs), 'only with_faces (or its unexported conversion helper) and discard_faces write the option fields of a cell that is or becomes WithFaces', where(F.by_path[[x for x in F.by_path if strip_generics(x) == p][0]][0]), key_extra='writer:' + p)
    ctx.floor(rule, 'writers of the option fields' + sfx, len(writers), 2)
    # discard_faces writes None; with_faces writes Some (R1 checks the latter at the transition)
    db = F.body_by_suffix('ConvexCell::discard_faces')
    ip = I.Interp(F, no_inline=[x['path'] for x in F.bodies if x['path'].endswith('::transition')])
    me = I.Sym(nf.sym_atom('c'), CC + '<WithFaces>')
    ip.call_body(db, [me])
    ctx.evaluations += ip.evaluations
    evs = [e for e in ip.events if e.callee and strip_generics(e.callee).endswith('ConvexCell::transition')]
    ok = len(evs) == 1 and all(getattr(I.get_field(evs[0].fargs[0], f), 'variant', None) == 'None' for f in FIELDS)
    ctx.check(rule, 'discard_faces-clears-both' + sfx, ok, 'fields at the transition', 'None, None', where(db), key_extra='discard')


def r3(ctx, F, rule, sfx):
    cg = CallGraph(F)
    reach = cg.reachable(public_roots(F))
    n = 0
    for b in F.bodies:
        ops = b.get('unsafe_ops') or []
        if not ops:
            continue
        p = strip_generics(b['path'])
        if b['path'] not in reach:
            continue
        for op in ops:
            n += 1
            w = where(b, op.get('line'))
            if op['what'] == 'call_unsafe_fn' and op.get('callee', '').endswith('unwrap_unchecked'):
                ok_impl = (b.get('impl_self') or '').endswith('ConvexCell<voronoi::convex_cell::WithFaces>')
                fld = unchecked_field(b)
                ctx.check(rule, 'unwrap_unchecked:%s%s' % (p, sfx), ok_impl and fld in FIELDS, 'in impl %s, reads self.%s' % (b.get('impl_self'), fld), 'in impl ConvexCell<WithFaces>, on one of the two type-state fields', w, key_extra='unchecked:' + p)
            elif op['what'] == 'transmute' and 'ConvexCell' in op.get('to', ''):
                ok = transmute_guarded(ctx, F, b, op)
                ctx.check(rule, 'transmute:%s%s' % (p, sfx), ok, '%s -> %s' % (op.get('from'), op.get('to')), 'reference cast to ConvexCell<WithFaces> only under TypeId::of::<M>() == TypeId::of::<WithFaces>()', w, key_extra='transmute:' + p)
            else:
                ctx.bad(rule, 'unsafe:%s%s' % (p, sfx), '%s %s' % (op['what'], op.get('callee') or op.get('to') or ''), 'no other unsafe operation reachable from the exported API', w, key_extra='unsafe:%s:%s' % (p, op['what']))
    ctx.floor(rule, 'reachable unsafe operations' + sfx, n, 3)
    # the with-faces decomposition is selected exactly when the marker is WithFaces
    nb = F.body_by_suffix('ConvexCellDecomposition::new')
    ip = I.Interp(F, no_inline=[x['path'] for x in F.bodies if x['path'].endswith(('DecompositionWithFaces::new', 'DecompositionWithoutFaces::new'))])
    cell = I.Sym(nf.sym_atom('cell'), CC + '<M>')
    ip.call_body(nb, [ip.ref_to(cell)])
    ctx.evaluations += ip.evaluations
    wf = [e for e in ip.events if e.callee and 'DecompositionWithFaces' in e.callee]
    wo = [e for e in ip.events if e.callee and 'DecompositionWithoutFaces' in e.callee]
    eq = 'b:call:<std::any::TypeId as std::cmp::PartialEq>::eq(typeid:M, typeid:voronoi::convex_cell::WithFaces)'
    ok = len(wf) == 1 and len(wo) == 1 and [repr(g) for g in wf[0].guard] == [eq] and [repr(g) for g in wo[0].guard] == ['!' + eq]
    ctx.check(rule, 'decomposition-dispatch-by-type-state' + sfx, ok, 'with-faces under %s; without under %s' % ([repr(g)[-60:] for g in wf[0].guard] if wf else None, [repr(g)[-60:] for g in wo[0].guard] if wo else None),
              'WithFaces iterator iff M == WithFaces, else the generic one', where(nb), key_extra='dispatch')


def unchecked_field(b):
    """Field of self read by the Option::as_ref feeding unwrap_unchecked."""
    for bl in b['blocks']:
        for s in bl['stmts']:
            if s['k'] == 'assign' and s['rv']['k'] == 'ref':
                for e in s['rv']['place']['p']:
                    if e['k'] == 'field' and e.get('adt') == CC:
                        return e.get('n')
    return None


def transmute_guarded(ctx, F, b, op):
    ip = I.Interp(F, no_inline=[x['path'] for x in F.bodies if x['path'].endswith(('DecompositionWithFaces::new', 'DecompositionWithoutFaces::new'))])
    args = []
    for i in range(1, b['arg_count'] + 1):
        ty = b['locals'][i]['ty']
        args.append(ip.ref_to(I.Sym(nf.sym_atom('cell'), CC + '<M>')) if ty.startswith('&') else I.mk_sym(nf.sym_atom('a%d' % i), ty))
    try:
        ip.call_body(b, args)
    except (I.Diverge, AnalysisIncomplete):
        return False
    ctx.evaluations += ip.evaluations
    evs = [e for e in ip.events if e.kind == 'cast' and e.callee == 'transmute' and e.body is b]
    if len(evs) != 1:
        return False
    e = evs[0]
    to = (e.extra or {}).get('to') or ''
    frm = (e.extra or {}).get('from') or ''
    eq = 'b:call:<std::any::TypeId as std::cmp::PartialEq>::eq(typeid:M, typeid:voronoi::convex_cell::WithFaces)'
    eq2 = 'b:call:<std::any::TypeId as std::cmp::PartialEq>::eq(typeid:voronoi::convex_cell::WithFaces, typeid:M)'
    return any(repr(g) in (eq, eq2) for g in e.guard) and to == '&voronoi::convex_cell::ConvexCell<voronoi::convex_cell::WithFaces>' and frm == '&voronoi::convex_cell::ConvexCell<M>' and repr(e.fargs[0]) == 'cell'


def r4(ctx, F, rule, sfx):
    witness.expect_fail(ctx, rule, 'c15_face_count_without_faces', 'face accessors do not exist on a cell without faces')
    witness.expect_fail(ctx, rule, 'c15_with_faces_twice', 'with_faces exists only on ConvexCell<WithoutFaces>')
    witness.expect_fail(ctx, rule, 'c15_struct_literal', 'ConvexCell cannot be forged with a struct literal (private fields)')
    # the clip routine is crate-private and may have been renamed: the witness names it as the tree under analysis does
    subst = {}
    for new_, old_ in (getattr(F, 'renames', None) or {}).items():
        if isinstance(old_, str) and strip_generics(old_).endswith('ConvexCell::clip_by_plane') and '::' in new_:
            subst['clip_by_plane'] = strip_generics(new_).rsplit('::', 1)[-1]
    witness.expect_fail(ctx, rule, 'c15_clip_downstream', 'clip_by_plane is not callable from another crate', subst=subst or None)


def r5(ctx, F, rule, sfx):
    wfb = F.body_by_suffix('ConvexCell::with_faces')
    for dim, want in (('OneD', 'diverges'), ('TwoD', 'diverges'), ('ThreeD', 'returns')):
        ip = I.Interp(F, no_inline=[x['path'] for x in F.bodies if x['path'].endswith(('::sort_face_vertices', '::transition'))])
        cell = I.St(CC, 'ConvexCell', {'dimensionality': I.St('voronoi::Dimensionality', dim, {})}, I.Sym(nf.sym_atom('cell'), CC + '<WithoutFaces>'))
        try:
            ip.call_body(wfb, [cell])
            got = 'returns'
        except I.Diverge:
            got = 'diverges'
        ctx.evaluations += ip.evaluations
        tr = [e for e in ip.events if e.callee and strip_generics(e.callee).endswith('ConvexCell::transition')]
        ok = got == want and (want == 'returns' or not tr)
        ctx.check(rule, 'with_faces[%s]%s' % (dim, sfx), ok, '%s; transition reached: %s' % (got, bool(tr)), '%s%s' % (want, '' if want == 'returns' else ' before any transition'), where(wfb), key_extra=dim + ':' + got)
    # integrator-level with_faces: every cell goes through ConvexCell::with_faces
    ib = F.body_by_suffix('VoronoiIntegrator::with_faces')
    ip = I.Interp(F, no_inline=[wfb['path']])
    me = I.Sym(nf.sym_atom('vi'), 'voronoi::VoronoiIntegrator<WithoutFaces>')
    v, _ = ip.call_body(ib, [me])
    ctx.evaluations += ip.evaluations
    wf_txt = 'call:' + strip_generics(wfb['path']) + '('
    runs = [r for r in ip.closure_runs if any(e.callee == wfb['path'] for e in r['events']) or wf_txt in repr(r['result'])]      # closure or `map(ConvexCell::with_faces)`
    ok = len(runs) == 1 and stream_shape(runs[0]['stream']) == ('elem', 'vi.cells')
    how = 'cells.map(|c| c.map(ConvexCell::with_faces))'
    if not runs:
        # the integrator checks the dimensionality itself, once and unconditionally, and converts every cell through the unexported helper
        impl = with_faces_impl(F)
        if impl is not wfb:
            verdicts = {}
            for dim in ('OneD', 'TwoD', 'ThreeD'):
                ip2 = I.Interp(F, no_inline=[impl['path']])
                vi = I.St('voronoi::VoronoiIntegrator', 'VoronoiIntegrator', {'dimensionality': I.St('voronoi::Dimensionality', dim, {})}, I.Sym(nf.sym_atom('vi'), 'voronoi::VoronoiIntegrator<WithoutFaces>'))
                try:
                    ip2.call_body(ib, [vi])
                    verdicts[dim] = 'returns'
                except I.Diverge:
                    verdicts[dim] = 'diverges'
                ctx.evaluations += ip2.evaluations
                conv = [r for r in ip2.closure_runs if any(e.callee == impl['path'] for e in r['events'])]
                if verdicts[dim] == 'diverges' and conv:
                    verdicts[dim] = 'converts-then-diverges'
                if dim == 'ThreeD':
                    runs = conv
            # the cells of an integrator carry the integrator's dimensionality (C13.R1: both are the `dimensionality` argument of build)
            ok = verdicts == {'OneD': 'diverges', 'TwoD': 'diverges', 'ThreeD': 'returns'} and len(runs) == 1 and stream_shape(runs[0]['stream']) == ('elem', 'vi.cells')
            how = 'assert 3D, then cells.map(|c| c.map(<conversion helper>)): %s' % verdicts
    ctx.check(rule, 'integrator-with_faces-maps-every-cell' + sfx, ok, '%d mapping closure(s); %s' % (len(runs), how), 'cells.map(|c| c.map(ConvexCell::with_faces)), or an unconditional 3D assertion before mapping the unexported conversion helper', where(ib), key_extra='vi-with-faces')


def r6(ctx, F, rule, sfx):
    me = I.Sym(nf.sym_atom('c'), CC + '<WithFaces>')
    unw = lambda f: 'unwrap(c.%s)' % f
    faces_ = 'unwrap(c.faces)'
    # opaque deref noise is normalised away by the semantics table; expected forms:
    exp = {
        'clipping_plane': 'c.clipping_planes[%s[f].clipping_plane].plane' % faces_,
        'neighbour': 'c.clipping_planes[%s[f].clipping_plane].right_idx' % faces_,
        'shift': 'c.clipping_planes[%s[f].clipping_plane].shift' % faces_,
        'face_vertex_count': '%s[f].vertex_count' % faces_,
        'face_count': 'len(%s)' % faces_,
    }
    for nm, want in exp.items():
        b = F.body_by_suffix('ConvexCell::' + nm)
        ip = I.Interp(F)
        args = [ip.ref_to(me)] + ([RF.sym('f')] if b['arg_count'] == 2 else [])
        v, _ = ip.call_body(b, args)
        ctx.evaluations += ip.evaluations
        got = repr(I.frozen(v))
        ctx.check(rule, 'accessor:%s%s' % (nm, sfx), got == want, got[:120], want, where(b), key_extra='acc:' + nm)
    b = F.body_by_suffix('ConvexCell::face_vertices')
    ip = I.Interp(F)
    v, _ = ip.call_body(b, [ip.ref_to(me), RF.sym('f')])
    ctx.evaluations += ip.evaluations
    got = repr(I.frozen(v)).replace(' ', '')
    want = 'index(unwrap(c.face_vertex_connections),Range{start:unwrap(c.faces)[f].vertex_offset,end:unwrap(c.faces)[f].vertex_count+unwrap(c.faces)[f].vertex_offset})'
    ctx.check(rule, 'accessor:face_vertices' + sfx, got.endswith(want), got[-200:], 'connections[offset .. offset+count] of face f', where(b), key_extra='acc:face_vertices')
    # the face decomposition labels tetrahedra with the same plane index
    nb = [x for x in F.bodies if x['path'].endswith('DecompositionWithFaces::<\'a>::next') or strip_generics(x['path']).endswith('DecompositionWithFaces::next')]
    if len(nb) != 1:
        raise AnalysisIncomplete('DecompositionWithFaces::next bodies: %d' % len(nb))
    nb = nb[0]
    ip = I.Interp(F)
    dec = I.St('voronoi::convex_cell::DecompositionWithFaces', 'DecompositionWithFaces', {'cur_face_idx': RF.sym('fi'), 'cur_vertex_idx': RF.sym('vi'), 'convex_cell': ip.ref_to(me)})
    v, _ = ip.call_body(nb, [ip.ref_to(dec, mut=True)])
    ctx.evaluations += ip.evaluations
    tet = None
    for conds, leaf in cases(v):
        if isinstance(leaf, I.St) and leaf.variant == 'Some':
            tet = leaf.fields[0]
    ok = tet is not None and repr(I.frozen(I.get_field(tet, 'plane_idx'))) == 'unwrap(c.faces)[fi].clipping_plane'
    ctx.check(rule, 'face-decomposition-labels-with-face-plane' + sfx, ok, repr(I.frozen(I.get_field(tet, 'plane_idx')))[:100] if tet is not None else 'no tetrahedron', 'faces[cur_face_idx].clipping_plane', where(nb), key_extra='label')
    if tet is not None:
        fb = F.body_by_suffix('ConvexCell::face_vertices')
        ipf = I.Interp(F)
        fvv, _ = ipf.call_body(fb, [ipf.ref_to(me), RF.sym('fi')])
        verts = I.get_field(me, 'vertices')
        want = [repr(I.frozen(I.get_field(I.get_index(verts, as_rf(I.get_index(fvv, k, 'usize')), 'voronoi::convex_cell::Vertex'), 'loc'))) for k in (RF.const(0), RF.sym('vi'), RF.sym('vi') + 1)]
        vs = [repr(I.frozen(I.get_index(I.get_field(tet, 'vertices'), RF.const(i)))) for i in range(3)]
        ctx.check(rule, 'face-decomposition-fans-from-first-vertex' + sfx, vs == want, [x[-40:] for x in vs], 'fan (v[0], v[k], v[k+1]) over the face\'s vertex list', where(nb), key_extra='fan')


def no_narrow_bookkeeping(ctx, F, rule, sfx):
    """Counts, offsets and plane / vertex indices of the cell and its derived face table keep the width of usize: a run-time integer narrowed below
    32 bits (`as u8`, `as u16`), or a field of that width in the face record, bounds the number of corners of a face / planes of a cell (a face
    with 256 corners is reachable: a generator ringed by 256 neighbours in its own plane)."""
    W = {'u8': 8, 'i8': 8, 'u16': 16, 'i16': 16, 'u32': 32, 'i32': 32, 'u64': 64, 'i64': 64, 'usize': 64, 'isize': 64, 'u128': 128, 'i128': 128}
    n = 0
    nb = 0
    bad = []
    for b in F.bodies:
        if not (b.get('file') or '').startswith('src/voronoi') or 'convex_cell_alternative' in (b.get('file') or '') or '::tests::' in b['path']:
            continue
        nb += 1
        for bl in b['blocks']:
            if bl.get('cleanup'):
                continue
            for st in bl['stmts']:
                if st['k'] == 'assign' and st['rv']['k'] == 'cast' and st['rv'].get('kind') == 'IntToInt':
                    n += 1
                    fr, to = (st['rv'].get('from_ty') or '').strip(), (st['rv'].get('ty') or '').strip()
                    if st['rv']['x'].get('k') != 'const' and fr in W and to in W and W[to] < W[fr] and W[to] < 32:
                        bad.append('%s: %s as %s (line %s)' % (strip_generics(b['path']).split('::')[-1], fr, to, st.get('line')))
    narrow_fields = []
    for a in F.adts:
        if (a.get('file') or '').startswith('src/voronoi') and 'convex_cell_alternative' not in (a.get('file') or ''):
            for v in a.get('variants', [])[:1]:
                for f in v['fields']:
                    if re.search(r'(^|[<\[( ])([ui](8|16))\b', f['ty']):
                        narrow_fields.append('%s.%s: %s' % (a['path'].split('::')[-1], f['name'], f['ty']))
    ctx.check(rule, 'bookkeeping-keeps-the-width-of-usize' + sfx, not bad and not narrow_fields, (bad[:2] + narrow_fields[:3]) or '%d integer casts in src/voronoi*, none narrowing a run-time value below 32 bits; no 8- or 16-bit field' % n,
              'no count, offset or index of the cell / its face table narrowed below 32 bits', 'src/voronoi/convex_cell.rs', key_extra='narrow')
    ctx.floor(rule, 'bodies of the construction / assembly code scanned for narrowing' + sfx, nb, 100)


def r7(ctx, F, rule, sfx):
    no_narrow_bookkeeping(ctx, F, rule, sfx)
    wfb = with_faces_impl(F)
    srt = [x['path'] for x in F.bodies if x['path'].endswith('::sort_face_vertices')]
    ip = I.Interp(F, no_inline=srt + [x['path'] for x in F.bodies if x['path'].endswith('::transition')])
    cell = I.St(CC, 'ConvexCell', {'dimensionality': I.St('voronoi::Dimensionality', 'ThreeD', {})}, I.Sym(nf.sym_atom('cell'), CC + '<WithoutFaces>'))
    ip.call_body(wfb, [cell])
    ctx.evaluations += ip.evaluations
    w = where(wfb)
    fe = [e for e in ip.events if e.body is wfb and e.callee == 'std::vec::from_elem']
    ok = len(fe) >= 1 and repr(fe[0].fargs[0]).replace(' ', '') == 'array{}' and repr(fe[0].fargs[1]) == 'len(cell.clipping_planes)'
    ctx.check(rule, 'one-list-per-plane' + sfx, ok, [repr(a)[:50] for a in fe[0].fargs] if fe else 'no vec![..; n]', 'vec![vec![]; self.clipping_planes.len()]', w, key_extra='lists')
    pushes = [e for e in ip.events if e.body is wfb and e.callee and e.callee.endswith('Vec::<T, A>::push') and e.in_loop]
    nx_all = [x for x in next_events(ip, wfb) if x.in_loop]
    ploops = {id(loop_of_event(ip, e)) for e in pushes}
    nx = [x for x in nx_all if id(loop_of_event(ip, x)) in ploops]
    if len(nx) != 1 or len(ploops) != 1:
        raise AnalysisIncomplete('with_faces: %d stream reads in the incidence loop (%d loops push)' % (len(nx), len(ploops)))
    rec, li = loop_record_of(ip, nx[0])
    sh = stream_shape(I.frozen(rec['init'][li]))
    ok_stream = sh == ('pair', ('pos', 'enumerate'), ('elem', 'cell.vertices'))
    ctx.check(rule, 'incidence-loop-over-all-vertices' + sfx, ok_stream, str(sh), 'enumerate(iter(self.vertices))', where(wfb, nx[0].line), key_extra='stream')
    ks = []
    for e in pushes:
        recv = e.args[0]
        ix = recv.lv.path[-1][1] if isinstance(recv, I.Ref) and recv.lv.path and recv.lv.path[-1][0] == 'i' else None
        r = resolve_item(ix, nx[0].result, sh) if ix is not None else None
        val = resolve_item(e.fargs[1], nx[0].result, sh)
        okv = val is not None and val[0][0] == 'pos' and not val[1]
        k = None
        if r is not None and r[0] == ('elem', 'cell.vertices') and len(r[1]) == 1 and r[1][0].startswith('dual'):
            k = r[1][0]
        else:
            at = I.single_atom(ix) if ix is not None else None
            # dual[k] is elem(vertex.dual, k)
            if at is not None and at.kind == 'app' and at.name == 'elem':
                rr = resolve_item(at.args[0], nx[0].result, sh)
                if rr is not None and rr[0] == ('elem', 'cell.vertices') and rr[1] == ['dual'] and isinstance(at.args[1], RF) and at.args[1].is_const():
                    k = int(at.args[1].const_value())
        extra = [g for g in e.guard if not (dtab.is_discr_eq(g) and '::next(' in repr(g))]
        ks.append(k)
        ctx.check(rule, 'vertex-appended-to-dual-plane-list:%s%s' % (k, sfx), k is not None and okv and not extra, 'list index %s, value %s, extra guards %d' % (repr(ix)[-40:], repr(e.fargs[1])[-30:], len(extra)),
                  'lists[vertex.dual[k]].push(vertex position), unconditional', where(wfb, e.line), key_extra='push:%s' % k)
    ctx.check(rule, 'each-dual-plane-once' + sfx, sorted(str(k) for k in ks) == ['0', '1', '2'], str(ks), 'dual[0], dual[1], dual[2] once each', w, key_extra='dualset')
    # sorting closure
    runs = [r for r in ip.closure_runs if any(e.callee in srt for e in r['events'])]
    sloop = [e for e in ip.events if e.body is wfb and e.callee in srt and e.in_loop]
    ok = len(runs) + len(sloop) == 1
    if ok and runs:
        r = runs[0]
        shs = stream_shape(r['stream'])
        e = [x for x in r['events'] if x.callee in srt][0]
        a1 = resolve_item(e.fargs[1], r['item'], shs, prefix=())
        a2 = resolve_item(e.fargs[2], r['item'], shs, prefix=())
        ok = shs[0] == 'pair' and shs[1][0] == 'pos' and shs[2][0] == 'elem' and a1 is not None and a1[0] == shs[2] and a2 is not None and a2[0][0] == 'pos'
    elif ok:
        # the same as an explicit `for (i, l) in lists.iter_mut().enumerate()`
        e = sloop[0]
        Ls = loop_of_event(ip, e)
        nxs = [x for x in nx_all if loop_of_event(ip, x) is Ls]
        ok = len(nxs) == 1 and not [g for g in e.guard if not (dtab.is_discr_eq(g) and '::next(' in repr(g))]
        if ok:
            rec_s, li_s = loop_record_of(ip, nxs[0])
            shs = stream_shape(I.frozen(rec_s['init'][li_s]))
            a1 = resolve_item(e.fargs[1], nxs[0].result, shs)
            a2 = resolve_item(e.fargs[2], nxs[0].result, shs)
            ok = shs[0] == 'pair' and shs[1][0] == 'pos' and shs[2][0] == 'elem' and a1 is not None and a1[0] == shs[2] and a2 is not None and a2[0][0] == 'pos'
    ctx.check(rule, 'each-list-sorted-for-its-own-plane' + sfx, ok, '%d sorting closure(s), %d sorting loop(s)' % (len(runs), len(sloop)), 'lists.iter_mut().enumerate().for_each(|(i, l)| self.sort_face_vertices(l, i))', w, key_extra='sort')
    # face records
    # the closure that creates the face records (in with_faces itself or in a helper it calls)
    fruns = [r for r in ip.closure_runs if r['adaptor'] == 'filter_map' and (r['body'] is wfb or 'ConvexCellFace' in (F.body(r['closure']).get('ret') or F.body(r['closure'])['locals'][0]['ty']))]
    if len(fruns) != 1:
        raise AnalysisIncomplete('with_faces: %d face-creating closures' % len(fruns))
    fr = fruns[0]
    cl = F.body(fr['closure'])
    shf = stream_shape(fr['stream'])
    ip2 = I.Interp(F)
    off = ip2.ref_to(RF.sym('off'), '&mut usize', mut=True)
    ups = cl.get('upvars') or []
    env = I.St('closure:' + cl['path'], None, {0: off} if len(ups) == 1 else {i: off for i in range(len(ups))})
    item = fr['item']
    res = ip2.call_closure(env, ip2.ref_to(env, mut=True), I.tup(item), '?')
    ctx.evaluations += ip2.evaluations
    after = as_rf(I.read_lv(off.lv))
    lst = I.get_field(item, 1)
    ln = RF.atom(nf.app_atom('len', I.frozen(lst)))
    some = none = None
    for conds, leaf in cases(res):
        if isinstance(leaf, I.St) and leaf.variant == 'Some':
            some = (conds, leaf.fields[0])
        elif isinstance(leaf, I.St) and leaf.variant == 'None':
            none = conds
    okn = none is not None and len(none) == 1 and repr(none[0]) == '(%r == 0)' % ln
    oks = some is not None and repr(I.get_field(some[1], 'clipping_plane')) == repr(I.get_field(item, 0, 'usize')) and as_rf(I.get_field(some[1], 'vertex_count')) == ln \
        and repr(I.get_field(some[1], 'vertex_offset')) == 'off'
    okoff = all(as_rf(dtab.evaluate(after, (lambda b: (lambda leaf: b))(b))) == (RF.sym('off') + (ln if not b else RF.const(0))) or as_rf(dtab.evaluate(after, (lambda b: (lambda leaf: b))(b))) == RF.sym('off') + ln for b in (True, False))
    init_off = repr(fr['events'][0].fargs) if False else None
    ctx.check(rule, 'face-created-iff-list-non-empty' + sfx, okn and some is not None, 'None when %s' % ([repr(c) for c in none] if none else '?'), 'None iff the list is empty', where(cl), key_extra='nonempty')
    ctx.check(rule, 'face-record-fields' + sfx, oks, repr(some[1])[:160] if some else 'no Some arm', 'clipping_plane = slot, vertex_count = len(list), vertex_offset = running offset', where(cl), key_extra='facefields')
    ctx.check(rule, 'offset-recurrence' + sfx, okoff, 'offset after one item: %r' % (after,), 'offset + len(list) (unchanged for an empty list)', where(cl), key_extra='offset')
    # initial offset 0: the captured variable's value at closure creation
    capt = [a for e in ip.events if e.callee and e.callee.endswith('Iterator::filter_map') and 'closure:' + fr['closure'] in [getattr(I.frozen(a_), 'adt', None) for a_ in e.fargs[1:]] for a in e.fargs[1:]]
    ok0 = bool(capt) and '{0: &0}' in repr(capt[0]).replace(' ', '').replace('{0:&0}', '{0: &0}')
    ctx.check(rule, 'offset-starts-at-zero' + sfx, ok0, repr(capt[0])[-40:] if capt else 'no closure', 'let mut offset = 0', w, key_extra='offset0')
    ok_shape = shf[0] == 'pair' and shf[1][0] == 'pos' and shf[2][0] == 'elem'
    ctx.check(rule, 'faces-enumerate-every-list' + sfx, ok_shape, str(shf)[:120], 'lists.iter().enumerate()', w, key_extra='facestream')
    # connections: flatten of the same lists
    tr = [e for e in ip.events if e.callee and strip_generics(e.callee).endswith('ConvexCell::transition')]
    if len(tr) != 1:
        raise AnalysisIncomplete('transition calls: %d' % len(tr))
    fvc = I.get_field(tr[0].fargs[0], 'face_vertex_connections')
    ch, src = stream_chain(I.frozen(fvc.fields[0]) if isinstance(fvc, I.St) else fvc)
    names = [n for n, _ in ch]
    okc = names[:3] == ['collect', 'flatten', 'into_iter'] and shf[2][0] == 'elem' and (repr(src) in shf[2][1] or shf[2][1] in repr(src) or 'phi' in repr(src))
    ctx.check(rule, 'connections-are-concatenated-lists' + sfx, okc, '%s over %s' % (' <- '.join(names), repr(src)[:60]), 'lists.into_iter().flatten().collect()', w, key_extra='concat')


def _in_range(leaf):
    """Truth value of a comparison between an index and a length under "index < length"."""
    op, a, b = leaf.args
    len_left = repr(a).startswith('len(') or ('len(' in repr(a) and 'len(' not in repr(b))
    # index < len: true;  len <= index: false;  len > index: true;  index >= len: false
    if len_left:
        return {'<=': False, '<': False, '>': True, '>=': True}[op]
    return {'<': True, '<=': True, '>': False, '>=': False}[op]


def r8(ctx, F, rule, sfx):
    import re
    sb = F.body_by_suffix('ConvexCell::sort_face_vertices')
    pi = F.body_by_suffix('Vertex::plane_idx')
    w = where(sb)
    # plane_idx: position of the plane in the triple
    ipp = I.Interp(F)
    ipp.unroll_limit = 4
    ipp.unroll_allow_returns = True
    vert = I.St('voronoi::convex_cell::Vertex', 'Vertex', {'dual': I.arr([RF.sym('d0'), RF.sym('d1'), RF.sym('d2')])}, I.Sym(nf.sym_atom('V'), 'voronoi::convex_cell::Vertex'))
    v, _ = ipp.call_body(pi, [ipp.ref_to(vert), RF.sym('q')])
    ctx.evaluations += ipp.evaluations
    rows = []
    okp = True
    for k in range(4):
        def val(leaf, k=k):
            # d_i == q exactly for i == k (k == 3: for none)
            op, a, b = leaf.args
            t = {repr(a), repr(b)}
            hit = None
            for i in range(3):
                if t == {'d%d' % i, 'q'}:
                    hit = (i == k)
            if hit is None:
                raise AnalysisIncomplete('plane_idx tests %r' % (leaf,))
            return hit if op == '==' else (not hit)
        got = dtab.evaluate(v, val)
        if k < 3:
            good = isinstance(got, I.St) and got.variant == 'Some' and as_rf(got.fields[0]) == RF.const(k)
        else:
            good = isinstance(got, I.St) and got.variant == 'None'
        rows.append('%s -> %s' % ('dual[%d] == q' % k if k < 3 else 'q not in dual', repr(got)[:40]))
        okp = okp and good
    ctx.check(rule, 'plane_idx-is-position-in-triple' + sfx, okp, rows, 'Some(i) for the first i with dual[i] == plane, None if there is none', where(pi), key_extra='plane_idx')
    # the walk
    ip = I.Interp(F, no_inline=[pi['path']])
    cell = I.Sym(nf.sym_atom('cell'), 'voronoi::convex_cell::ConvexCell<voronoi::convex_cell::WithoutFaces>')
    ip.call_body(sb, [ip.ref_to(cell), I.Sym(nf.sym_atom('w'), '&mut [usize]'), RF.sym('pl')])
    ctx.evaluations += ip.evaluations
    loops = sorted([L for L in ip.loops if L['body'] is sb], key=lambda L: len(L['blocks']))
    if len(loops) != 2:
        raise AnalysisIncomplete('sort_face_vertices has %d loops (expected scan inside walk)' % len(loops))
    Li, Lo = loops

    def scalars(L):
        return {i: (a, p) for i, (a, p) in enumerate(zip(L['init'], L['phi'])) if a is not None and p is not None and a is not p and isinstance(p, RF)}
    so, si = scalars(Lo), scalars(Li)
    PI = 'unwrap(call:voronoi::convex_cell::Vertex::plane_idx(%s, pl))'

    def next_plane_form(value):
        """value == <V>.dual[m(p)] with p = <V>.plane_idx(pl): -> (V text, k) when m(p) == (p + k) mod 3 for p = 0, 1, 2, else None.
        Decided by substituting p = 0, 1, 2 (any way of writing the rotation — remainder, lookup table, match — gives the same map)."""
        value = as_rf(value)
        ps = [a for a in I.atoms_deep(value).values() if a.kind == 'app' and repr(a).startswith('unwrap(call:voronoi::convex_cell::Vertex::plane_idx(')]
        if len(ps) != 1:
            return None
        m = re.match(r'^unwrap\(call:voronoi::convex_cell::Vertex::plane_idx\((.*), pl\)\)$', repr(ps[0]))
        if not m:
            return None
        V = m.group(1)
        img = []
        for p_ in range(3):
            x = I.subst(value, {ps[0]: RF.const(p_)})
            def val(leaf):
                if leaf.op == 'cmp' and 'len(' in repr(leaf) and leaf.args[0] in ('<=', '<', '>', '>='):
                    return _in_range(leaf)        # on the match arm the candidate index is inside the list
                raise AnalysisIncomplete('rotation depends on %r' % (leaf,))
            x = dtab.evaluate(as_rf(x), val)
            mm = re.match(r'^(.*)\.dual\[(\d)\]$', repr(x))
            if not mm or mm.group(1) != V:
                return None
            img.append(int(mm.group(2)))
        ks = {(img[p_] - p_) % 3 for p_ in range(3)}
        if len(ks) != 1:
            return (V, -1)
        return (V, ks.pop())
    # roles in the outer loop: position (init 1), plane looked for (init of the next-plane form)
    pos = [(i, a, p) for i, (a, p) in so.items() if isinstance(a, RF) and a.is_const() and a.const_value() == 1]
    npl = [(i, a, p, next_plane_form(a)) for i, (a, p) in so.items() if next_plane_form(a) is not None]
    if len(pos) != 1 or len(npl) != 1:
        ctx.bad(rule, 'walk-starts-at-first-vertex' + sfx, 'loop-carried values: %s' % {i: repr(a)[:80] for i, (a, p) in so.items()},
                'position from 1; plane looked for from vertices[w[0]].dual[(p+1) mod 3]', w, key_extra='walk-start')
        return
    pi_, pinit, pphi = pos[0]
    ni, ninit, nphi, (v0, k0) = npl[0]
    ok = v0 == 'cell.vertices[w[0]]' and k0 % 3 == 1
    ctx.check(rule, 'walk-starts-at-first-vertex' + sfx, ok, 'first vertex %s, next plane = dual[(p %+d) mod 3]' % (v0, k0), 'vertices[w[0]], dual[(p + 1) mod 3]', w, key_extra='walk-start:%d' % (k0 % 3))
    # scan cursor
    sw = [e for e in ip.events if e.callee and e.callee.endswith('::swap') and e.body is sb]
    if not sw:
        ctx.bad(rule, 'scan-from-the-position-in-steps-of-one' + sfx, 'the matched vertex is never exchanged into the position being filled', 'swap(cur_idx, test_idx) on a match', w, key_extra='no-exchange')
        return
    if len(sw) != 1:
        raise AnalysisIncomplete('exchange sites in sort_face_vertices: %d' % len(sw))
    sw = sw[0]
    a1, a2 = repr(as_rf(sw.fargs[1])), repr(as_rf(sw.fargs[2]))
    cur = [(i, a, p) for i, (a, p) in si.items() if repr(p) in (a1, a2) and repr(p) != repr(pphi)]
    if len(cur) != 1:
        raise AnalysisIncomplete('scan cursor not identified (exchange of %s and %s)' % (a1[-30:], a2[-30:]))
    ci, cinit, cphi = cur[0]
    steps = [as_rf(vals.get(ci)) - cphi for g, vals in Li['back']]
    ok = repr(as_rf(cinit)) == repr(pphi) and steps and all(d.is_const() and d.const_value() == 1 for d in steps) and {a1, a2} == {repr(pphi), repr(cphi)}
    ctx.check(rule, 'scan-from-the-position-in-steps-of-one' + sfx, ok, 'cursor from %s, step %s, exchange(%s, %s)' % (repr(as_rf(cinit))[-30:], [repr(d) for d in steps], a1[-30:], a2[-30:]),
              'test_idx = cur_idx, +1 per refusal, swap(cur_idx, test_idx) on a match', w, key_extra='scan')
    # match condition: the candidate's triple contains the plane looked for
    cont = [e for e in ip.events if e.callee and e.callee.endswith('::contains') and e.body is sb]
    okc = len(cont) == 1
    cand = None
    if okc:
        m = re.match(r'^(.*)\.dual$', repr(cont[0].fargs[0]))
        okc = bool(m) and repr(as_rf(cont[0].fargs[1])) == repr(nphi)
        cand = m.group(1) if m else None
        okc = okc and cand is not None and cand.endswith('[%s]]' % repr(cphi)) and cand.startswith('cell.vertices[')
    ctx.check(rule, 'match-is-shared-plane' + sfx, okc, [repr(a)[-70:] for a in cont[0].fargs] if cont else 'no contains()', 'vertices[w[test_idx]].dual.contains(next_plane)', w, key_extra='match')
    # on a match (the exchange's guard) ... the exchange sits on the `contains` arm, the back edge on its negation
    gtxt = ' & '.join(repr(x) for x in sw.guard)
    btxt = [' & '.join(repr(x) for x in g) for g, _v in Li['back']]
    okg = 'b:call:core::slice::<impl [T]>::contains(' in gtxt and '!b:call:core::slice::<impl [T]>::contains(' not in gtxt and all('!b:call:core::slice::<impl [T]>::contains(' in b for b in btxt)
    ctx.check(rule, 'exchange-on-match-refusal-otherwise' + sfx, okg, 'exchange when %s; next candidate when %s' % (gtxt[-80:], [b[-80:] for b in btxt][:1]), 'swap on contains, test_idx += 1 otherwise', w, key_extra='arms')
    # outer recurrences on the match arm: position + 1, plane looked for = dual[(p+1) mod 3] of the matched vertex
    def val_match(leaf):
        if leaf.op == 'cmp' and 'len(' in repr(leaf) and leaf.args[0] in ('<=', '<', '>', '>='):
            return _in_range(leaf)
        return False
    okn = True
    obs = []
    for g, vals in Lo['back']:
        npos = as_rf(dtab.evaluate(as_rf(vals.get(pi_)), val_match)) - pphi
        nn = as_rf(vals.get(ni))
        f = next_plane_form(nn)
        obs.append('position %+d; next plane from %s' % (int(npos.const_value()) if npos.is_const() else 99, ('%s, dual[(p %+d) mod 3]' % (f[0][-40:], f[1])) if f else repr(nn)[-80:]))
        okn = okn and npos.is_const() and npos.const_value() == 1 and f is not None and f[1] % 3 == 1 and cand is not None and f[0] == cand
    ctx.check(rule, 'matched-vertex-becomes-current' + sfx, okn and bool(Lo['back']), obs[:2], 'cur_idx += 1; next_plane = matched.dual[(p + 1) mod 3] with p = matched.plane_idx(face plane)', w, key_extra='advance')
    # outer bound: positions 1 .. len-2 (the last vertex is what remains)
    hb = [x for g, _v in Lo['back'] for x in g if isinstance(x, I.B) and x.op == 'cmp' and repr(pphi) in (repr(x.args[1]), repr(x.args[2]))]
    okb = False
    if hb:
        op, a, b = hb[0].args
        d = as_rf(a) - as_rf(b)
        # pos < len - 1  <=>  pos - len + 1 < 0
        lens = [x for x in I.atoms_deep(d).values() if x.kind == 'app' and x.name == 'len']
        if len(lens) == 1:
            k = d - (pphi - RF.atom(lens[0]))
            k2 = d + (pphi - RF.atom(lens[0]))
            if k.is_const():
                okb = (op == '<' and k.const_value() == 1) or (op == '<=' and k.const_value() == 2)
            elif k2.is_const():
                okb = (op == '>' and k2.const_value() == -1) or (op == '>=' and k2.const_value() == -2)
    ctx.check(rule, 'walk-fills-all-but-the-last-position' + sfx, okb, repr(hb[0])[:120] if hb else 'no bound on the position', 'while cur_idx < len - 1', w, key_extra='bound')


def r9(ctx, F, rule, sfx):
    from . import c05
    c05.r3(ctx, F, rule, sfx)
