"""C06 — the periodic tessellation equals that of the infinitely replicated point set (structural clauses)."""
from fractions import Fraction
from .. import interp as I, nf, dtab
from ..nf import RF, as_rf
from ..tables import c3
from ..facts import AnalysisIncomplete, strip_generics, calls, callee_name
from .util import *
from . import routes, c02, c03, c17

META = {
    'level': 'other',
    'configs': {'quick': ['default'], 'thorough': ['default', 'norayon', 'default_nodebug']},
    'rules': {
        'R7': 'one position for a wrapped neighbour (C03.R5): the point handed to the exact predicate (HalfSpace::right_loc) is generators[right].loc + shift, the same normal form the '
              'builder used for the bisector; a different sign or a dropped shift makes the float filter and the exact predicate talk about different points',
        'R1': 'image enumeration: per dimensionality the wrapped search seeds the heap with every root child under every shift (i*w_x, j*w_y, k*w_z), '
              'i,j,k in {-1,0,1} on active axes and {0} on inactive axes, each combination once; children inherit the shift of their parent',
        'R2': 'reported shift == -(query shift), None iff zero (C03.R4)',
        'R3': 'periodic start box reaches strictly beyond A - W/2 and A + 3W/2 on active axes (C02.R3); the width given to the search is the width the boundary was built from',
        'R4': 'search keys are distances to the position the builder uses: leaf key == |q + s - g|^2 == |q - (g + reported shift)|^2 (C17.R2)',
        'R5': 'route selection: `periodic` selects the wrapped search and `!periodic` the plain one, identically at both entry points',
        'R6': 'own images are candidates like any other: the builder removes exactly the first stream item (the generator itself, unshifted) and does not filter later items by index (C01.R1)',
    },
    'explanation': 'Decides the enumeration of periodic images (exactly the 3^d lattice shifts with components in {-w,0,+w} on active axes), the sign and absence '
                   'of reported shifts, the size of the start cell, key/position consistency and the selection of the wrapped route, per configuration by '
                   'constant folding. Not decided: equality with the replicated tessellation and translation invariance (numeric consequences of C01 given these).',
    'trusted_base': ['std RangeInclusive iteration yields start..=end once each', 'rstar ParentNode::children', 'E0 extractor'],
    'assumptions': ['real arithmetic'],
}

NACT = {'OneD': 1, 'TwoD': 2, 'ThreeD': 3}


def run(ctx):
    for cfg in ctx.configs_used:
        F = ctx.facts(cfg)
        sfx = '' if cfg == 'default' else '@' + cfg
        for fn in (r1, r2, r3, r4, r5, r6, r7):
            rule = 'C06.' + fn.__name__.upper()
            ctx.guarded(rule, 'evaluate' + sfx, lambda: fn(ctx, F, rule, sfx))


def wrapped_ctor(F):
    nb = [b for b in F.bodies if 'RTreeWrappingNearestNeighbourIter' in b['path'] and b['kind'] != 'Closure']
    new = [b for b in nb if b['path'].endswith('::new')]
    eh = [b for b in nb if b['path'].endswith('::extend_heap')]
    nx = [b for b in nb if b['path'].endswith('::next')]
    if len(new) != 1 or len(eh) != 1 or len(nx) != 1:
        raise AnalysisIncomplete('wrapped search: constructor/extend_heap/next bodies: %d/%d/%d' % (len(new), len(eh), len(nx)), 'wrapped-search')
    return new[0], eh[0], nx[0]


def search_args(body, full):
    """The canonical argument list (tree/root, query, width, dimensionality) cut down to the parameters the function actually has: a search that does
    not take the dimensionality is evaluated without it (and must then derive nothing from anything else — the image ranges are checked per axis)."""
    n = body['arg_count']
    if n == len(full):
        return full
    tys = [body['locals'][i]['ty'] for i in range(1, n + 1)]
    if n == len(full) - 1 and not any('Dimensionality' in t for t in tys):
        return full[:-1]
    raise AnalysisIncomplete('%s takes %d arguments of types %s' % (body['path'], n, tys))


def image_enumeration(ctx, F, dim):
    """-> (constructor body, [(axis, (lo, hi), weight)] , problems)"""
    new, eh, nx = wrapped_ctor(F)
    ip = I.Interp(F, no_inline=[eh['path']])
    root = I.Sym(nf.sym_atom('root'), '&rstar::ParentNode<voronoi::generator::Generator>')
    q = I.arr([RF.sym('q%d' % i) for i in range(3)])
    wd = I.arr([RF.sym('w%d' % i) for i in range(3)])
    ip.call_body(new, search_args(new, [root, q, wd, routes.dim_value(dim)]))
    ctx.evaluations += ip.evaluations
    evs = [e for e in ip.events if e.callee == eh['path']]
    return new, eh, ip, evs


def image_ranges(ctx, F, dim):
    """-> (constructor body, seeding event or None, [range (lo, hi) | None per axis], [component RF per axis])"""
    import re
    new, eh, ip, evs = image_enumeration(ctx, F, dim)
    if len(evs) != 1:
        return new, None, [None] * 3, [None] * 3
    e = evs[0]
    sh = e.fargs[2]
    comps = [as_rf(I.get_index(sh, RF.const(i), 'f64')) for i in range(3)]
    nexts = {I.vkey(I.frozen(x.result)): x for x in next_events(ip, new)}
    used = set()
    out = []
    for c in range(3):
        wsym = RF.sym('w%d' % c)
        coef = comps[c] / wsym
        at = I.single_atom(coef)
        rng = None
        if coef.is_const():
            rng = (coef.const_value(), coef.const_value())
        elif at is not None:
            for k, x in nexts.items():
                r = resolve_item(at, x.result, ('pos', 'range'))
                if r is not None and not r[1]:
                    chain, src = loop_stream(ip, x)
                    names = [n for n, _ in chain]
                    rec, li = loop_record_of(ip, x)
                    txt = repr(I.frozen(rec['init'][li]))
                    ms = re.findall(r'RangeInclusive::new\((-?\d+), (-?\d+)\)', txt)
                    m = re.search(r'RangeInclusive::new\((-?\d+), (-?\d+)\)', txt) if len(ms) == 1 and 'ite(' not in txt else None
                    bad_ad = [n for n in names if n not in ('into_iter', 'clone', 'new')]
                    if m and not bad_ad and k not in used:
                        rng = (int(m.group(1)), int(m.group(2)))
                    elif len(ms) > 1 or 'ite(' in txt:
                        comps[c] = 'a range chosen at run time: %s' % txt[:120]
                    used.add(k)
        out.append(rng)
    return new, e, out, comps


def r1(ctx, F, rule, sfx):
    for dim in routes.DIMS:
        new, e, rngs, comps = image_ranges(ctx, F, dim)
        w = where(new)
        if e is None:
            ctx.bad(rule, '%s:seed-site%s' % (dim, sfx), 'heap-seeding calls evaluated != 1', 'one call inside the image loops', w, key_extra='sites')
            continue
        ctx.check(rule, '%s:seeds-root-children%s' % (dim, sfx), repr(e.fargs[1]) == 'call:rstar::ParentNode::children(root)', repr(e.fargs[1])[:80], 'root.children()', where(new, e.line), key_extra='children')
        for c in range(3):
            inst = '%s:axis-%s%s' % (dim, 'xyz'[c], sfx)
            rng = rngs[c]
            want = (-1, 1) if c < NACT[dim] else (0, 0)
            if rng is None:
                ctx.bad(rule, inst, 'shift component %r' % comps[c], 'n * w_%s with n ranging over %s..=%s' % ('xyz'[c], want[0], want[1]), where(new, e.line), key_extra='component')
            else:
                ctx.check(rule, inst, rng == want, 'n * w_%s, n in %s..=%s' % ('xyz'[c], rng[0], rng[1]), 'n in %s..=%s' % want, where(new, e.line), key_extra='range:%s' % (rng,))
        extra = [g for g in e.guard if not (dtab.is_discr_eq(g) and '::next(' in repr(g))]
        ctx.check(rule, '%s:every-combination-seeded%s' % (dim, sfx), not extra, [repr(g)[:80] for g in extra], 'unconditional inside the loops', where(new, e.line), key_extra='guard')
    # children inherit their parent's shift
    new, eh, nx = wrapped_ctor(F)
    ip = I.Interp(F, no_inline=[eh['path']])
    me = I.Sym(nf.sym_atom('it'), 'rtree_nn::RTreeWrappingNearestNeighbourIter<Generator>')
    ip.call_body(nx, [ip.ref_to(me, nx['locals'][1]['ty'], mut=True)])
    ctx.evaluations += ip.evaluations
    evs = [e for e in ip.events if e.callee == eh['path']]
    if len(evs) != 1:
        raise AnalysisIncomplete('heap extension calls in the search step: %d' % len(evs))
    e = evs[0]
    pop = [x for x in ip.events if x.callee and x.callee.endswith('BinaryHeap::<T, A>::pop')]
    if len(pop) != 1:
        raise AnalysisIncomplete('heap pops in the search step: %d' % len(pop))
    cur = I.get_field(I.downcast(pop[0].result, 'Some'), 0)
    okc = 'children(' in repr(e.fargs[1]) and repr(I.frozen(cur)) in repr(e.fargs[1])
    oks = repr(e.fargs[2]) == repr(I.frozen(I.get_field(cur, 'shift')))
    ctx.check(rule, 'children-of-popped-parent' + sfx, okc, repr(e.fargs[1])[-100:], 'children of the popped node', where(nx, e.line), key_extra='step-children')
    ctx.check(rule, 'children-inherit-shift' + sfx, oks, repr(e.fargs[2])[-80:], 'the popped node\'s shift', where(nx, e.line), key_extra='step-shift')
    # leaf: returns the popped leaf with its own key and shift
    ret_some = None
    ip2 = ip


def r2(ctx, F, rule, sfx):
    c03.r4(ctx, F, rule, sfx)


def r3(ctx, F, rule, sfx):
    c02.r3(ctx, F, rule, sfx)
    for which in ('direct', 'integrator'):
        r = routes.run_route(F, which, 'ThreeD', True)
        run = routes.cell_run(r)
        ws = routes.one_in(run, 'rtree_nn::wrapping_nn_iter')
        cb = r.one('SimulationBoundary::cuboid')
        ok = repr(ws.fargs[2]) == repr(cb.fargs[1])
        ctx.check(rule, '%s:search-width-is-boundary-width%s' % (which, sfx), ok, repr(ws.fargs[2])[:80], repr(cb.fargs[1])[:80], where(ws.body, ws.line), key_extra='width')
        # and the wrapped constructor receives it unchanged, component-wise
    w = F.body_by_suffix('rtree_nn::wrapping_nn_iter')
    new, eh, nx = wrapped_ctor(F)
    ip = I.Interp(F, no_inline=[new['path']])
    ip.call_body(w, search_args(w, [I.Sym(nf.sym_atom('rtree'), '&rstar::RTree<Generator>'), I.sym_vec3('q'), I.sym_vec3('W'), routes.dim_value(None)]))
    ctx.evaluations += ip.evaluations
    ev = [e for e in ip.events if e.callee == new['path']]
    if len(ev) != 1:
        raise AnalysisIncomplete('constructor calls in wrapping_nn_iter: %d' % len(ev))
    # the stream handed to the builder is the search itself, mapped element-wise: nothing filtered, truncated or reordered
    ret = I.frozen(ip.stack[0].cells[0].v) if ip.stack else None
    rv, _ = (None, None)
    ip_r = I.Interp(F, no_inline=[new['path']])
    rv, _ = ip_r.call_body(w, search_args(w, [I.Sym(nf.sym_atom('rtree'), '&rstar::RTree<Generator>'), I.sym_vec3('q'), I.sym_vec3('W'), routes.dim_value(None)]))
    ch, src = stream_chain(I.frozen(rv))
    names = [n for n, _ in ch]
    okc = names in (['map', 'new'], ['new', 'map', 'new']) or (names[:1] == ['new'] and names[1:] == ['map', 'new'])
    okc = [n for n in names if n not in ('new', 'root')] == ['map'] and names[:1] in (['map'], ['new']) and 'RTreeWrappingNearestNeighbourIter' in repr(I.frozen(rv))
    ctx.check(rule, 'wrapped-stream-unfiltered' + sfx, okc, ' <- '.join(names), 'Box::new(search.map(item -> (id, shift))): every candidate the search yields reaches the builder, in order', where(w), key_extra='stream:%s' % ','.join(n for n in names if n not in ('new', 'map', 'root')))
    a = ev[0].fargs
    ok = repr(a[1]).replace(' ', '') == 'array{0:q.x,1:q.y,2:q.z}' and repr(a[2]).replace(' ', '') == 'array{0:W.x,1:W.y,2:W.z}' and (len(a) < 4 or repr(a[3]) == 'dim')
    ctx.check(rule, 'query-and-width-passed-componentwise' + sfx, ok, '%s %s' % (repr(a[1])[:50], repr(a[2])[:50]), '[q.x,q.y,q.z], [w.x,w.y,w.z]', where(w, ev[0].line), key_extra='ctor-args')


def r4(ctx, F, rule, sfx):
    c17.r2(ctx, F, rule, sfx)


def r5(ctx, F, rule, sfx):
    for which in ('direct', 'integrator'):
        r = routes.run_route(F, which)
        run = routes.cell_run(r)
        b = routes.one_in(run, 'ConvexCell::build')
        stream = b.args[3]

        def classify(leaf):
            if leaf.op == 'atom' and repr(leaf.args[0]) == 'periodic':
                return ('P', True)
            return None
        T = dtab.Table(['P'], classify)
        tab = T.tabulate(stream)
        for env in T.rows():
            got = repr(I.frozen(tab[(env['P'],)]))
            want = 'call:rtree_nn::wrapping_nn_iter(' if env['P'] else 'call:rtree_nn::nn_iter('
            ctx.check(rule, '%s:route[%s]%s' % (which, dtab.fmt_env(env), sfx), got.startswith(want), got[:60], want + '..)', where(b.body, b.line), key_extra='%s:%s' % (which, dtab.fmt_env(env)))
        # the boundary is built with the same flag
        cb = r.one('SimulationBoundary::cuboid')
        ctx.check(rule, '%s:boundary-gets-same-flag%s' % (which, sfx), repr(cb.fargs[2]) == 'b:periodic', repr(cb.fargs[2]), 'periodic', where(cb.body, cb.line), key_extra='flag')


def r6(ctx, F, rule, sfx):
    from . import c01
    c01.r1(ctx, F, rule, sfx)


def r7(ctx, F, rule, sfx):
    from . import c03
    c03.r5(ctx, F, rule, sfx)
