"""E6 — self-validation of the rules (thorough tier): every rule must fire on a variant of the current tree with one
instance broken (and name it), and stay silent on behaviour-preserving refactorings.  Variants are built in a scratch
copy of /repo's *working tree* outside /repo and /verif, analysed with the same checker (MV_REPO=<scratch>), and removed."""
import json, os, shutil, subprocess, sys, tempfile

V = os.path.dirname(os.path.dirname(os.path.abspath(__file__)))
REPO = os.environ.get('MV_REPO', '/repo')


# behaviour-preserving variants on which a rule is known to answer `analysis-incomplete` (DESIGN §13 'known weak spots')
ACCEPTED_ALARMS = {
    'B11-r3': 'C15.R8: sort_face_vertices rewritten with find_map + bool::then returning a tuple (tuple-valued opaque search not modelled)',
    # benign5 = correct twins of the round-6 seeded refactorings (DESIGN §14, round 6); the ones below restructure a whole mechanism and are
    # answered with analysis-incomplete / unrecognised-construct reports (fail closed) — documented weak spots
    'C09-r6-recycled-scratch-cell-stale-corner-radii': 'cell builder rewritten as rebuild(&mut self) on a recycled scratch cell (map_init): builder scenario and C09.R4 sibling shapes not recognised',
    'C10-r6-i128-shortcut-range-check-skips-z': 'C10.R1/C11.R1: machine-integer (i128) fast path beside the big-integer path — exactness would need an overflow (interval) argument the analysis does not make',
    'C12-r6-single-pass-finalize-drops-late-right-links': 'C12.R1/R2: connectivity assembled in one pass over a flat array instead of per-cell lists',
    'C12-r6-single-pass-finalize-drops-late-right-links.alt-count-first': 'C12.R1/R2: count-then-fill assembly of the connectivity array',
    'C15-r6-dimension-assert-hoisted-to-integrator': 'C15.R5: integrator-level assertion guarded by "some cell is constructed" (needs the correlation between that scan and the per-cell mapping)',
    'C17-r6-image-query-table-z-uses-width-y': 'C06.R1/C17.R2-R4: wrapped search restructured around a table of shifted query points and an image index instead of a shift vector',
    'C18-r6-deferred-exact-pass-stale-index-after-swap': 'C18.R3/C05.R3: two-pass partition (float pass, deferred exact pass over remembered indices)',
    'C18-r6-deferred-exact-pass-stale-index-after-swap.alt-same-storage-order': 'C18.R3/C05.R3: exact pass before the partition loop driven by stored clip values',
    # benign6 = correct twins of the round-7 seeded refactorings
    'C07-r7-chunked-build-skip-test-uses-chunk-length': 'cells built in chunks of 256 (par_chunks_mut, nested per-chunk / per-cell closures): the route scenario expects one per-cell closure',
    'C09-r7-finalize-parallel-fill-with-atomic-cursors': 'C12.R1/R2 + C09.R2/R3: counting-sort layout of finalize filled in parallel through atomic cursors and sorted afterwards (deterministic, but atomics are reported by rule)',
    'C09-r7-finalize-parallel-fill-with-atomic-cursors.variant-sequential-fill': 'C12.R1/R2: counting-sort layout of finalize',
    'C14-r7-with-faces-fast-path-inits-by-face-position': 'second route through compute_face_integrals for cells with stored faces: equivalence with the decomposition route is not established',
    'C16-r7-running-maximum-misses-exact-path-survivors': 'C16.R2: safety radius kept as a running maximum inside the clip loop instead of the recomputation pass',
    'C18-r7-cycle-membership-bitmask-u64': 'C18.R1/R4: cycle membership in a separate Vec<bool> (layout of SimpleCycle changed)',
    # benign7 = correct twins of the round-8 / round-9 seeded refactorings
    'C02-r8-search-passes-squared-distance-to-termination-test': 'C01.R3/C16.R4: the search hands the neighbour distance to the builder, whose termination test then compares a stream component (equality with |L - R| not established)',
    'C02-r8-search-passes-squared-distance-to-termination-test.sqrt-variant': 'as above',
    'C07-r8-all-false-mask-returns-no-cells': 'C07.R4: early return of n default cells under a scan of the mask (whether the scan means "nothing selected" is a free condition)',
    'C12-r8-unconstructed-cell-index-lost-on-integrator-route': 'C12.R3: own index given at construction on both routes instead of being (re)assigned by the per-cell finalisation',
    # benign8 = correct twins of round-9 / round-10 seeded refactorings
    'C18-r9-cycle-capacity-reserved-from-largest-triple-entry': 'C18.R1/R4, C01.R7: the boundary cycle grows its successor array lazily inside init/try_extend (Vec::extend by a run-time range) instead of one grow() per plane — the cycle model has a fixed successor array per step',
    'C09-r10-with-data-routes-index-the-data-by-cell-idx': 'C09.R4/C13.R5/C14.R2: the *_with_data routes pick the datum by the cell label (extra_data[cell.idx]) instead of zipping slots with data, parallel arm written out, sequential arm through the cells_iter accessor — equal only through the invariant label == slot, which these rules do not chain',
    'C15-r10-discard-faces-keeps-cleared-buffers': 'C15.R2/R7: discard_faces leaves Some(empty) buffers that with_faces takes and appends to — equivalent only because nothing reads the two fields in the WithoutFaces state; the rules ask for None / a fresh list',
    'C13-r11-symmetric-skip-decision-cached-per-plane': 'C03.R2/C07.R3/C13.R4/C14.R7: the skip decision of the symmetric route memoised in a loop-carried variable (keyed by the plane index: correct; keyed by the neighbour index: the seeded defect) — a decision depending on a value carried between iterations is outside the decision tables',
}


def corpus():
    out = []
    p = os.path.join(V, 'selftest', 'corpus.json')
    if os.path.exists(p):
        out.extend(json.load(open(p)))
    # refactorings written by independent sub-agents (DESIGN §14); ACCEPTED_ALARMS are documented weak spots of the analysis, not of the code
    for d in ('benign2', 'benign3', 'benign4', 'benign5', 'benign6', 'benign7', 'benign8'):
        bd = os.path.join(V, 'selftest', d)
        if os.path.isdir(bd):
            for n in sorted(os.listdir(bd)):
                if n.endswith('.diff') and n[:-5] not in ACCEPTED_ALARMS:
                    out.append({'name': '%s/%s' % (d, n[:-5]), 'kind': 'benign', 'patch': 'selftest/%s/%s' % (d, n)})
    sd = os.path.join(V, 'seeded')
    if os.path.isdir(sd):
        for n in sorted(os.listdir(sd)):
            meta = os.path.join(sd, n, 'meta.json')
            if os.path.exists(meta) and os.path.exists(os.path.join(sd, n, 'patch.diff')):
                m = json.load(open(meta))
                exp = {}
                for d in m.get('detected_by', []):
                    pr, rl = d.split('.', 1)
                    exp.setdefault(pr, []).append(rl)
                out.append({'name': 'seeded:' + n, 'kind': 'seeded', 'patch': 'seeded/%s/patch.diff' % n, 'expect': exp})
    return out


def make_scratch(patch):
    """Copy /repo's working tree (sources only) to a scratch dir and apply the patch; None if it does not apply."""
    tmp = tempfile.mkdtemp(prefix='mv-e6-')
    dst = os.path.join(tmp, 'repo')
    shutil.copytree(REPO, dst, ignore=shutil.ignore_patterns('target', '.git', '_out'))
    p = subprocess.run(['git', 'apply', '--unsafe-paths', '--directory=' + dst, os.path.join(V, patch)], cwd='/', capture_output=True, text=True)
    if p.returncode != 0:
        p = subprocess.run(['patch', '-p1', '-s', '-i', os.path.join(V, patch)], cwd=dst, capture_output=True, text=True)
        if p.returncode != 0:
            shutil.rmtree(tmp, ignore_errors=True)
            return None, None
    return tmp, dst


def run_child(prop, scratch_repo, evdir, cache=None, worker=None):
    env = dict(os.environ, MV_REPO=scratch_repo, VERIF_EVIDENCE_DIR=evdir, VERIF_SELFTEST_CHILD='1')
    if worker is not None:
        env['VERIF_TARGET_SUFFIX'] = '-e6w%d' % worker        # private target directory per parallel worker (bin/extract.sh)
    if cache:
        env['VERIF_FACTS_CACHE'] = cache
    p = subprocess.run([sys.executable, os.path.join(V, 'check'), prop, '--tier', 'quick'], cwd=V, env=env, capture_output=True, text=True)
    keys = []
    reports = []
    for line in p.stdout.splitlines():
        if line.startswith('VIOLATION ') and 'replay=' in line:
            rp = line.split('replay=', 1)[1].strip()
            try:
                r = json.load(open(os.path.join(V, rp) if not os.path.isabs(rp) else rp))
                reports.append(r)
                keys.append(r.get('key'))
            except Exception:
                pass
    return p.returncode, reports, p.stdout


def run_for(prop, ctx, baseline_keys):
    """Run the corpus entries relevant to `prop`; results are added to ctx as rule `<prop>.E6` instances."""
    rule = prop + '.E6'
    entries = [e for e in corpus() if e['kind'] == 'benign' or prop in (e.get('expect') or {})]
    from concurrent.futures import ThreadPoolExecutor

    import queue
    jobs = int(os.environ.get('VERIF_E6_JOBS', '8'))
    slots = queue.Queue()
    for k in range(jobs):
        slots.put(k)

    def analyse(e):
        tmp, dst = make_scratch(e['patch'])
        if tmp is None:
            return e, None
        k = slots.get()
        try:
            evdir = os.path.join(tmp, 'ev')
            os.makedirs(os.path.join(evdir, 'violations'), exist_ok=True)
            rc, reports, out = run_child(prop, dst, evdir, worker=k)
            return e, reports
        finally:
            slots.put(k)
            shutil.rmtree(tmp, ignore_errors=True)
    n = 0
    with ThreadPoolExecutor(max_workers=jobs) as ex:
        results = list(ex.map(analyse, entries))
    for e, reports in results:
        inst = '%s:%s' % (e['kind'], e['name'])
        if reports is None:
            ctx.notes.append('E6 %s: patch does not apply to the current working tree (skipped)' % inst)
            continue
        n += 1
        ctx.evaluations += 1
        new = [r for r in reports if r.get('key') not in baseline_keys]
        if any(r.get('rule', '').endswith('.R0') for r in new):
            ctx.notes.append('E6 %s: variant does not compile or could not be analysed (skipped): %s' % (inst, new[0].get('observed')))
            continue
        if e['kind'] == 'benign':
            ctx.check(rule, inst, not new, 'new reports on a behaviour-preserving variant: %s' % ([r['rule'] + ' ' + r['instance'] for r in new][:3] or 'none'),
                      'no rule fires', e['patch'], key_extra='benign-alarm')
        else:
            want = e['expect'][prop]
            fired = sorted({r['rule'].split('.')[-1] for r in new if r.get('kind') == 'violation'})
            fired_any = sorted({r['rule'].split('.')[-1] for r in new})
            # hand-written mutants name the rule they break: all of them must fire.  Seeded changes were written against a property, not a rule: the
            # recorded list is what fired when the matrix was last computed — at least one of those rules must still report it as a violation
            ok = all(w in fired for w in want) if e['kind'] == 'mutant' else any(w in fired for w in want)
            ctx.check(rule, inst, ok, 'rules reporting a violation: %s (incl. incomplete: %s)' % (fired or 'none', fired_any or 'none'), 'rule(s) %s fire and name the broken instance' % want, e['patch'], key_extra='missed:%s' % ','.join(w for w in want if w not in fired))
    ctx.notes.append('E6: %d variants analysed for %s' % (n, prop))
