"""E4 normal forms: rational functions over Q in hash-consed atoms.

Poly  : dict {monomial: Fraction}; monomial = tuple of (atom_id, exponent) sorted by atom_id
RF    : num/den (den never zero polynomial); light normalisation (constant/monomial content,
        exact division); equality by cross multiplication.
Atoms : symbols (inputs, phi) and uninterpreted applications f(args) — congruent: same f and
        same argument normal forms give the same atom.  sqrt/abs atoms carry rewrite rules
        sqrt(e)^2 -> e, abs(e)^2 -> e^2 applied during multiplication.
"""
from fractions import Fraction

_ATOMS = {}      # key -> Atom
_BY_ID = []      # id -> Atom


class Atom:
    __slots__ = ('key', 'id', 'kind', 'name', 'args', 'meta')

    def __repr__(self):
        if self.kind == 'sym':
            return self.name
        if self.name == 'field' and len(self.args) == 2:
            return '%s.%s' % (show_arg(self.args[0]), self.args[1])
        if self.name == 'elem' and len(self.args) == 2:
            return '%s[%s]' % (show_arg(self.args[0]), show_arg(self.args[1]))
        return '%s(%s)' % (self.name, ', '.join(map(show_arg, self.args)))


def show_arg(a):
    return repr(a)


def _mk_atom(key, kind, name, args):
    a = _ATOMS.get(key)
    if a is None:
        a = Atom()
        a.key = key
        a.kind = kind
        a.name = name
        a.args = args
        a.id = len(_BY_ID)
        a.meta = {}
        _ATOMS[key] = a
        _BY_ID.append(a)
    return a


def sym_atom(name):
    return _mk_atom(('sym', name), 'sym', name, ())


def app_atom(fname, *args):
    """args: RF or any hashable python value (str, int, tuple)."""
    k = tuple(_argkey(a) for a in args)
    return _mk_atom(('app', fname, k), 'app', fname, args)


def _argkey(a):
    if isinstance(a, Atom):
        return ('atom', a.id)
    k = getattr(a, 'key', None)
    if callable(k):
        return k()
    return a


def atom_by_id(i):
    return _BY_ID[i]


# --- polynomials ---------------------------------------------------------------

def p_const(c):
    c = Fraction(c)
    return {(): c} if c != 0 else {}


def p_atom(a):
    return {((a.id, 1),): Fraction(1)}


def p_add(a, b, sign=1):
    r = dict(a)
    for m, c in b.items():
        v = r.get(m, 0) + sign * c
        if v == 0:
            r.pop(m, None)
        else:
            r[m] = v
    return r


def m_mul(m1, m2):
    if not m1:
        return m2
    if not m2:
        return m1
    d = dict(m1)
    for a, e in m2:
        d[a] = d.get(a, 0) + e
    return tuple(sorted(d.items()))


MAX_PRODUCT_TERMS = 40_000_000


class Budget(Exception):
    pass


def p_mul_raw(a, b):
    r = {}
    if len(a) * len(b) > MAX_PRODUCT_TERMS:
        from .facts import AnalysisIncomplete
        raise AnalysisIncomplete('normal-form budget exceeded: product of polynomials with %d and %d terms' % (len(a), len(b)))
    if len(a) > len(b):
        a, b = b, a
    for m1, c1 in a.items():
        for m2, c2 in b.items():
            m = m_mul(m1, m2)
            v = r.get(m, 0) + c1 * c2
            if v == 0:
                r.pop(m, None)
            else:
                r[m] = v
    return r


def _needs_reduce(p):
    for m in p:
        for a, e in m:
            if e >= 2 and _BY_ID[a].name in ('sqrt', 'abs') and _BY_ID[a].kind == 'app':
                return True
    return False


def p_reduce(p):
    """Apply sqrt(e)^2 -> e and abs(e)^2 -> e^2 (radicands are polynomials by construction)."""
    guard = 0
    while _needs_reduce(p):
        guard += 1
        if guard > 64:
            break
        r = {}
        for m, c in p.items():
            term = {(): c}
            rest = []
            for a, e in m:
                at = _BY_ID[a]
                if e >= 2 and at.kind == 'app' and at.name in ('sqrt', 'abs'):
                    rad = at.args[0]
                    assert isinstance(rad, RF) and rad.is_poly()
                    base = rad.num if at.name == 'sqrt' else p_mul_raw(rad.num, rad.num)
                    for _ in range(e // 2):
                        term = p_mul_raw(term, base)
                    if e % 2:
                        rest.append((a, 1))
                else:
                    rest.append((a, e))
            if rest:
                term = p_mul_raw(term, {tuple(rest): Fraction(1)})
            r = p_add(r, term)
        p = r
    return p


def p_mul(a, b):
    return p_reduce(p_mul_raw(a, b))


def p_is_const(p):
    return all(m == () for m in p)


def p_const_value(p):
    return p.get((), Fraction(0))


def p_lead(p):
    """Leading monomial under a fixed total order (max of sorted monomials)."""
    return max(p.keys(), key=_mkey)


def _mkey(m):
    return (sum(e for _, e in m), m)


def m_div(m1, m2):
    """m1 / m2 if divisible else None."""
    d = dict(m1)
    for a, e in m2:
        if d.get(a, 0) < e:
            return None
        d[a] -= e
        if d[a] == 0:
            del d[a]
    return tuple(sorted(d.items()))


def p_divexact(a, b):
    """Exact multivariate division a / b, or None."""
    if not b:
        return None
    if not a:
        return {}
    if len(b) == 1:
        (mb, cb), = b.items()
        r = {}
        for m, c in a.items():
            q = m_div(m, mb)
            if q is None:
                return None
            r[q] = c / cb
        return r
    # general: repeated leading-term division (graded order is a monomial order)
    lb = p_lead(b)
    cb = b[lb]
    rem = dict(a)
    q = {}
    steps = 0
    while rem:
        steps += 1
        if steps > 20000:
            return None
        lr = p_lead(rem)
        t = m_div(lr, lb)
        if t is None:
            return None
        c = rem[lr] / cb
        q[t] = q.get(t, 0) + c
        rem = p_add(rem, p_mul_raw({t: c}, b), -1)
    return q


def p_content_monomial(p):
    """Greatest monomial dividing every term."""
    it = iter(p)
    g = dict(next(it))
    for m in it:
        dm = dict(m)
        for a in list(g):
            e = min(g[a], dm.get(a, 0))
            if e == 0:
                del g[a]
            else:
                g[a] = e
        if not g:
            break
    return tuple(sorted(g.items()))


def p_atoms(p):
    s = set()
    for m in p:
        for a, _ in m:
            s.add(a)
    return s


def p_str(p):
    if not p:
        return '0'
    out = []
    for m in sorted(p, key=_mkey):
        c = p[m]
        ms = '*'.join(('%r' % _BY_ID[a]) + ('^%d' % e if e != 1 else '') for a, e in m)
        if not ms:
            out.append(str(c))
        elif c == 1:
            out.append(ms)
        elif c == -1:
            out.append('-' + ms)
        else:
            out.append('%s*%s' % (c, ms))
    s = ' + '.join(out).replace('+ -', '- ')
    return s


# --- rational functions ---------------------------------------------------------

class RF:
    __slots__ = ('num', 'den', '_key')

    def __init__(self, num, den=None, normalise=True):
        if den is None:
            den = {(): Fraction(1)}
        if not den:
            raise ZeroDivisionError('RF with zero denominator')
        self.num = num
        self.den = den
        self._key = None
        if normalise:
            self._norm()

    def _norm(self):
        num, den = self.num, self.den
        if not num:
            self.den = {(): Fraction(1)}
            return
        if p_is_const(den):
            c = p_const_value(den)
            if c != 1:
                num = {m: v / c for m, v in num.items()}
            self.num, self.den = num, {(): Fraction(1)}
            return
        # common monomial
        g1 = p_content_monomial(num)
        g2 = p_content_monomial(den)
        g = []
        d2 = dict(g2)
        for a, e in g1:
            e2 = min(e, d2.get(a, 0))
            if e2:
                g.append((a, e2))
        if g:
            g = tuple(g)
            num = {m_div(m, g): c for m, c in num.items()}
            den = {m_div(m, g): c for m, c in den.items()}
        # exact division
        if len(den) <= len(num) or len(den) == 1:
            q = p_divexact(num, den)
            if q is not None:
                self.num, self.den = q, {(): Fraction(1)}
                return
        q = p_divexact(den, num) if len(num) <= len(den) else None
        if q is not None and q:
            # num/den = 1/q
            num, den = {(): Fraction(1)}, q
        # monic-ish denominator
        lc = den[p_lead(den)]
        if lc != 1:
            num = {m: v / lc for m, v in num.items()}
            den = {m: v / lc for m, v in den.items()}
        self.num, self.den = num, den

    # constructors
    @staticmethod
    def const(c):
        return RF(p_const(c), None, False)

    @staticmethod
    def atom(a):
        return RF(p_atom(a), None, False)

    @staticmethod
    def sym(name):
        return RF.atom(sym_atom(name))

    def is_poly(self):
        return p_is_const(self.den)

    def is_const(self):
        return self.is_poly() and p_is_const(self.num)

    def const_value(self):
        assert self.is_const()
        return p_const_value(self.num) / p_const_value(self.den)

    def is_zero(self):
        return not self.num

    def key(self):
        if self._key is None:
            self._key = ('rf', frozenset(self.num.items()), frozenset(self.den.items()))
        return self._key

    def __hash__(self):
        return hash(self.key())

    def __eq__(self, o):
        if not isinstance(o, RF):
            return NotImplemented
        if self.key() == o.key():
            return True
        # Inequality filter: evaluate both normal forms under ring homomorphisms into F_p
        # (random values for atoms, sqrt/abs atoms consistent with their rewrite rules).  A
        # differing image proves the normal forms differ; agreement is followed by the exact
        # cross-multiplication.
        for seed in (1, 2):
            env = ModEnv(seed)
            try:
                l = env.poly(self.num) * env.poly(o.den) % MODP
                r = env.poly(o.num) * env.poly(self.den) % MODP
            except _NoRoot:
                continue
            if l != r:
                return False
        return p_mul(self.num, o.den) == p_mul(o.num, self.den)

    def __add__(self, o):
        o = as_rf(o)
        if self.den == o.den:
            return RF(p_add(self.num, o.num), self.den)
        # least common denominator when one denominator divides the other (d, d^2, 2a and 4a^2, ...): keeps
        # sums of quotients over powers of one determinant from growing multiplicatively
        if not p_is_const(self.den) and not p_is_const(o.den):
            big, small = (self, o) if len(self.den) >= len(o.den) else (o, self)
            q = p_divexact(big.den, small.den)
            if q is not None and q:
                return RF(p_add(big.num, p_mul(small.num, q)), big.den)
        return RF(p_add(p_mul(self.num, o.den), p_mul(o.num, self.den)), p_mul(self.den, o.den))

    __radd__ = __add__

    def __neg__(self):
        return RF({m: -c for m, c in self.num.items()}, self.den, False)

    def __sub__(self, o):
        return self + (-as_rf(o))

    def __rsub__(self, o):
        return as_rf(o) + (-self)

    def __mul__(self, o):
        o = as_rf(o)
        return RF(p_mul(self.num, o.num), p_mul(self.den, o.den))

    __rmul__ = __mul__

    def inv(self):
        if not self.num:
            raise ZeroDivisionError('division by the zero polynomial')
        return RF(self.den, self.num)

    def __truediv__(self, o):
        return self * as_rf(o).inv()

    def __rtruediv__(self, o):
        return as_rf(o) * self.inv()

    def __pow__(self, n):
        r = RF.const(1)
        for _ in range(n):
            r = r * self
        return r

    def atoms(self):
        return p_atoms(self.num) | p_atoms(self.den)

    def __repr__(self):
        if self.is_poly():
            return p_str(self.num)
        return '(%s)/(%s)' % (p_str(self.num), p_str(self.den))

    # --- queries -------------------------------------------------------
    def subst(self, mapping):
        """Substitute atoms (by Atom) with RFs."""
        mp = {a.id: as_rf(v) for a, v in mapping.items()}

        def sp(p):
            acc = RF.const(0)
            for m, c in p.items():
                t = RF.const(c)
                for a, e in m:
                    base = mp.get(a)
                    if base is None:
                        base = RF(p_atom(_BY_ID[a]), None, False)
                    t = t * (base ** e)
                acc = acc + t
            return acc
        return sp(self.num) / sp(self.den)

    def coeff_linear(self, atom):
        """If self is a polynomial affine in `atom`: (coefficient, rest) as RFs, else None."""
        if not self.is_poly():
            return None
        co, rest = {}, {}
        for m, c in self.num.items():
            d = dict(m)
            e = d.get(atom.id, 0)
            if e == 0:
                rest[m] = c
            elif e == 1:
                del d[atom.id]
                co[tuple(sorted(d.items()))] = c
            else:
                return None
        return RF(co), RF(rest)

    def depends_on(self, pred):
        """Any atom (transitively through application arguments) satisfying pred."""
        seen = set()

        def walk_atom(a):
            if a.id in seen:
                return False
            seen.add(a.id)
            if pred(a):
                return True
            for x in a.args:
                if isinstance(x, RF):
                    for i in x.atoms():
                        if walk_atom(_BY_ID[i]):
                            return True
            return False
        return any(walk_atom(_BY_ID[i]) for i in self.atoms())


MODP = (1 << 61) - 1


class _NoRoot(Exception):
    pass


def _sqrt_mod(a):
    """Square root modulo MODP (p = 3 mod 4) or None."""
    a %= MODP
    if a == 0:
        return 0
    r = pow(a, (MODP + 1) // 4, MODP)
    return r if r * r % MODP == a else None


class ModEnv:
    """A ring homomorphism Q[atoms]/(sqrt(e)^2-e, abs(e)^2-e^2) -> F_p chosen pseudo-randomly."""

    def __init__(self, seed):
        self.seed = seed
        self.vals = {}
        self.tries = 0

    def atom(self, i):
        v = self.vals.get(i)
        if v is not None:
            return v
        a = _BY_ID[i]
        if a.kind == 'app' and a.name in ('sqrt', 'abs') and isinstance(a.args[0], RF):
            e = self.rf(a.args[0])
            if a.name == 'abs':
                v = e
            else:
                v = _sqrt_mod(e)
                if v is None:
                    raise _NoRoot()
        else:
            import hashlib
            h = hashlib.sha256(('%d|%r' % (self.seed, a.key)).encode()).digest()
            v = int.from_bytes(h[:8], 'big') % MODP
            if a.kind == 'sym' or True:
                # squares make radicands that are sums of squares more likely to be residues: not needed
                pass
        self.vals[i] = v
        return v

    def poly(self, p):
        tot = 0
        for m, c in p.items():
            t = c.numerator % MODP * pow(c.denominator % MODP, MODP - 2, MODP) % MODP
            for a, e in m:
                t = t * pow(self.atom(a), e, MODP) % MODP
            tot = (tot + t) % MODP
        return tot

    def rf(self, r):
        d = self.poly(r.den)
        if d == 0:
            raise _NoRoot()
        return self.poly(r.num) * pow(d, MODP - 2, MODP) % MODP


def as_rf(x):
    if isinstance(x, RF):
        return x
    if isinstance(x, (int, Fraction)):
        return RF.const(x)
    if isinstance(x, float):
        return RF.const(Fraction(x))
    if isinstance(x, Atom):
        return RF.atom(x)
    raise TypeError('not a scalar normal form: %r' % (x,))


def f64_from_bits(bits):
    import struct
    return struct.unpack('<d', struct.pack('<Q', bits))[0]


# --- uninterpreted scalar functions with rewrites ---------------------------------

def fn_sqrt(x):
    x = as_rf(x)
    if x.is_const():
        v = x.const_value()
        if v >= 0:
            # perfect squares stay rational
            from math import isqrt
            n, d = v.numerator, v.denominator
            if isqrt(n) ** 2 == n and isqrt(d) ** 2 == d:
                return RF.const(Fraction(isqrt(n), isqrt(d)))
    if not x.is_poly():
        if len(x.num) * len(x.den) > 2_000_000:
            # too large to rationalise: sqrt(n/d) = sqrt(n)/sqrt(d) (both radicands polynomial; squares still rewrite)
            return fn_sqrt(RF(x.num)) / fn_sqrt(RF(x.den))
        # sqrt(n/d) = sqrt(n*d)/d
        nd = RF(p_mul(x.num, x.den))
        return fn_sqrt(nd) / RF(x.den)
    # sqrt(c^2 * p) with square constant content: keep simple
    return RF.atom(app_atom('sqrt', x))


def fn_abs(x):
    x = as_rf(x)
    if x.is_const():
        return RF.const(abs(x.const_value()))
    if not x.is_poly():
        return fn_abs(RF(x.num)) / fn_abs(RF(x.den))
    # abs(-e) = abs(e): canonical sign = leading coefficient positive
    lc = x.num[p_lead(x.num)]
    if lc < 0:
        x = -x
    # abs(sqrt-like atoms) = itself
    if len(x.num) == 1:
        (m, c), = x.num.items()
        if all(_BY_ID[a].kind == 'app' and _BY_ID[a].name in ('sqrt', 'abs') for a, _ in m) and c > 0:
            return x
    return RF.atom(app_atom('abs', x))


def fn_signum(x):
    x = as_rf(x)
    if x.is_const():
        v = x.const_value()
        return RF.const(1 if v > 0 else (-1 if v < 0 else 0))  # note: f64::signum(0.0) = 1.0; callers treat 0 separately
    if not x.is_poly():
        return fn_signum(RF(x.num)) * fn_signum(RF(x.den))
    lc = x.num[p_lead(x.num)]
    if lc < 0:
        return -RF.atom(app_atom('signum', -x))
    return RF.atom(app_atom('signum', x))


def fn_app(name, *args):
    return RF.atom(app_atom(name, *[as_rf(a) if isinstance(a, (int, Fraction, float, RF, Atom)) else a for a in args]))


def fn_max(a, b):
    a, b = as_rf(a), as_rf(b)
    if a == b:
        return a
    if a.is_const() and b.is_const():
        return a if a.const_value() >= b.const_value() else b
    ka, kb = sorted([a, b], key=lambda r: repr(r.key()))
    return RF.atom(app_atom('max', ka, kb))


def fn_min(a, b):
    a, b = as_rf(a), as_rf(b)
    if a == b:
        return a
    if a.is_const() and b.is_const():
        return a if a.const_value() <= b.const_value() else b
    # min(max(x,l),l) -> l
    for p, q in ((a, b), (b, a)):
        if p.is_poly() and len(p.num) == 1:
            (m, c), = p.num.items()
            if c == 1 and len(m) == 1 and m[0][1] == 1:
                at = _BY_ID[m[0][0]]
                if at.kind == 'app' and at.name == 'max' and any(isinstance(x, RF) and x == q for x in at.args):
                    return q
    ka, kb = sorted([a, b], key=lambda r: repr(r.key()))
    return RF.atom(app_atom('min', ka, kb))


# --- division log ------------------------------------------------------------------------------------------------------
# Normal forms cancel common factors ((d / r) * r is d), which is what makes algebraically equal rewrites equal — and what hides a division by a
# quantity that can be zero.  Rules that care (C19) switch the log on around an evaluation: every division the evaluated code performs by a
# non-constant value is recorded with the conditions it was performed under.
DIV_LOG = None
DIV_TRACK = False          # rule modules that opt in: every top-level evaluation reports its removable singularities to DIV_REPORTS
DIV_REPORTS = []


def log_div(b, guard=()):
    if DIV_LOG is not None and isinstance(b, RF) and not b.is_const():
        DIV_LOG.append((b, tuple(guard or ())))


# --- cancellation log (survey / C16) -----------------------------------------------------------------------------------------
# a - b where a and b share whole monomials (|d|^2 - d_z^2 instead of d_x^2 + d_y^2): equal over the reals, but the shared part is rounded away
# from the small remainder in floating point.  Recorded when switched on: (a, b, number of monomials that cancel).
CANCEL_LOG = None


def log_cancel(a, b, sub=True):
    if CANCEL_LOG is None or not isinstance(a, RF) or not isinstance(b, RF):
        return
    if a.is_const() or b.is_const() or not p_is_const(a.den) or not p_is_const(b.den):
        return
    n = 0
    for m, c in a.num.items():
        if m == ():
            continue
        d = b.num.get(m)
        if d is not None and ((c > 0) == (d > 0)) == sub and abs(c / p_const_value(a.den)) == abs(d / p_const_value(b.den)):
            n += 1
    if n:
        CANCEL_LOG.append((a, b, n))
