"""E1 — control-flow graphs over MIR bodies: successors, dominators, post-dominators,
natural loops, reachability.  "Normal" edges exclude unwind/cleanup edges and the failure
edge of Assert terminators (panics)."""


def successors(block, normal_only=True):
    t = block['term']
    k = t['k']
    out = []
    if k == 'goto':
        out = [t['target']]
    elif k == 'switch':
        out = [bb for _, bb in t['targets']] + [t['otherwise']]
    elif k in ('return', 'unreachable', 'resume', 'terminate'):
        out = []
    elif k == 'drop':
        out = [t['target']]
        if not normal_only and t.get('unwind') is not None:
            out.append(t['unwind'])
    elif k == 'call':
        if t.get('target') is not None:
            out = [t['target']]
        if not normal_only and t.get('unwind') is not None:
            out.append(t['unwind'])
    elif k == 'assert':
        out = [t['target']]
        if not normal_only and t.get('unwind') is not None:
            out.append(t['unwind'])
    else:
        out = []
    # de-duplicate preserving order
    seen = []
    for x in out:
        if x not in seen:
            seen.append(x)
    return seen


class CFG:
    def __init__(self, body, normal_only=True):
        self.body = body
        self.blocks = body['blocks']
        self.n = len(self.blocks)
        self.succ = {b['id']: successors(b, normal_only) for b in self.blocks}
        self.pred = {b['id']: [] for b in self.blocks}
        for a, ss in self.succ.items():
            for s in ss:
                self.pred[s].append(a)
        self.entry = 0
        self.reach = self._reach_from(0)
        self._dom = None
        self._pdom = None

    def _reach_from(self, start, avoid=()):
        seen = set()
        st = [start]
        while st:
            x = st.pop()
            if x in seen or x in avoid:
                continue
            seen.add(x)
            st.extend(self.succ[x])
        return seen

    def reachable_from(self, start, avoid=()):
        return self._reach_from(start, avoid)

    # --- dominators (iterative set algorithm; bodies are small) -----------
    def dominators(self):
        if self._dom is not None:
            return self._dom
        nodes = sorted(self.reach)
        dom = {x: set(nodes) for x in nodes}
        dom[self.entry] = {self.entry}
        changed = True
        while changed:
            changed = False
            for x in nodes:
                if x == self.entry:
                    continue
                ps = [p for p in self.pred[x] if p in self.reach]
                new = set(nodes)
                for p in ps:
                    new &= dom[p]
                new |= {x}
                if new != dom[x]:
                    dom[x] = new
                    changed = True
        self._dom = dom
        return dom

    def dominates(self, a, b):
        return a in self.dominators().get(b, set())

    def exits(self):
        return [b['id'] for b in self.blocks if b['id'] in self.reach and b['term']['k'] == 'return']

    def post_dominators(self):
        """Post-dominators w.r.t. a virtual exit joined to every return block
        (blocks that cannot reach a return — diverging paths — post-dominate nothing)."""
        if self._pdom is not None:
            return self._pdom
        EXIT = -1
        nodes = sorted(self.reach)
        succ = {x: list(self.succ[x]) for x in nodes}
        for x in self.exits():
            succ[x] = succ[x] + [EXIT]
        # nodes that can reach EXIT
        can = set()
        changed = True
        while changed:
            changed = False
            for x in nodes:
                if x in can:
                    continue
                if any(s == EXIT or s in can for s in succ[x]):
                    can.add(x)
                    changed = True
        allset = set(can) | {EXIT}
        pdom = {x: set(allset) for x in can}
        pdom[EXIT] = {EXIT}
        changed = True
        while changed:
            changed = False
            for x in sorted(can, reverse=True):
                ss = [s for s in succ[x] if s == EXIT or s in can]
                new = set(allset)
                for s in ss:
                    new &= pdom[s]
                new |= {x}
                if new != pdom[x]:
                    pdom[x] = new
                    changed = True
        self._pdom = pdom
        self._can_exit = can
        return pdom

    def ipdom(self, x):
        """Immediate post-dominator of x among blocks that can reach a return (None if none)."""
        pd = self.post_dominators()
        if x not in pd:
            return None
        cands = pd[x] - {x}
        # the immediate one is the candidate post-dominated by... the one whose pdom set is largest
        best = None
        for c in cands:
            if c == -1:
                continue
            if best is None or len(pd[c]) > len(pd[best]):
                best = c
        return best

    # --- natural loops ----------------------------------------------------
    def back_edges(self):
        dom = self.dominators()
        out = []
        for a in self.reach:
            for s in self.succ[a]:
                if s in dom.get(a, ()):  # s dominates a
                    out.append((a, s))
        return out

    def loops(self):
        """{header: set(body blocks)}"""
        res = {}
        for a, h in self.back_edges():
            body = res.setdefault(h, {h})
            st = [a]
            while st:
                x = st.pop()
                if x in body:
                    continue
                body.add(x)
                st.extend(p for p in self.pred[x] if p in self.reach)
        return res

    def must_pass_through(self, src, dst, via):
        """Every normal path src -> dst passes through a block in `via`."""
        via = set(via)
        if src in via or dst in via:
            return True
        return dst not in self._reach_from(src, avoid=via)
