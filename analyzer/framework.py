"""Check framework: fact extraction per configuration, rule results, known findings,
evidence and violation reports (DESIGN §5, §9)."""
import json, os, subprocess, sys, time, hashlib, importlib, traceback
from concurrent.futures import ThreadPoolExecutor
from .facts import Facts, AnalysisIncomplete

V = os.path.dirname(os.path.dirname(os.path.abspath(__file__)))
WORK = os.path.join(V, '.work')
REPO = os.environ.get('MV_REPO', '/repo')
MIN_BODIES = 250     # 287 counted on the pinned tree in `default`


class Result:
    """One rule instance."""

    def __init__(self, rule, instance, ok, observed=None, required=None, where=None,
                 kind=None, key_extra=None, statement=None):
        self.rule = rule
        self.instance = instance
        self.ok = bool(ok)
        self.observed = observed
        self.required = required
        self.where = where
        self.kind = kind or ('ok' if ok else 'violation')
        self.statement = statement
        # key: no line numbers
        obs = '' if key_extra is None else str(key_extra)
        self.key = '%s|%s|%s' % (rule, instance, obs) if not ok else None

    def to_json(self):
        d = {'rule': self.rule, 'instance': self.instance, 'verdict': 'holds' if self.ok else self.kind,
             'observed': short(self.observed), 'required': short(self.required), 'where': self.where}
        if self.key:
            d['key'] = self.key
        return d


def short(x, n=400):
    if x is None:
        return None
    s = x if isinstance(x, str) else repr(x)
    return s if len(s) <= n else s[:n] + '…(%d chars)' % len(s)


# divisions by the grid geometry of the (crate-private, unused) kNN grid: width / max_cell_width and width / cdim, positive by the constructor's contract
REMOVABLE_OK = {'space::Space::new', 'space::Space::add_parts'}


class Ctx:
    def __init__(self, prop, tier, seed):
        self.prop = prop
        self.tier = tier
        self.seed = seed
        self._facts = {}
        self.results = []
        self.evaluations = 0
        self.configs_used = []
        self.notes = []
        self.t0 = time.time()

    # --- facts -----------------------------------------------------------------
    def extract(self, cfgs):
        cfgs = [c for c in cfgs if c not in self._facts]
        if not cfgs:
            return

        cache = os.environ.get('VERIF_FACTS_CACHE')   # self-test / seed-matrix runs only: one extraction per scratch copy and configuration

        def one(cfg):
            if cache and os.path.exists(os.path.join(cache, cfg + '.json')):
                return cfg, Facts(os.path.join(cache, cfg + '.json'))
            out = os.path.join(WORK, 'facts', '%s.%d.json' % (cfg, os.getpid()))
            t0 = time.time()
            p = subprocess.run([os.path.join(V, 'bin', 'extract.sh'), cfg, out], capture_output=True, text=True)
            if p.returncode != 0 or not os.path.exists(out) or os.path.getmtime(out) < t0 - 1:
                raise AnalysisIncomplete('fact extraction failed for config %s: %s' % (cfg, (p.stdout + p.stderr)[-2000:]), cfg)
            f = Facts(out)
            try:
                if cache:
                    os.makedirs(cache, exist_ok=True)
                    os.replace(out, os.path.join(cache, cfg + '.json'))
                else:
                    os.unlink(out)
            except OSError:
                pass
            return cfg, f
        with ThreadPoolExecutor(max_workers=min(8, len(cfgs))) as ex:
            for cfg, f in ex.map(one, cfgs):
                if len(f.bodies) < MIN_BODIES:
                    raise AnalysisIncomplete('only %d bodies analysed in config %s (floor %d)' % (len(f.bodies), cfg, MIN_BODIES), cfg)
                self._facts[cfg] = f
                self.configs_used.append(cfg)

    def facts(self, cfg='default'):
        if cfg not in self._facts:
            self.extract([cfg])
        return self._facts[cfg]

    # --- results ------------------------------------------------------------------
    def ok(self, rule, instance, observed=None, required=None, where=None):
        self.results.append(Result(rule, instance, True, observed, required, where))

    def bad(self, rule, instance, observed=None, required=None, where=None, key_extra=None, statement=None):
        self.results.append(Result(rule, instance, False, observed, required, where, 'violation', key_extra, statement))

    def incomplete(self, rule, instance, what, where=None):
        self.results.append(Result(rule, instance, False, what, 'analysis must determine this value', where,
                                   'analysis-incomplete', 'analysis-incomplete'))

    def check(self, rule, instance, cond, observed=None, required=None, where=None, key_extra=None):
        if cond:
            self.ok(rule, instance, observed, required, where)
        else:
            self.bad(rule, instance, observed, required, where, key_extra)
        return cond

    def floor(self, rule, what, count, floor):
        """Fail closed when fewer instances than confirmed by hand were found."""
        if count < floor:
            self.results.append(Result(rule, 'instance-floor:' + what, False, '%d instances' % count,
                                       '>= %d (counted on the pinned tree)' % floor, None,
                                       'analysis-incomplete', 'floor'))
            return False
        return True

    def guarded(self, rule, instance, fn, where=None):
        """Run fn(); AnalysisIncomplete becomes a fail-closed result.  A rule that exceeds its time budget (normal forms
        of a restructured formula can explode) is reported as incomplete instead of running on."""
        import signal
        budget = int(os.environ.get('VERIF_RULE_TIMEOUT', '240'))

        class _Timeout(Exception):
            pass

        def _alarm(signum, frame):
            raise _Timeout()
        old = None
        try:
            old = signal.signal(signal.SIGALRM, _alarm)
            signal.alarm(budget)
        except (ValueError, AttributeError):
            old = None
        try:
            from . import nf as _nf
            if os.environ.get('MV_CANCEL_SURVEY'):
                _nf.CANCEL_LOG = []
                try:
                    return fn()
                finally:
                    for a_, b_, n_ in _nf.CANCEL_LOG[:6]:
                        print('CANCEL', rule, instance, n_, repr(a_)[:90], '|', repr(b_)[:90], flush=True)
                    _nf.CANCEL_LOG = None
            if not _nf.DIV_TRACK:
                # the rules compare normal forms, which cancel common factors: a division whose divisor cancels out of the result is invisible
                # to them and undefined where the divisor vanishes (`(|x-c| / r) * r` for a sphere of radius 0) — interp.removable_divisions
                _nf.DIV_TRACK, _nf.DIV_REPORTS = True, []
                try:
                    return fn()
                finally:
                    _nf.DIV_TRACK = False
                    rep = [(p_, n_, rem) for p_, n_, rem in _nf.DIV_REPORTS if p_.split('<')[0] not in REMOVABLE_OK]
                    bad = sorted({'%s: / %s' % (p_.rsplit('::', 1)[-1], d_) for p_, _n, rem in rep for d_ in rem})
                    ndiv = sum(n_ for _p, n_, _r in rep)
                    if bad:
                        self.bad(rule, 'no-removable-singularity:' + instance, bad[:3], 'no division by a quantity that cancels out of the result', where, key_extra='removable')
                    elif ndiv:
                        self.ok(rule, 'no-removable-singularity:' + instance, '%d evaluation(s), %d division(s): every divisor survives in a denominator of the result or is tested' % (len(rep), ndiv),
                                'no division by a quantity that cancels out of the result', where)
            return fn()
        except _Timeout:
            self.incomplete(rule, instance, 'abstract evaluation exceeded its time budget of %d s (normal-form blow-up)' % budget, where)
        except MemoryError:
            self.incomplete(rule, instance, 'abstract evaluation exhausted memory', where)
        except AnalysisIncomplete as e:
            self.incomplete(rule, instance, e.what, where)
        except RecursionError:
            self.incomplete(rule, instance, 'recursion limit in abstract evaluation', where)
        except Exception as e:   # analyzer defect: fail closed for this rule, keep evaluating the others
            traceback.print_exc()
            self.incomplete(rule, instance, 'analyzer error %s: %s' % (type(e).__name__, e), where)
        finally:
            try:
                signal.alarm(0)
                if old is not None:
                    signal.signal(signal.SIGALRM, old)
            except (ValueError, AttributeError):
                pass
        return None


def load_known():
    p = os.path.join(V, 'known_findings.json')
    if not os.path.exists(p):
        return []
    return json.load(open(p)).get('findings', [])


LEVELS = {}   # property id -> (level, explanation, trusted_base, assumptions); filled by rules modules


def run_property(prop, tier, explain=None):
    seed = int(os.environ.get('VERIF_SEED', '0') or 0)
    ctx = Ctx(prop, tier, seed)
    mod = importlib.import_module('analyzer.rules.%s' % prop.lower())
    meta = mod.META
    fatal = None
    try:
        ctx.extract(meta['configs'][tier] if isinstance(meta['configs'], dict) else meta['configs'])
        mod.run(ctx)
    except AnalysisIncomplete as e:
        ctx.incomplete(prop + '.R0', 'analysis', e.what)
    except Exception as e:   # a crash of the analyzer is an incomplete analysis, never a pass
        ctx.incomplete(prop + '.R0', 'analyzer-crash', '%s: %s' % (type(e).__name__, e))
        traceback.print_exc()
    if tier == 'thorough' and not explain and not os.environ.get('VERIF_SELFTEST_CHILD') and not os.environ.get('VERIF_NO_SELFTEST'):
        try:
            from . import selftest
            known0 = {k['key'] for k in load_known() if k.get('property') == prop and k.get('status') == 'known'}
            base = {r.key for r in ctx.results if not r.ok} | known0
            selftest.run_for(prop, ctx, base)
        except Exception as e:
            ctx.incomplete(prop + '.E6', 'self-validation', '%s: %s' % (type(e).__name__, e))
            traceback.print_exc()
    results = ctx.results
    if explain:
        want = json.load(open(explain)).get('key')
        results = [r for r in results if (r.key == want) or r.ok]
    known = [k for k in load_known() if k.get('property') == prop and k.get('status') == 'known']
    known_keys = {k['key']: k for k in known}
    viol = [r for r in results if not r.ok]
    new_viol = [r for r in viol if r.key not in known_keys]
    EVD = os.environ.get('VERIF_EVIDENCE_DIR') or os.path.join(V, 'evidence')
    os.makedirs(os.path.join(EVD, 'violations'), exist_ok=True)
    lines = []
    seen_known = set()
    for r in viol:
        if r.key in known_keys and r.key not in seen_known:
            seen_known.add(r.key)
            lines.append('KNOWN-FINDING: property=%s %s' % (prop, known_keys[r.key]['what']))
    replay_paths = []
    seen_new = set()
    for r in new_viol:
        if r.key in seen_new:
            continue
        seen_new.add(r.key)
        h = hashlib.sha1(r.key.encode()).hexdigest()[:10]
        rp = os.path.join('evidence' if EVD == os.path.join(V, 'evidence') else EVD, 'violations', '%s-%s-%s.json' % (prop, r.rule.replace('.', '_'), h))
        rep = r.to_json()
        rep.update({'property': prop, 'kind': r.kind, 'statement': r.statement or meta['rules'].get(r.rule.split('.')[-1], ''),
                    'text': '%s %s: %s — observed %s; required %s (%s)' % (
                        r.where or '?', r.rule, r.instance, short(r.observed, 300), short(r.required, 300), r.kind)})
        with open(os.path.join(V, rp), 'w') as f:
            json.dump(rep, f, indent=1)
        replay_paths.append(rp)
        lines.append('VIOLATION property=%s replay=%s' % (prop, rp))
        lines.append('  ' + rep['text'])
    # evidence
    obligations = len(results)
    discharged = len([r for r in results if r.ok])
    nontrivial = len({(r.rule, r.instance) for r in results if r.ok})
    samples = [r.to_json() for r in results][:80]
    meta = dict(meta)
    meta['rules'] = dict(meta['rules'])
    meta['rules'].setdefault('E6', 'self-validation (thorough tier): each rule fires on a scratch variant of the current tree with one instance broken (hand-written mutants and the seeded changes under seeded/) and every rule stays silent on behaviour-preserving refactorings')
    level = meta['level']
    cov = {
        'evaluations': max(1, ctx.evaluations),
        'distinct_nontrivial': nontrivial,
        'rule': 'one case per (rule, instance): a rule instance is a construct of the current source tree located by role or '
                'def path (call site, body, aggregate, closure, configuration); distinct by (rule, instance); non-trivial = '
                'the rule matched a real construct and its abstract value was determined',
        'samples': samples,
        'obligations': obligations,
        'discharged': discharged,
        'checker_cmd': './check %s --tier %s' % (prop, tier),
        'trusted_base': meta.get('trusted_base', []),
        'explanation': meta['explanation'],
        'exhaustive': False,
        'configs': ctx.configs_used,
        'bodies_analysed': {c: len(f.bodies) for c, f in ctx._facts.items()},
        'rules': meta['rules'],
        'notes': ctx.notes,
        'known_findings_matched': sorted(seen_known),
    }
    if level == 'translation_validation':
        cov['programs'] = len(ctx.configs_used)
        cov['disagreements_checked'] = obligations
    ev = {
        'property_id': prop, 'tier': tier, 'seed': seed, 'level': level, 'coverage': cov,
        'assumptions': meta.get('assumptions', []), 'wall_s': round(time.time() - ctx.t0, 2),
        'violations': len(new_viol),
    }
    if not explain:
        with open(os.path.join(EVD, '%s.json' % prop), 'w') as f:
            json.dump(ev, f, indent=1)
    print('%s tier=%s configs=%s rule-instances=%d holds=%d violations=%d known=%d wall=%.1fs' % (
        prop, tier, ','.join(ctx.configs_used), obligations, discharged, len(new_viol), len(seen_known), time.time() - ctx.t0))
    by_rule = {}
    for r in results:
        by_rule.setdefault(r.rule, [0, 0])
        by_rule[r.rule][0 if r.ok else 1] += 1
    for k in sorted(by_rule):
        print('  %-10s holds=%d fails=%d  %s' % (k, by_rule[k][0], by_rule[k][1], meta['rules'].get(k.split('.')[-1], '')[:100]))
    for l in lines:
        print(l)
    return 1 if new_viol else 0
