"""Loader and query helpers for E0 fact files (MIR of /repo as JSON)."""
import json, os, re


class AnalysisIncomplete(Exception):
    """An anchor, a count or an abstract value the rule needs could not be established.
    Reported fail-closed as kind=analysis-incomplete."""

    def __init__(self, what, construct=None):
        super().__init__(what)
        self.what = what
        self.construct = construct


class Facts:
    def __init__(self, path):
        with open(path) as f:
            d = json.load(f)
        # renamed / moved private items are mapped back to the names they have on the pinned tree (analyzer/rolemap.py)
        from . import rolemap
        try:
            d, self.renames = rolemap.normalise(d)
        except Exception as e:          # never let the normalisation layer hide the facts themselves
            self.renames = {'!error': '%s: %s' % (type(e).__name__, e)}
        self.path = path
        self.config = d.get('config')
        self.crate = d.get('crate')
        self.rustc = d.get('rustc')
        self.debug_assertions = d.get('debug_assertions')
        self.bodies = d['bodies']
        self.adts = d['adts']
        self.impls = d['impls']
        self.traits = d['traits']
        self.by_path = {}
        for b in self.bodies:
            self.by_path.setdefault(b['path'], []).append(b)
            b['_nblocks'] = len(b['blocks'])
        self.adt_by_path = {a['path']: a for a in self.adts}

    # --- lookup ---------------------------------------------------------
    def body(self, path, required=True):
        bs = self.by_path.get(path)
        if not bs:
            if required:
                raise AnalysisIncomplete('anchor not found: body %s' % path, path)
            return None
        return bs[0]

    def bodies_matching(self, rx):
        r = re.compile(rx)
        return [b for b in self.bodies if r.search(b['path'])]

    def body_by_suffix(self, suffix, required=True):
        """Unique body whose path ends with `suffix` (ignoring generic argument lists)."""
        # `convex_cell_alternative` is an unused experimental copy of the cell (#[allow(unused)], not part of
        # any property's mechanism); anchors never resolve into it.
        c = [b for b in self.bodies if strip_generics(b['path']).endswith(suffix) and 'convex_cell_alternative' not in b['path']]
        if len(c) != 1:
            if required:
                raise AnalysisIncomplete('anchor %s matched %d bodies' % (suffix, len(c)), suffix)
            return None
        return c[0]

    def closures_of(self, body):
        """Closure bodies defined (transitively) inside `body`."""
        pre = body['path'] + '::{closure#'
        return [b for b in self.bodies if b['path'].startswith(pre)]

    def adt(self, path, required=True):
        a = self.adt_by_path.get(path)
        if a is None and required:
            raise AnalysisIncomplete('anchor not found: adt %s' % path, path)
        return a

    def impls_of_trait(self, trait_path):
        return [i for i in self.impls if i.get('trait') == trait_path]


def strip_generics(p):
    """Remove ::<...> generic argument lists from a def path string."""
    out = []
    depth = 0
    i = 0
    while i < len(p):
        if p.startswith('::<', i) and depth == 0 and not p.startswith('::<impl', i):
            depth = 1
            i += 3
            continue
        c = p[i]
        if depth > 0:
            if c == '<':
                depth += 1
            elif c == '>':
                depth -= 1
            i += 1
            continue
        out.append(c)
        i += 1
    return ''.join(out)


# --- place / operand helpers ------------------------------------------------

def place_str(p):
    s = '_%d' % p['l']
    for e in p['p']:
        k = e['k']
        if k == 'deref':
            s = '(*%s)' % s
        elif k == 'field':
            s += '.' + str(e.get('n', e['i']))
        elif k == 'index':
            s += '[_%d]' % e['l']
        elif k == 'cindex':
            s += '[%d]' % e['off']
        elif k == 'downcast':
            s += ' as ' + e.get('n', '?')
        else:
            s += '<' + k + '>'
    return s


def field_names(place):
    """Names of the field projections of a place, outermost last."""
    return [e.get('n', str(e.get('i'))) for e in place['p'] if e['k'] == 'field']


def calls(body, include_cleanup=False):
    """Yield (block, term) for each call terminator."""
    for bl in body['blocks']:
        if bl['cleanup'] and not include_cleanup:
            continue
        t = bl['term']
        if t['k'] == 'call':
            yield bl, t


def callee_name(t):
    """Best-known callee: resolved instance path if available, else the declared path."""
    return t.get('resolved') or t.get('callee') or '<indirect>'


def is_local_callee(t, crate='meshless_voronoi'):
    return (t.get('resolved_crate') or t.get('callee_crate')) == crate


def site(body, t_or_s):
    return '%s:%s' % (os.path.relpath(body['file'], '/repo') if body['file'].startswith('/') else body['file'],
                      t_or_s.get('line'))
