"""E1 — whole-crate call graph over the fact file.

Edges: resolved static/trait calls to crate-local bodies; unresolved trait-method calls and
calls through `dyn Trait` go to every impl of that method in the crate (class-hierarchy
approximation) and to the trait's default body; creating a closure or naming a fn item is an
edge to that body; dependency bodies are leaves (their names are kept as `ext` calls)."""
from .facts import calls, strip_generics
from .cfg import CFG


class CallGraph:
    def __init__(self, facts):
        self.F = facts
        self.edges = {}      # body path -> set(body path)
        self.ext = {}        # body path -> list of (callee path, crate, term, block id)
        self.impl_methods = {}   # (trait path, method name) -> [body path]
        for b in facts.bodies:
            tr = b.get('impl_trait') or b.get('trait_default')
            if tr:
                self.impl_methods.setdefault((tr, b['path'].rsplit('::', 1)[-1]), []).append(b['path'])
        for b in facts.bodies:
            self._scan(b)

    def _scan(self, b):
        F = self.F
        out = self.edges.setdefault(b['path'], set())
        ext = self.ext.setdefault(b['path'], [])
        cfg = CFG(b, normal_only=True)
        for bl in b['blocks']:
            if bl['id'] not in cfg.reach:
                continue
            for s in bl['stmts']:
                if s['k'] != 'assign':
                    continue
                rv = s['rv']
                if rv['k'] == 'aggregate' and rv.get('agg') == 'closure':
                    if rv['closure'] in F.by_path:
                        out.add(rv['closure'])
                for o in _operands(rv):
                    self._const_edge(o, out)
            t = bl['term']
            if t['k'] != 'call':
                continue
            for o in t['args']:
                self._const_edge(o, out)
            for c in t.get('arg_closures', []):
                if c and c in F.by_path:
                    out.add(c)
            res = t.get('resolved')
            cal = t.get('callee')
            if res and res in F.by_path:
                out.add(res)
                continue
            if cal and cal in F.by_path and not t.get('trait'):
                out.add(cal)
                continue
            tr = t.get('trait')
            local_trait = tr and t.get('trait_crate') == F.crate
            if local_trait and (res is None or t.get('virtual') or res == cal):
                name = cal.rsplit('::', 1)[-1]
                for p in self.impl_methods.get((tr, name), []):
                    out.add(p)
                if cal in F.by_path:
                    out.add(cal)
                continue
            if tr and not local_trait and (res is None or t.get('virtual')):
                # foreign trait, unresolved (generic or dyn): every local impl of that method
                name = (cal or '').rsplit('::', 1)[-1]
                for p in self.impl_methods.get((tr, name), []):
                    out.add(p)
            ext.append((res or cal or '<indirect>', t.get('resolved_crate') or t.get('callee_crate'), t, bl['id']))

    def _const_edge(self, o, out):
        if o.get('k') == 'const':
            if 'fn' in o and o['fn'] in self.F.by_path:
                out.add(o['fn'])
            if 'closure' in o and o['closure'] in self.F.by_path:
                out.add(o['closure'])

    def reachable(self, roots):
        seen = set()
        st = list(roots)
        while st:
            x = st.pop()
            if x in seen:
                continue
            seen.add(x)
            st.extend(self.edges.get(x, ()))
        return seen

    def callers_of(self, path):
        return sorted(a for a, bs in self.edges.items() if path in bs)

    def path_to(self, roots, target):
        """One call path root -> target (for reports)."""
        prev = {}
        st = list(roots)
        for r in roots:
            prev[r] = None
        while st:
            x = st.pop(0)
            if x == target:
                p = []
                while x is not None:
                    p.append(x)
                    x = prev[x]
                return list(reversed(p))
            for y in self.edges.get(x, ()):
                if y not in prev:
                    prev[y] = x
                    st.append(y)
        return None


def _operands(rv):
    k = rv['k']
    if k in ('use', 'unop', 'cast', 'repeat'):
        return [rv['x']]
    if k == 'binop':
        return [rv['l'], rv['r']]
    if k == 'aggregate':
        return rv['ops']
    return []


def public_roots(facts):
    return [b['path'] for b in facts.bodies if b.get('exported')]
