"""E6 corpus definition: source edits (exact string replacements against /repo's pinned tree) that must make the
named rules fire (mutants) or must leave every rule silent (benign refactorings).  `python3 selftest/mutants.py`
regenerates the .diff files and corpus.json from this table (run in /verif, needs a clean /repo)."""
import json, os, subprocess, sys, tempfile, shutil

V = os.path.dirname(os.path.dirname(os.path.abspath(__file__)))
REPO = '/repo'

# (name, [(file, old, new)], {prop: [rules expected to fire]})
MUTANTS = [
    ('c01-termination-1.5', [('src/voronoi/convex_cell.rs', 'if cell.safety_radius < dist {', 'if cell.safety_radius < 1.5 * dist {')], {'C01': ['R3'], 'C16': ['R4']}),
    ('c01-midpoint-weights', [('src/voronoi/convex_cell.rs', 'let p = 0.5 * (cell.loc + ngb_loc);', 'let p = 0.45 * cell.loc + 0.55 * ngb_loc;')], {'C01': ['R2'], 'C03': ['R5']}),
    ('c01-normal-unnormalised', [('src/voronoi/convex_cell.rs', '            let n = dx / dist;\n            let p = 0.5', '            let n = dx;\n            let p = 0.5')], {'C01': ['R2'], 'C04': ['R1']}),
    ('c01-centroid-factor', [('src/voronoi/integrals.rs', '            0.25 / self.volume', '            0.2 / self.volume')], {'C01': ['R6'], 'C02': ['R4']}),
    ('c02-width-z-2', [('src/voronoi.rs', '            anchor.z = -0.5;\n            width.z = 1.;\n        }\n\n        // build cells', '            anchor.z = -0.5;\n            width.z = 2.;\n        }\n\n        // build cells')], {'C02': ['R1'], 'C08': ['R1', 'R4'], 'C13': ['R1']}),
    ('c02-periodic-width-x2', [('src/voronoi/boundary.rs', '            anchor.x -= width.x;\n            width.x *= 3.;', '            anchor.x -= width.x;\n            width.x *= 2.;')], {'C02': ['R3'], 'C06': ['R3']}),
    ('c03-mask-test-without-not', [('src/voronoi/voronoi_cell.rs', 'mask.map_or(false, |mask| !mask[*right_idx])', 'mask.map_or(false, |mask| mask[*right_idx])')], {'C03': ['R1', 'R2'], 'C07': ['R3']}),
    ('c03-sym-skip-without-mask', [('src/voronoi/convex_cell.rs', 'if right_idx < self.idx && mask[right_idx] => continue,', 'if right_idx < self.idx => continue,')], {'C03': ['R2'], 'C13': ['R4']}),
    ('c03-link-any-shift', [('src/voronoi.rs', 'if let (Some(right_idx), None) = (face.right(), face.shift()) {', 'if let (Some(right_idx), _) = (face.right(), face.shift()) {')], {'C03': ['R3'], 'C12': ['R1']}),
    ('c03-shift-not-negated', [('src/rtree_nn.rs', 'Some(-DVec3::from_array(shift))', 'Some(DVec3::from_array(shift))')], {'C03': ['R4'], 'C06': ['R2'], 'C17': ['R6']}),
    ('c03-zero-test-one-component', [('src/rtree_nn.rs', 'let shift = if shift[0] == 0. && shift[1] == 0. && shift[2] == 0. {', 'let shift = if shift[0] == 0. {')], {'C03': ['R4']}),
    ('c04-normal-not-negated', [('src/voronoi/voronoi_face.rs', 'normal: -cell.clipping_planes[clipping_plane_idx].plane.n,', 'normal: cell.clipping_planes[clipping_plane_idx].plane.n,')], {'C04': ['R2']}),
    ('c04-face-centroid-half', [('src/voronoi/voronoi_face.rs', '            1. / (3. * self.area)', '            1. / (2. * self.area)')], {'C04': ['R3'], 'C13': ['R3']}),
    ('c05-swap-dual-1-2', [('src/voronoi/convex_cell.rs', '.iloc(self.clipping_planes[dual[1]].right_loc(self.idx, generators));\n                let d = simulation_boundary\n                    .iloc(self.clipping_planes[dual[2]].right_loc', '.iloc(self.clipping_planes[dual[2]].right_loc(self.idx, generators));\n                let d = simulation_boundary\n                    .iloc(self.clipping_planes[dual[1]].right_loc')], {'C05': ['R4'], 'C10': ['R6']}),
    ('c05-mask-48-bits', [('src/voronoi/boundary.rs', 'let mantissa_mask = 0xFFFFFFFFFFFFFu64;', 'let mantissa_mask = 0xFFFFFFFFFFFFu64;')], {'C05': ['R5'], 'C10': ['R4']}),
    ('c05-domain-reverted-F1', [('src/voronoi/boundary.rs', 'anchor: anchor - 1.5 * width,', 'anchor: anchor - width,'), ('src/voronoi/boundary.rs', 'inverse_width: 1. / (4. * width),', 'inverse_width: 1. / (3. * width),')], {'C05': ['R1'], 'C10': ['R5']}),
    ('c05-right-loc-minus-shift', [('src/voronoi/half_space.rs', '                loc += shift;', '                loc -= shift;')], {'C03': ['R5']}),
    ('c06-k-range-2d', [('src/rtree_nn.rs', '            Dimensionality::ThreeD => -1..=1,\n            Dimensionality::OneD | Dimensionality::TwoD => 0..=0,', '            Dimensionality::ThreeD | Dimensionality::TwoD => -1..=1,\n            Dimensionality::OneD => 0..=0,')], {'C06': ['R1'], 'C08': ['R1'], 'C17': ['R4']}),
    ('c06-shift-j-width0', [('src/rtree_nn.rs', 'j as f64 * width[1]', 'j as f64 * width[0]')], {'C06': ['R1'], 'C17': ['R4']}),
    ('c07-rtree-from-selected-only', [('src/voronoi.rs', '        let rtree = build_rtree(&generators);\n        let simulation_volume = SimulationBoundary::cuboid(anchor, width, periodic, dimensionality);\n\n        // Helper function to build a single cell', '        let selected: Vec<Generator> = generators.iter().copied().filter(|g| mask.map_or(true, |m| m[g.id()])).collect();\n        let rtree = build_rtree(&selected);\n        let simulation_volume = SimulationBoundary::cuboid(anchor, width, periodic, dimensionality);\n\n        // Helper function to build a single cell')], {'C07': ['R1'], 'C13': ['R1']}),
    ('c08-2d-projection-keeps-z', [('src/voronoi/generator.rs', '            Dimensionality::TwoD => loc.z = 0.,', '            Dimensionality::TwoD => (),')], {'C08': ['R1']}),
    ('c08-2d-radius-drops-y', [('src/voronoi/convex_cell.rs', '            Dimensionality::TwoD => DVec3::new(loc.x, loc.y, 0.),\n            Dimensionality::ThreeD => loc,\n        };\n        Vertex {\n            loc,\n            dual: [i, j, k],\n            radius2: gen_loc.distance_squared(d_loc),', '            Dimensionality::TwoD => DVec3::new(loc.x, 0., 0.),\n            Dimensionality::ThreeD => loc,\n        };\n        Vertex {\n            loc,\n            dual: [i, j, k],\n            radius2: gen_loc.distance_squared(d_loc),')], {'C08': ['R1'], 'C16': ['R3']}),
    ('c08-valid-always-2d', [('src/voronoi.rs', '            Self::TwoD => v.z == 0.,', '            Self::TwoD => true,')], {'C08': ['R1']}),
    ('c09-sum-reduction', [('src/voronoi.rs', '        let voronoi_cells = faces.par_iter_mut().enumerate().map(build).collect::<Vec<_>>();', '        let voronoi_cells = faces.par_iter_mut().enumerate().map(build).collect::<Vec<_>>();\n        let _total: f64 = voronoi_cells.par_iter().map(|c| c.volume()).sum();')], {'C09': ['R1']}),
    ('c10-cofactor-sign', [('src/geometry.rs', '    determinant -= &v[0] * &det;', '    determinant += &v[0] * &det;')], {'C10': ['R1', 'R6'], 'C11': ['R1']}),
    ('c10-float-sibling-diverges', [('src/geometry.rs', '    let d = (d - a).extend((d - a).length_squared());\n    let v = (v - a).extend((v - a).length_squared());\n\n    DMat4', '    let d = (d - a).extend((d - b).length_squared());\n    let v = (v - a).extend((v - a).length_squared());\n\n    DMat4')], {'C10': ['R2']}),
    ('c11-malachite-less-plus', [('src/geometry.rs', '        Ordering::Less => -1.0,', '        Ordering::Less => 1.0,')], {'C11': ['R2']}),
    ('c11-num-bigint-nosign', [('src/geometry.rs', '        Sign::NoSign => 0.0,', '        Sign::NoSign => 1.0,')], {'C11': ['R2']}),
    ('c12-neighbour-ignores-periodic', [('src/voronoi/voronoi_cell.rs', 'if face.is_periodic() || face.is_boundary() {', 'if face.is_boundary() {')], {'C12': ['R4']}),
    ('c12-offset-before-finalize', [('src/voronoi.rs', '            cell.finalize(i, face_connections_offset, face_count);\n            face_connections_offset += face_count;', '            face_connections_offset += face_count;\n            cell.finalize(i, face_connections_offset, face_count);')], {'C12': ['R2']}),
    ('c13-integrator-anchor-z-0', [('src/voronoi.rs', '            anchor.z = -0.5;\n            width.z = 1.;\n        }\n\n        let cell_is_active', '            anchor.z = 0.;\n            width.z = 1.;\n        }\n\n        let cell_is_active')], {'C13': ['R1'], 'C02': ['R1']}),
    ('c13-conversion-passes-none', [('src/voronoi.rs', 'VoronoiCell::from_convex_cell(convex_cell, faces, Some(&self.cell_is_active))', 'VoronoiCell::from_convex_cell(convex_cell, faces, None)')], {'C13': ['R2'], 'C07': ['R2']}),
    ('c14-data-zipped-after-filter', [('src/voronoi.rs', '            .par_iter()\n            .zip(extra_data.par_iter())\n            .filter_map(|(cell, data)| cell.as_ref().map(|cell| cell.compute_cell_integral(*data)))\n            .collect();', '            .par_iter()\n            .filter_map(|cell| cell.as_ref())\n            .zip(extra_data.par_iter())\n            .map(|(cell, data)| cell.compute_cell_integral(*data))\n            .collect();')], {'C14': ['R2'], 'C13': ['R5'], 'C09': ['R4']}),
    ('c15-dimension-assert-removed', [('src/voronoi/convex_cell.rs', '        assert_eq!(\n            self.dimensionality,\n            Dimensionality::ThreeD,\n            "Can only convert to WithFaces in 3D!"\n        );\n', '')], {'C15': ['R5']}),
    ('c15-typeid-without-faces', [('src/voronoi/convex_cell.rs', 'if TypeId::of::<M>() == TypeId::of::<WithFaces>() {', 'if TypeId::of::<M>() != TypeId::of::<WithoutFaces>() {')], {'C15': ['R3']}),
    ('c15-fvc-not-set', [('src/voronoi/convex_cell.rs', '        self.face_vertex_connections =\n            Some(face_vertex_connections.into_iter().flatten().collect());', '        let _fvc: Option<Vec<usize>> =\n            Some(face_vertex_connections.into_iter().flatten().collect());')], {'C15': ['R1']}),
    ('c16-min-by', [('src/voronoi/convex_cell.rs', '            .max_by(|a, b| a.partial_cmp(b).expect("NaN distance encountered!"))', '            .min_by(|a, b| a.partial_cmp(b).expect("NaN distance encountered!"))')], {'C16': ['R1']}),
    ('c16-factor-1.9', [('src/voronoi/convex_cell.rs', 'self.safety_radius = 2. * max_dist_2.sqrt();', 'self.safety_radius = 1.9 * max_dist_2.sqrt();')], {'C16': ['R1', 'R4'], 'C01': ['R3']}),
    ('c16-update-removed-from-clip', [('src/voronoi/convex_cell.rs', '                cur = next;\n            }\n            self.update_safety_radius();', '                cur = next;\n            }')], {'C16': ['R2']}),
    ('c17-envelope-clamp-without-shift', [('src/rtree_nn.rs', 'dx[i] = clamp(point[i] + shift[i], lower[i], upper[i]) - point[i] - shift[i];', 'dx[i] = clamp(point[i], lower[i], upper[i]) - point[i];')], {'C17': ['R3']}),
    ('c17-leaf-key-minus-shift', [('src/rtree_nn.rs', 'point[0] + shift[0] - self.loc().x,', 'point[0] - shift[0] - self.loc().x,')], {'C17': ['R2'], 'C06': ['R4']}),
    ('c17-natural-ord', [('src/rtree_nn.rs', '        other\n            .distance\n            .partial_cmp(&self.distance)', '        self\n            .distance\n            .partial_cmp(&other.distance)')], {'C17': ['R1']}),
    ('c17-distance2-root', [('src/rtree_nn.rs', '        self.loc().distance_squared(DVec3 {\n            x: point[0],\n            y: point[1],\n            z: point[2],\n        })', '        self.loc().distance(DVec3 {\n            x: point[0],\n            y: point[1],\n            z: point[2],\n        })')], {'C17': ['R5']}),
    ('c19-intersect-planes-swapped', [('src/geometry.rs', 'pub fn signed_volume_tet(v0: DVec3, v1: DVec3, v2: DVec3, v3: DVec3) -> f64 {\n    let v01 = v1 - v0;\n    let v02 = v2 - v0;', 'pub fn signed_volume_tet(v0: DVec3, v1: DVec3, v2: DVec3, v3: DVec3) -> f64 {\n    let v01 = v2 - v0;\n    let v02 = v1 - v0;')], {'C19': ['R4'], 'C01': ['R6']}),
    ('c20-single-point-sphere-empty-again-F6', [('src/geometry.rs', '            0 => Self::EMPTY,\n            1 => Self::new(points[0], 0.),\n', '            0 | 1 => Self::EMPTY,\n')], {'C20': ['R4']}),
    ('c20-welzl-point-added-when-contained', [('src/bounding_sphere.rs', '        if !solution.contains(point) {', '        if solution.contains(point) {')], {'C20': ['R5']}),
    ('c20-epos6-spheres-grow-by-full-gap', [('src/bounding_sphere.rs', 'let delta = 0.5 * (dist - bounding_sphere.radius + sphere.radius);', 'let delta = dist - bounding_sphere.radius + sphere.radius;')], {'C20': ['R6']}),
    ('c20-cwidth-x-again-F5', [('src/space.rs', 'y: j as f64 * c_width.y,', 'y: j as f64 * c_width.x,')], {'C20': ['R1']}),
    ('c01-cycle-start-fixup-wrong', [('src/simple_cycle.rs', '                if self.start == tri[j] {', '                if self.start == tri[k] {')], {'C01': ['R7']}),
    ('c01-cycle-extend-wrong-successor', [('src/simple_cycle.rs', '                self.ptrs[tri[i]] = tri[j];', '                self.ptrs[tri[i]] = tri[k];')], {'C01': ['R7']}),
    ('c01-walk-does-not-close', [('src/voronoi/convex_cell.rs', 'self.boundary.iter().take(self.boundary.len + 1);', 'self.boundary.iter().take(self.boundary.len);')], {'C01': ['R7']}),
    ('c01-triple-offered-reversed', [('src/voronoi/convex_cell.rs', 'match boundary.try_extend(vertex[0], vertex[1], vertex[2]) {', 'match boundary.try_extend(vertex[0], vertex[2], vertex[1]) {')], {'C01': ['R7']}),
    ('c14-decomposition-wrong-neighbour-projection', [('src/voronoi/convex_cell.rs', '            self.projections[(self.cur_tet_idx + 5) % 6],', '            self.projections[(self.cur_tet_idx + 1) % 6],')], {'C14': ['R5']}),
    ('c14-decomposition-wrong-label', [('src/voronoi/convex_cell.rs', '            self.cur_vertex.dual[self.cur_tet_idx / 2],', '            self.cur_vertex.dual[self.cur_tet_idx % 3],')], {'C14': ['R5']}),
    ('c15-vertex-listed-twice-on-one-plane', [('src/voronoi/convex_cell.rs', '            face_vertex_connections[vertex.dual[2]].push(idx);', '            face_vertex_connections[vertex.dual[1]].push(idx);')], {'C15': ['R7']}),
    ('c15-face-offset-off-by-one', [('src/voronoi/convex_cell.rs', '                offset += face.vertex_count;', '                offset += face.vertex_count + 1;')], {'C15': ['R7']}),
    ('c18-two-rotations-only', [('src/simple_cycle.rs', '        for i in 0..3 {\n            let j = (i + 1) % 3;', '        for i in 0..2 {\n            let j = (i + 1) % 3;')], {'C18': ['R1'], 'C01': ['R7']}),
    ('c18-no-exchange-after-accept', [('src/voronoi/convex_cell.rs', '                        if idx > i {\n                            vertices.swap(i, idx);\n                        }\n                        break;', '                        break;')], {'C18': ['R2']}),
    ('c18-scan-restarts-at-zero', [('src/voronoi/convex_cell.rs', '            let mut idx = i;\n            loop {', '            let mut idx = 0;\n            loop {')], {'C18': ['R2']}),
    ('c18-scan-skips-on-ok', [('src/voronoi/convex_cell.rs', '                    Err(()) => idx += 1,\n                }', '                    Err(()) => idx += 2,\n                }')], {'C18': ['R2']}),
    ('c18-partition-skips-exchanged-in-vertex', [('src/voronoi/convex_cell.rs', '                self.vertices.swap(i, num_v);\n            } else {\n                i += 1;\n            }', '                self.vertices.swap(i, num_v);\n            }\n            i += 1;')], {'C18': ['R3']}),
    ('c18-partition-exchanges-with-wrong-slot', [('src/voronoi/convex_cell.rs', '                num_v -= 1;\n                num_r += 1;\n                self.vertices.swap(i, num_v);', '                self.vertices.swap(i, num_v - num_r - 1);\n                num_v -= 1;\n                num_r += 1;')], {'C18': ['R3']}),
    ('c18-reset-one-node-short', [('src/simple_cycle.rs', '        for _ in 0..self.len {\n            next = self.ptrs[current];', '        for _ in 1..self.len {\n            next = self.ptrs[current];')], {'C18': ['R4']}),
    ('c18-reset-reads-successor-after-clearing', [('src/simple_cycle.rs', '            next = self.ptrs[current];\n            self.ptrs[current] = current;\n            current = next;', '            self.ptrs[current] = current;\n            next = self.ptrs[current];\n            current = next;')], {'C18': ['R4']}),
    ('c18-new-vertex-pair-reversed', [('src/voronoi/convex_cell.rs', '                self.vertices.push(Vertex::from_dual(\n                    cur,\n                    next,\n                    p_idx,', '                self.vertices.push(Vertex::from_dual(\n                    next,\n                    cur,\n                    p_idx,')], {'C18': ['R5'], 'C10': ['R6']}),
    ('c18-grow-attaches-node-to-zero', [('src/simple_cycle.rs', '        self.ptrs.push(self.ptrs.len());', '        self.ptrs.push(0);')], {'C18': ['R4']}),
    ('c20-ring-thickness-global-min', [('src/space.rs', 'let min_dist_to_ring = dist_to_face + r as f64 * self.cells[0].width.min_element();', 'let min_dist_to_ring = dist_to_face + r as f64 * self.cells[0].width.max_element();')], {'C20': ['R2']}),
]

BENIGN = [
    ('b-ge-for-gt', [('src/voronoi/voronoi_cell.rs', '*right_idx > idx || mask', '*right_idx >= idx || mask')]),
    ('b-idx-lt-right', [('src/voronoi/voronoi_cell.rs', '*right_idx > idx || mask', 'idx < *right_idx || mask')]),
    ('b-normalize', [('src/voronoi/convex_cell.rs', '            let n = dx / dist;\n            let p = 0.5', '            let n = dx.normalize();\n            let p = 0.5')]),
    ('b-lerp-midpoint', [('src/voronoi/convex_cell.rs', 'let p = 0.5 * (cell.loc + ngb_loc);', 'let p = cell.loc.lerp(ngb_loc, 0.5);')]),
    ('b-midpoint-div-2', [('src/voronoi/convex_cell.rs', 'let p = 0.5 * (cell.loc + ngb_loc);', 'let p = (cell.loc + ngb_loc) / 2.;')]),
    ('b-radius-full-3d-in-2d', [('src/voronoi/convex_cell.rs', '            Dimensionality::TwoD => DVec3::new(loc.x, loc.y, 0.),\n            Dimensionality::ThreeD => loc,\n        };\n        Vertex {\n            loc,\n            dual: [i, j, k],\n            radius2: gen_loc.distance_squared(d_loc),', '            Dimensionality::TwoD => loc,\n            Dimensionality::ThreeD => loc,\n        };\n        Vertex {\n            loc,\n            dual: [i, j, k],\n            radius2: gen_loc.distance_squared(d_loc),')]),
    ('b-rotate-dual-args', [('src/voronoi/convex_cell.rs', '.iloc(self.clipping_planes[dual[0]].right_loc(self.idx, generators));\n                let c = simulation_boundary\n                    .iloc(self.clipping_planes[dual[1]].right_loc(self.idx, generators));\n                let d = simulation_boundary\n                    .iloc(self.clipping_planes[dual[2]].right_loc', '.iloc(self.clipping_planes[dual[1]].right_loc(self.idx, generators));\n                let c = simulation_boundary\n                    .iloc(self.clipping_planes[dual[2]].right_loc(self.idx, generators));\n                let d = simulation_boundary\n                    .iloc(self.clipping_planes[dual[0]].right_loc')]),
    ('b-rename-locals', [('src/voronoi/convex_cell.rs', '            let dx = cell.loc - ngb_loc;\n            let dist = dx.length();\n            assert!(dist.is_finite() && dist > 0.0, "Degenerate point set!");\n            if cell.safety_radius < dist {\n                return cell;\n            }\n            let n = dx / dist;', '            let delta = cell.loc - ngb_loc;\n            let separation = delta.length();\n            assert!(separation.is_finite() && separation > 0.0, "Degenerate point set!");\n            if cell.safety_radius < separation {\n                return cell;\n            }\n            let n = delta / separation;')]),
    ('b-finalize-zip-refactor', [('src/voronoi.rs', '        for (i, cell) in self.voronoi_cells.iter_mut().enumerate() {\n            let face_count = cell_face_connections[i].len();\n            cell.finalize(i, face_connections_offset, face_count);', '        for ((i, cell), connections) in self.voronoi_cells.iter_mut().enumerate().zip(cell_face_connections.iter()) {\n            let face_count = connections.len();\n            cell.finalize(i, face_connections_offset, face_count);')]),
    ('b-termination-flipped-comparison', [('src/voronoi/convex_cell.rs', 'if cell.safety_radius < dist {', 'if dist > cell.safety_radius {')]),
    ('b-centroid-quarter-as-division', [('src/voronoi/integrals.rs', '            0.25 / self.volume', '            1. / (4. * self.volume)')]),
    ('b-helper-extracted-normalisation', [('src/voronoi.rs', '        // Normalize the unused components of the simulation volume, so that the lower\n        // dimensional volumes will be correct.\n        if let Dimensionality::OneD = dimensionality {\n            anchor.y = -0.5;\n            width.y = 1.;\n        }\n\n        if let Dimensionality::OneD | Dimensionality::TwoD = dimensionality {\n            anchor.z = -0.5;\n            width.z = 1.;\n        }\n\n        // build cells', '        fn unit_slab(anchor: &mut DVec3, width: &mut DVec3, dimensionality: Dimensionality) {\n            if let Dimensionality::OneD = dimensionality {\n                anchor.y = -0.5;\n                width.y = 1.;\n            }\n            if let Dimensionality::OneD | Dimensionality::TwoD = dimensionality {\n                anchor.z = -0.5;\n                width.z = 1.;\n            }\n        }\n        unit_slab(&mut anchor, &mut width, dimensionality);\n\n        // build cells')]),
    ('b-match-for-if-let-shift', [('src/voronoi/convex_cell.rs', '            let ngb_loc;\n            if let Some(shift) = shift {\n                ngb_loc = generator.loc() + shift;\n            } else {\n                ngb_loc = generator.loc();\n            }', '            let ngb_loc = match shift {\n                Some(s) => generator.loc() + s,\n                None => generator.loc(),\n            };')]),
    ('b-bisector-helper-extracted', [('src/voronoi/convex_cell.rs', '            let n = dx / dist;\n            let p = 0.5 * (cell.loc + ngb_loc);', '            fn bisector(l: DVec3, r: DVec3, d: DVec3, len: f64) -> (DVec3, DVec3) {\n                (d / len, 0.5 * (l + r))\n            }\n            let (n, p) = bisector(cell.loc, ngb_loc, dx, dist);')]),
    ('b-face-rule-disjuncts-swapped', [('src/voronoi/voronoi_cell.rs', '*right_idx > idx || mask.map_or(false, |mask| !mask[*right_idx])', 'mask.map_or(false, |mask| !mask[*right_idx]) || *right_idx > idx')]),
    ('b-finalize-index-loop', [('src/voronoi.rs', '        for (i, face) in self.faces.iter().enumerate() {\n            cell_face_connections[face.left()].push(i);', '        for i in 0..self.faces.len() {\n            let face = &self.faces[i];\n            cell_face_connections[face.left()].push(i);')]),
    ('b-safety-radius-fold-max', [('src/voronoi/convex_cell.rs', '            .max_by(|a, b| a.partial_cmp(b).expect("NaN distance encountered!"))\n            .expect("Vertices cannot be empty!");', '            .fold(f64::NEG_INFINITY, f64::max);')]),
    ('b-clip-sign-via-comparison', [('src/voronoi/half_space.rs', '            clip.signum()', '            if clip > 0. { 1. } else { -1. }')]),
    ('b-volume-integral-local-var', [('src/voronoi/integrals.rs', '        self.volume += signed_volume_tet(v0, v1, v2, gen);\n    }', '        let dv = signed_volume_tet(v0, v1, v2, gen);\n        self.volume = self.volume + dv;\n    }')]),
    ('b-neighbour-ids-match', [('src/voronoi/voronoi_cell.rs', '            if face.is_periodic() || face.is_boundary() {\n                return None;\n            }', '            if face.shift().is_some() || face.right().is_none() {\n                return None;\n            }')]),
    ('b-c18-exchange-unconditional', [('src/voronoi/convex_cell.rs', '                        if idx > i {\n                            vertices.swap(i, idx);\n                        }\n                        break;', '                        vertices.swap(i, idx);\n                        break;')]),
    ('b-c18-rotation-indices-by-match', [('src/simple_cycle.rs', '            let j = (i + 1) % 3;\n            let k = (i + 2) % 3;', '            let (j, k) = match i {\n                0 => (1, 2),\n                1 => (2, 0),\n                _ => (0, 1),\n            };')]),
    ('b-c18-scan-with-is-ok', [('src/voronoi/convex_cell.rs', '                match boundary.try_extend(vertex[0], vertex[1], vertex[2]) {\n                    Ok(()) => {\n                        if idx > i {\n                            vertices.swap(i, idx);\n                        }\n                        break;\n                    }\n                    Err(()) => idx += 1,\n                }', '                if boundary.try_extend(vertex[0], vertex[1], vertex[2]).is_ok() {\n                    if idx != i {\n                        vertices.swap(i, idx);\n                    }\n                    break;\n                }\n                idx += 1;')]),
    ('b-c18-partition-loop-form', [('src/voronoi/convex_cell.rs', '        while i < num_v {\n            let mut clip = p.clip(self.vertices[i].loc);', '        loop {\n            if i >= num_v {\n                break;\n            }\n            let mut clip = p.clip(self.vertices[i].loc);')]),
    ('b-c18-partition-counter-order', [('src/voronoi/convex_cell.rs', '                num_v -= 1;\n                num_r += 1;\n                self.vertices.swap(i, num_v);', '                num_r += 1;\n                self.vertices.swap(i, num_v - 1);\n                num_v -= 1;')]),
    ('b-c18-reset-with-while', [('src/simple_cycle.rs', '        for _ in 0..self.len {\n            next = self.ptrs[current];\n            self.ptrs[current] = current;\n            current = next;\n        }', '        let mut remaining = self.len;\n        while remaining > 0 {\n            next = self.ptrs[current];\n            self.ptrs[current] = current;\n            current = next;\n            remaining -= 1;\n        }')]),
]


def make_diff(edits, out):
    tmp = tempfile.mkdtemp(prefix='mvmut-')
    try:
        subprocess.run(['git', '-C', REPO, 'worktree', 'add', '--detach', tmp + '/w', 'HEAD'], check=True, capture_output=True)
        w = tmp + '/w'
        for f, old, new in edits:
            p = os.path.join(w, f)
            s = open(p).read()
            if s.count(old) < 1:
                raise SystemExit('edit does not apply: %s in %s' % (old[:50], f))
            s = s.replace(old, new, 1)
            open(p, 'w').write(s)
        d = subprocess.run(['git', '-C', w, 'diff'], capture_output=True, text=True).stdout
        open(out, 'w').write(d)
    finally:
        subprocess.run(['git', '-C', REPO, 'worktree', 'remove', '--force', tmp + '/w'], capture_output=True)
        shutil.rmtree(tmp, ignore_errors=True)


if __name__ == '__main__':
    corpus = []
    for name, edits, expect in MUTANTS:
        out = os.path.join(V, 'selftest', 'mutants', name + '.diff')
        make_diff(edits, out)
        corpus.append({'name': name, 'kind': 'mutant', 'patch': 'selftest/mutants/%s.diff' % name, 'expect': expect})
    for name, edits in BENIGN:
        out = os.path.join(V, 'selftest', 'benign', name + '.diff')
        make_diff(edits, out)
        corpus.append({'name': name, 'kind': 'benign', 'patch': 'selftest/benign/%s.diff' % name})
    json.dump(corpus, open(os.path.join(V, 'selftest', 'corpus.json'), 'w'), indent=1)
    print('wrote', len(corpus), 'entries')
