// Demonstrations of the defects F1–F5 against the real crate (integration test; public API only
// except F5/F1 which are internal and are demonstrated through unit tests in findings_internal.rs).
use glam::DVec3;
use meshless_voronoi::{Dimensionality, Voronoi};

// F2 / C04: face normals must point away from the left generator.
#[test]
fn f2_face_normal_points_away_from_left() {
    let g = vec![DVec3::new(0.3, 0.4, 0.25), DVec3::new(0.7, 0.6, 0.75)];
    let v = Voronoi::build(&g, DVec3::ZERO, DVec3::ONE, Dimensionality::ThreeD, false);
    let mut n_checked = 0;
    for f in v.faces() {
        let l = g[f.left()];
        // (centroid - left generator) . normal must be positive for an outward normal
        assert!((f.centroid() - l).dot(f.normal()) > 0., "face left={} right={:?} normal={:?} points towards its left generator", f.left(), f.right(), f.normal());
        n_checked += 1;
    }
    assert!(n_checked >= 11);
}

// F3 / C12: neighbour iterator of a cell that was not constructed.
#[test]
fn f3_neighbour_ids_of_unconstructed_cell() {
    let g = vec![DVec3::new(0.2, 0.5, 0.5), DVec3::new(0.5, 0.5, 0.5), DVec3::new(0.8, 0.5, 0.5)];
    let mask = [true, false, false];
    let v = Voronoi::build_partial(&g, &mask, DVec3::ZERO, DVec3::ONE, Dimensionality::ThreeD, false);
    let ids: Vec<usize> = v.cells()[1].neighbour_ids(&v).collect();
    assert_eq!(ids, vec![0], "cell 1 must list cell 0 (across its only non-boundary face), never itself");
}

// F1 / C05, C10: generator on the near x wall; the box corner (1,0,0) is exactly equidistant from
// both generators, so the exact predicate is consulted for a vertex on the far x wall and asks for
// the grid position of the mirror image of generator 0 through that wall (x = 2).
#[test]
fn f1_mirror_through_far_wall_fits_the_integer_grid() {
    let g = vec![DVec3::new(0., 0.5, 0.5), DVec3::new(0.5, 1., 0.5)];
    let v = Voronoi::build(&g, DVec3::ZERO, DVec3::ONE, Dimensionality::ThreeD, false);
    let vol: f64 = v.cells().iter().map(|c| c.volume()).sum();
    assert!((vol - 1.).abs() < 1e-12, "volumes sum to {vol}");
}
