// F4 / C14: a downstream crate must be able to implement the integral traits.
use glam::DVec3;
use meshless_voronoi::integrals::{CellIntegral, FaceIntegral};
use meshless_voronoi::{ConvexCell, ConvexCellMarker, Dimensionality, VoronoiIntegrator};

#[derive(Default)]
struct FirstMoment(DVec3);
impl CellIntegral for FirstMoment {
    fn init<M: ConvexCellMarker>(_cell: &ConvexCell<M>) -> Self { Self::default() }
    fn collect(&mut self, v0: DVec3, v1: DVec3, v2: DVec3, gen: DVec3) {
        let vol = meshless_voronoi::geometry::signed_volume_tet(v0, v1, v2, gen);
        self.0 += 0.25 * vol * (v0 + v1 + v2 + gen);
    }
    fn finalize(self) -> Self { self }
}
#[derive(Clone, Default)]
struct Area(f64);
impl FaceIntegral for Area {
    fn init<M: ConvexCellMarker>(_cell: &ConvexCell<M>, _k: usize) -> Self { Self::default() }
    fn collect(&mut self, v0: DVec3, v1: DVec3, v2: DVec3, gen: DVec3) {
        self.0 += meshless_voronoi::geometry::signed_area_tri(v0, v1, v2, gen);
    }
    fn finalize(self) -> Self { self }
}

#[test]
fn f4_custom_integrals_downstream() {
    let g = vec![DVec3::splat(1.), DVec3::splat(2.)];
    let vi = VoronoiIntegrator::build(&g, None, DVec3::ZERO, DVec3::splat(3.), Dimensionality::ThreeD, false);
    let m: Vec<FirstMoment> = vi.compute_cell_integrals();
    assert_eq!(m.len(), 2);
    let a = vi.compute_face_integrals::<Area>();
    assert!(a.len() >= 12);
}
